"""JSON-like dynamic values (parsed option files: gRPC service config, service YAML) inside the typed schema model.
A `Json` value is a reference with: jhas/jget (object members), jseq (array elements), jtruthy, and boxed scalars."""
import ast
import z3
from .smt import Ref, NONE, fn, fresh
from .types import *        # noqa
from .model import FuncV, BUILTINS

JSON = ObjT("Json")
S = z3.StringSort()
jhas = fn("json.has", Ref, S, z3.BoolSort())
jget = fn("json.get", Ref, S, Ref)
jseq = fn("json.seq", Ref, Ref)
jtruthy = fn("json.truthy", Ref, z3.BoolSort())
jstr = fn("json.str", S, Ref)
jint = fn("json.int", z3.IntSort(), Ref)
jreal = fn("json.real", z3.RealSort(), Ref)
JEMPTY_LIST = z3.Const("json.empty_list", Ref)


def to_json(ex, v, st):
    if v.ty == JSON or (isinstance(v.ty, OptT) and v.ty.inner == JSON):
        return V(v.term, JSON)
    if v.ty is STR:
        return V(jstr(v.term), JSON)
    if v.ty is INT:
        return V(jint(v.term), JSON)
    if v.ty is REAL:
        return V(jreal(v.term), JSON)
    if v.ty is NONE_T:
        return V(NONE, JSON)
    if v.ty is PY and isinstance(v.py, tuple) and v.py and v.py[0] == "emptylist":
        if st is not None:
            st.assume(seq_len(jseq(JEMPTY_LIST)) == 0)
            st.assume(z3.Not(jtruthy(JEMPTY_LIST)))
        return V(JEMPTY_LIST, JSON)
    if v.ty is PY and isinstance(v.py, tuple) and v.py and v.py[0] == "dictlit":
        pairs = v.py[1]
        keys = []
        vals = []
        for k, x in pairs:
            if not (k.ty is STR and z3.is_string_value(k.term)):
                raise Unsupported("dict literal with a computed key")
            keys.append(k.term.as_string())
            vals.append(to_json(ex, x, st).term)
        f = fn("json.obj:" + ",".join(keys), *([Ref] * len(vals)), Ref)
        return V(f(*vals), JSON)
    raise Unsupported(f"cannot view {v!r} as JSON")


class JsonMixin:
    """Mix into a Model subclass (before Model in the MRO)."""

    def init_json(self):
        self.add_class("Json", {})
        s = z3.Const("js", S)
        self.add_axiom(z3.ForAll([s], fn("json.unstr", Ref, S)(jstr(s)) == s, patterns=[jstr(s)]))
        self.add_axiom(z3.ForAll([s], jtruthy(jstr(s)) == (z3.Length(s) > 0), patterns=[jstr(s)]))
        self.add_axiom(z3.ForAll([s], jstr(s) != NONE, patterns=[jstr(s)]))
        self.add_axiom(z3.Not(jtruthy(NONE)))

    def truthy(self, ex, v):
        ty = v.ty.inner if isinstance(v.ty, OptT) else v.ty
        if ty == JSON:
            return z3.And(v.term != NONE, jtruthy(v.term))
        return super().truthy(ex, v)

    def getattr(self, ex, base, attr, st, node=None):
        ty = base.ty.inner if isinstance(base.ty, OptT) else base.ty
        if ty == JSON and attr in ("get", "items", "keys", "values", "endswith", "startswith"):
            return pyv(FuncV("method", attr, recv=V(base.term, JSON)))
        return super().getattr(ex, base, attr, st, node)

    def call_method(self, ex, recv, name, args, kwargs, st, node):
        if recv.ty == JSON:
            if name == "get" and 1 <= len(args) <= 2 and args[0].ty is STR:
                d = to_json(ex, args[1], st) if len(args) == 2 else V(NONE, JSON)
                return V(z3.If(jhas(recv.term, args[0].term), jget(recv.term, args[0].term), d.term), JSON)
            raise Unsupported(f"Json.{name}")
        return super().call_method(ex, recv, name, args, kwargs, st, node)

    def subscript(self, ex, base, idx, st, node):
        if base.ty == JSON and idx.ty is STR:
            ex.safety("json key present", st, jhas(base.term, idx.term), node, "KeyError")
            return V(jget(base.term, idx.term), JSON)
        return super().subscript(ex, base, idx, st, node)

    def contains(self, ex, container, item, st):
        ty = container.ty.inner if isinstance(container.ty, OptT) else container.ty
        if ty == JSON:
            if item.ty is STR:
                return jhas(container.term, item.term)
            it = to_json(ex, item, st)
            q = jseq(container.term)
            i = fresh("ji", z3.IntSort())
            return z3.Exists([i], z3.And(0 <= i, i < seq_len(q), seq_at(q, i, JSON) == it.term))
        return super().contains(ex, container, item, st)

    def eq(self, ex, a, b, identity=False):
        if a.ty == JSON or b.ty == JSON:
            try:
                return to_json(ex, a, None).term == to_json(ex, b, None).term
            except Unsupported:
                return None
        return super().eq(ex, a, b, identity)

    def json_seq(self, ex, v, st):
        q = V(jseq(v.term), SeqT(JSON))
        st.assume(seq_len(q.term) >= 0)
        return q


def iter_json(model, ex, it, st):
    return model.json_seq(ex, it, st)
