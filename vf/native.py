"""Native (CPython) evaluation of contract-language expressions on real objects of the real code.
One specification, several consumers: pyvc proves it symbolically; this module executes it for replay / falsification and
as a cross-check that a proved contract is not contradicted by a concrete execution (which would mean an unsound encoding)."""
import ast


class _Rewrite(ast.NodeTransformer):
    def visit_Call(self, node):
        self.generic_visit(node)
        if isinstance(node.func, ast.Name) and node.func.id == "implies" and len(node.args) == 2:
            return ast.BoolOp(op=ast.Or(), values=[ast.UnaryOp(op=ast.Not(), operand=node.args[0]), node.args[1]])
        if isinstance(node.func, ast.Name) and node.func.id == "iff" and len(node.args) == 2:
            return ast.Compare(left=ast.Call(func=ast.Name(id="bool", ctx=ast.Load()), args=[node.args[0]], keywords=[]), ops=[ast.Eq()],
                               comparators=[ast.Call(func=ast.Name(id="bool", ctx=ast.Load()), args=[node.args[1]], keywords=[])])
        if isinstance(node.func, ast.Attribute) and node.func.attr in ("values", "keys") and not node.args:
            return ast.Call(func=ast.Name(id="_seq", ctx=ast.Load()), args=[node], keywords=[])
        return node


def compile_expr(expr):
    tree = ast.parse(expr.strip(), mode="eval")
    tree = ast.fix_missing_locations(_Rewrite().visit(tree))
    return compile(tree, "<contract>", "eval")


def _forall(f, a, b=None):
    if b is None:
        return all(f(x) for x in a)
    return all(f(i) for i in range(a, b))


def _exists(f, a, b=None):
    if b is None:
        return any(f(x) for x in a)
    return any(f(i) for i in range(a, b))


def native_globals(model, extra=None):
    g = {"forall": _forall, "exists": _exists, "_seq": lambda x: tuple(x), "__builtins__": __builtins__}
    for name, spec in model.specs.items():
        if callable(spec):
            continue
        params, expr = spec
        g[name] = eval(compile_expr("lambda " + ", ".join(params) + ": (" + expr.strip() + ")"), g)
    if extra:
        g.update(extra)
    return g


def native_eval(model, expr, env, extra=None):
    names = sorted(env)
    f = eval(compile_expr("lambda " + ", ".join(names) + ": (" + expr.strip() + ")"), native_globals(model, extra))
    return f(*[env[n] for n in names])


def check_contract_native(model, contract, call, args, extra=None):
    """Call the real function and evaluate requires/ensures/raises natively.
    Returns None if the precondition does not hold, else a list of failed clause descriptions (empty = conforms)."""
    env = dict(args)
    for r in contract.requires:
        if not native_eval(model, r, env, extra):
            return None
    failed = []
    try:
        result = call(**args)
        raised = None
    except Exception as e:          # noqa
        result, raised = None, e
    for exc, cond in contract.raises.items():
        want = bool(native_eval(model, cond, env, extra))
        got = raised is not None and type(raised).__name__ == exc
        if want != got:
            failed.append(f"raises[{exc}]: required={want} observed={got} ({raised!r})")
    if raised is not None:
        if type(raised).__name__ not in contract.raises:
            failed.append(f"no-unexpected-raise[{type(raised).__name__}]: {raised!r}")
        return failed
    env["result"] = result
    for i, e in enumerate(contract.ensures):
        try:
            ok = bool(native_eval(model, e, env, extra))
        except Exception as ex:     # noqa
            ok = False
            failed.append(f"ensures[{i}] raised {ex!r} during native evaluation")
            continue
        if not ok:
            failed.append(f"ensures[{i}]")
    return failed
