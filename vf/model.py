"""Base semantic model for pyvc: typed schema objects (class table), contracts, built-ins, containers, loops."""
import ast
import z3
from .smt import Ref, NONE, fn, fresh, sort_name, forall as _forall
from .types import *        # noqa
from . import types as T
from .pyvc import State, Outcome, Obligation, Contract, Executor, assigned_names


class FuncV:
    """Callable value: kind in {'builtin','method','contract','class','pyfunc','spec'}."""

    def __init__(self, kind, name, recv=None, extra=None):
        self.kind, self.name, self.recv, self.extra = kind, name, recv, extra

    def __repr__(self):
        return f"<{self.kind} {self.name}>"


PYTYPES = {"str": "py.str", "int": "py.int", "float": "py.float", "bool": "py.bool", "bytes": "py.bytes"}


from .types import _Prim as T_Prim
from .smt import sort_name


class Model:
    def __init__(self):
        self.classes = {}        # class name -> {attr: type string, '_forward': attr, '_bases': [..], '_truthy': 'always'}
        self.contracts = {}      # "Class.attr" / "func" -> Contract
        self.specs = {}          # spec function name -> (param names, expression string) | python callable (ex, args, st) -> V
        self.globals = {}        # name -> V
        self._axioms = []
        self._boxed = set()
        self.assumptions = []    # human-readable list of what this model assumes
        self.pytype_consts = {k: z3.Const(v, Ref) for k, v in PYTYPES.items()}
        self._axioms.append(z3.Distinct(list(self.pytype_consts.values()) + [NONE]))

    # ------------------------------------------------------------------ declarations
    def add_class(self, name, attrs=None, forward=None, bases=(), truthy="always"):
        d = dict(attrs or {})
        d["_forward"] = forward
        d["_bases"] = list(bases)
        d["_truthy"] = truthy
        self.classes[name] = d

    def add_contract(self, c):
        self.contracts[c.qualname] = c
        return c

    def add_spec(self, name, params, expr):
        self.specs[name] = (params, expr)

    def axioms(self):
        return list(self._axioms)

    def add_axiom(self, f):
        self._axioms.append(f)

    def need_join_ext(self):
        """Extensionality of sep.join over sequences (two sequences with equal elements join to the same string)."""
        if getattr(self, "_join_ext", False):
            return
        self._join_ext = True
        sep = z3.Const("jsep", z3.StringSort())
        q1, q2 = z3.Consts("jq1 jq2", Ref)
        i = z3.Int("jqi")
        J = fn("str.join", z3.StringSort(), Ref, z3.StringSort())
        self.add_axiom(z3.ForAll([sep, q1, q2], z3.Implies(
            z3.And(seq_len(q1) == seq_len(q2),
                   z3.ForAll([i], z3.Implies(z3.And(0 <= i, i < seq_len(q1)), seq_at(q1, i, STR) == seq_at(q2, i, STR)))),
            J(sep, q1) == J(sep, q2)), patterns=[z3.MultiPattern(J(sep, q1), J(sep, q2))]))

    def need_box(self, ty):
        if repr(ty) not in self._boxed:
            self._boxed.add(repr(ty))
            self._axioms.extend(box_axioms(ty))

    # ------------------------------------------------------------------ class table lookups
    def subclasses(self, cname):
        return [c for c, d in self.classes.items() if cname in d.get("_bases", [])]

    def is_subclass(self, c, base):
        if c == base:
            return True
        return any(self.is_subclass(b, base) for b in self.classes.get(c, {}).get("_bases", []))

    def find_attr(self, cname, attr, seen=None):
        """-> (declaring class, type string) following bases, forwarding and (for abstract classes) subclasses."""
        seen = seen or set()
        if cname in seen or cname not in self.classes:
            return None
        seen.add(cname)
        d = self.classes[cname]
        if attr in d and not attr.startswith("_"):
            return cname, d[attr]
        if attr in d and attr.startswith("_") and attr not in ("_forward", "_bases", "_truthy"):
            return cname, d[attr]
        for b in d["_bases"]:
            r = self.find_attr(b, attr, seen)
            if r:
                return r
        if d["_forward"]:
            fw = self.find_attr(cname, d["_forward"], set())
            if fw:
                fty = parse_type(fw[1])
                if isinstance(fty, ObjT):
                    r = self.find_attr(fty.name, attr, seen)
                    if r:
                        return ("->" + d["_forward"], r)
        for sub in self.subclasses(cname):
            r = self.find_attr(sub, attr, seen)
            if r:
                return r
        return None

    def isinstance_pred(self, cname):
        return fn("isinstance." + cname, Ref, z3.BoolSort())

    def instance_of(self, v, cname):
        """z3 Bool: isinstance(v, cname)."""
        ty = v.ty
        inner = ty.inner if isinstance(ty, OptT) else ty
        nonnull = (v.term != NONE) if is_ref(ty) else z3.BoolVal(True)
        if isinstance(inner, ObjT):
            if self.is_subclass(inner.name, cname):
                return nonnull
            if not self.is_subclass(cname, inner.name) and not self._related(inner.name, cname):
                return z3.BoolVal(False)
            return z3.And(nonnull, self.isinstance_pred(cname)(v.term))
        return z3.BoolVal(False)

    def _related(self, a, b):
        return self.is_subclass(b, a) or self.is_subclass(a, b)

    # ------------------------------------------------------------------ hooks used by the executor
    def truthy(self, ex, v):
        return None

    def obj_truthy(self, ex, v):
        d = self.classes.get(v.ty.name)
        if d is None:
            raise Unsupported(f"truthiness of unknown class {v.ty.name}")
        mode = d["_truthy"]
        if mode == "always":
            return v.term != NONE
        if isinstance(mode, str) and mode.startswith("attr:"):
            return z3.And(v.term != NONE, ex.truth(self.getattr(ex, v, mode[5:], None)))
        raise Unsupported(f"truthiness of {v.ty.name}")

    def eq(self, ex, a, b, identity=False):
        # comparison of a wrapper with a bare python type (PrimitiveType.__eq__)
        for x, y in ((a, b), (b, a)):
            if y.ty is PY and isinstance(y.py, tuple) and y.py and y.py[0] == "pytype":
                if x.ty is PY and isinstance(x.py, tuple) and x.py and x.py[0] == "pytype":
                    return z3.BoolVal(x.py[1] == y.py[1])
                return self.eq_pytype(ex, x, y.py[1], identity)
        if not identity:
            r = self.container_eq(ex, a, b)
            if r is not None:
                return r
        return None

    def container_eq(self, ex, a, b):
        """`==` between two sets / two sequences of primitives is Python's structural equality, not identity of the objects:
        an uninterpreted relation tied to extensional equality by a global axiom (both directions)."""
        ta = a.ty.inner if isinstance(a.ty, OptT) else a.ty
        tb = b.ty.inner if isinstance(b.ty, OptT) else b.ty
        if isinstance(ta, SetT) and isinstance(tb, SetT) and ta.elem == tb.elem:
            es = ta.elem.sort()
            key = "set.eq." + sort_name(es)
            rel = fn(key, Ref, Ref, z3.BoolSort())
            if key not in self._boxed:
                self._boxed.add(key)
                p, q = z3.Consts("seqa seqb", Ref)
                x = z3.Const("seqx", es)
                self.add_axiom(z3.ForAll([p, q], rel(p, q) == z3.ForAll([x], set_mem(p, x, ta.elem) == set_mem(q, x, ta.elem)), patterns=[rel(p, q)]))
                self.add_axiom(z3.ForAll([p], rel(p, p), patterns=[rel(p, p)]))
            both = z3.And(a.term != NONE, b.term != NONE)
            return z3.Or(z3.And(a.term == NONE, b.term == NONE), z3.And(both, rel(a.term, b.term)))
        if isinstance(ta, SeqT) and isinstance(tb, SeqT) and ta.elem == tb.elem and isinstance(ta.elem, T_Prim):
            es = ta.elem.sort()
            key = "seq.eq." + sort_name(es)
            rel = fn(key, Ref, Ref, z3.BoolSort())
            if key not in self._boxed:
                self._boxed.add(key)
                p, q = z3.Consts("sqa sqb", Ref)
                i = z3.Int("sqi")
                self.add_axiom(z3.ForAll([p, q], rel(p, q) == z3.And(seq_len(p) == seq_len(q), z3.ForAll([i], z3.Implies(
                    z3.And(0 <= i, i < seq_len(p)), seq_at(p, i, ta.elem) == seq_at(q, i, ta.elem)))), patterns=[rel(p, q)]))
                self.add_axiom(z3.ForAll([p], rel(p, p), patterns=[rel(p, p)]))
            both = z3.And(a.term != NONE, b.term != NONE)
            return z3.Or(z3.And(a.term == NONE, b.term == NONE), z3.And(both, rel(a.term, b.term)))
        return None

    def eq_pytype(self, ex, x, tname, identity):
        raise Unsupported("comparison with a bare python type")

    def contains(self, ex, container, item, st):
        return None

    def seq_of_tuple(self, ex, t, elem_ty, st):
        q = V(fresh("tupseq", Ref), SeqT(elem_ty))
        st.assume(q.term != NONE)
        st.assume(seq_len(q.term) == len(t.py))
        for i, x in enumerate(t.py):
            st.assume(seq_at(q.term, z3.IntVal(i), elem_ty) == ex.coerce(x, elem_ty).term)
        return q

    def seq_concat(self, ex, a, b, st):
        ety = a.ty.elem
        n = V(fresh("concat", Ref), SeqT(ety))
        la, lb = seq_len(a.term), seq_len(b.term)
        i = z3.Int("ci")
        st.assume(n.term != NONE)
        st.assume(z3.And(la >= 0, lb >= 0, seq_len(n.term) == la + lb))
        st.assume(z3.ForAll([i], z3.Implies(z3.And(0 <= i, i < la), seq_at(n.term, i, ety) == seq_at(a.term, i, ety))))
        st.assume(z3.ForAll([i], z3.Implies(z3.And(0 <= i, i < lb), seq_at(n.term, la + i, ety) == seq_at(b.term, i, ety))))
        return n

    def binop(self, ex, op, a, b, st):
        if isinstance(op, ast.Add) and (isinstance(a.ty, SeqT) or isinstance(b.ty, SeqT)) and (a.ty is TUPLE or b.ty is TUPLE or (isinstance(a.ty, SeqT) and isinstance(b.ty, SeqT))):
            ety = a.ty.elem if isinstance(a.ty, SeqT) else b.ty.elem
            aa = a if isinstance(a.ty, SeqT) else self.seq_of_tuple(ex, a, ety, st)
            bb = b if isinstance(b.ty, SeqT) else self.seq_of_tuple(ex, b, ety, st)
            return self.seq_concat(ex, aa, bb, st)
        if isinstance(op, ast.Sub) and isinstance(a.ty, SetT) and isinstance(b.ty, SetT) and a.ty.elem == b.ty.elem:
            n = V(fresh("setdiff", Ref), a.ty)
            y = z3.Const("sdy", a.ty.elem.sort())
            st.assume(n.term != NONE)
            st.assume(z3.ForAll([y], set_mem(n.term, y, a.ty.elem) == z3.And(set_mem(a.term, y, a.ty.elem), z3.Not(set_mem(b.term, y, a.ty.elem)))))
            return n
        if isinstance(op, (ast.BitOr, ast.Sub)) and isinstance(a.ty, OptT) and isinstance(a.ty.inner, SetT):
            ex.safety("not None before set operator", st, a.term != NONE, None, "TypeError")
            a = V(a.term, a.ty.inner)
        if isinstance(op, ast.BitOr) and isinstance(a.ty, SetT) and isinstance(b.ty, SetT) and a.ty.elem == b.ty.elem:
            n = V(fresh("setunion", Ref), a.ty)
            y = z3.Const("suy", a.ty.elem.sort())
            st.assume(n.term != NONE)
            st.assume(z3.ForAll([y], set_mem(n.term, y, a.ty.elem) == z3.Or(set_mem(a.term, y, a.ty.elem), set_mem(b.term, y, a.ty.elem))))
            return n
        if isinstance(op, ast.BitOr) and isinstance(a.ty, SetT):
            items = None
            if b.ty is PY and isinstance(b.py, tuple) and b.py and b.py[0] == "symset":
                items = b.py[1]
            if items is not None:
                cur = a
                for it in items:
                    cur = self.set_add(ex, cur, ex.coerce(it, a.ty.elem), st)
                return cur
        return None

    def to_str(self, ex, v, st):
        return None

    def format_percent(self, ex, a, b, st):
        raise Unsupported("% formatting")

    def subscript(self, ex, base, idx, st, node):
        if ex.lenient and isinstance(base.ty, ObjT) and base.ty.name == "Opaque":
            return V(fresh("havoc", Ref), ObjT("Opaque"))
        return None

    def slice(self, ex, base, lo, hi, st, node):
        """seq[lo:hi] of a symbolic sequence: a fresh sequence characterised pointwise (Python's clamping of the bounds included)."""
        if not isinstance(base.ty, SeqT):
            return None
        n = seq_len(base.term)

        def norm(v, default):
            if v is None:
                return default
            if v.ty is not INT:
                raise Unsupported("non-int slice bound")
            t = z3.If(v.term < 0, n + v.term, v.term)
            return z3.If(t < 0, 0, z3.If(t > n, n, t))
        a, b = norm(lo, z3.IntVal(0)), norm(hi, n)
        r = V(fresh("slice", Ref), base.ty)
        i = z3.Int("sli")
        st.assume(r.term != NONE)
        st.assume(n >= 0)
        st.assume(seq_len(r.term) == z3.If(b > a, b - a, 0))
        st.assume(z3.ForAll([i], z3.Implies(z3.And(0 <= i, i < seq_len(r.term)), seq_at(r.term, i, base.ty.elem) == seq_at(base.term, a + i, base.ty.elem)),
                            patterns=[seq_at(r.term, i, base.ty.elem)]))
        return r

    def need_join_lemmas(self):
        """Facts of str.join used as axioms (listed as assumptions): join of an empty / one-element sequence, and
        sep.join(q + [x]) == sep.join(q) + sep + x for a non-empty q  (stated over any q2 that extends q by one element)."""
        if getattr(self, "_join_lemmas", False):
            return
        self._join_lemmas = True
        self.need_join_ext()
        sep = z3.Const("jlsep", z3.StringSort())
        q, q2 = z3.Consts("jlq jlq2", Ref)
        i = z3.Int("jli")
        J = fn("str.join", z3.StringSort(), Ref, z3.StringSort())
        self.add_axiom(z3.ForAll([sep, q], z3.Implies(seq_len(q) == 0, J(sep, q) == z3.StringVal("")), patterns=[J(sep, q)]))
        self.add_axiom(z3.ForAll([sep, q], z3.Implies(seq_len(q) == 1, J(sep, q) == seq_at(q, 0, STR)), patterns=[J(sep, q)]))
        self.add_axiom(z3.ForAll([sep, q, q2], z3.Implies(
            z3.And(seq_len(q) >= 1, seq_len(q2) == seq_len(q) + 1,
                   z3.ForAll([i], z3.Implies(z3.And(0 <= i, i < seq_len(q)), seq_at(q2, i, STR) == seq_at(q, i, STR)))),
            J(sep, q2) == z3.Concat(J(sep, q), sep, seq_at(q2, seq_len(q), STR))), patterns=[z3.MultiPattern(J(sep, q), J(sep, q2))]))
        # cons form: sep.join([x] + q) == x + sep + sep.join(q) for a non-empty q
        self.add_axiom(z3.ForAll([sep, q, q2], z3.Implies(
            z3.And(seq_len(q) >= 1, seq_len(q2) == seq_len(q) + 1,
                   z3.ForAll([i], z3.Implies(z3.And(0 <= i, i < seq_len(q)), seq_at(q2, i + 1, STR) == seq_at(q, i, STR)))),
            J(sep, q2) == z3.Concat(seq_at(q2, 0, STR), sep, J(sep, q))), patterns=[z3.MultiPattern(J(sep, q), J(sep, q2))]))
        self.assumptions.append("str.join: join of [] is '', of [x] is x, sep.join(q+[x]) == sep.join(q)+sep+x and sep.join([x]+q) == x+sep+sep.join(q) for non-empty q (facts of Python's str.join, used as axioms)")

    def setattr(self, ex, base, attr, val, st, node):
        return False

    def setitem(self, ex, base, idx, val, st, node):
        if isinstance(base.ty, MapT) and isinstance(node.value, ast.Name):
            k = ex.coerce(idx, base.ty.key)
            if val.ty is TUPLE or val.ty is PY:
                val = self.opaque(ex, val, st)
            v = ex.coerce(val, base.ty.val)
            st.env[node.value.id] = self.map_store(ex, base, k, v, st)
            return True
        return False

    def augassign(self, ex, s, st):
        return None

    def do_yield(self, ex, node, st):
        raise Unsupported("yield")

    def try_stmt(self, ex, s, st):
        raise Unsupported("try")

    def with_stmt(self, ex, s, st):
        raise Unsupported("with")

    def global_name(self, ex, name, st):
        if name in self.globals:
            return self.globals[name]
        if name in PYTYPES:
            return pyv(("pytype", name))
        if name in ("True", "False"):
            return const(name == "True")
        if name in BUILTINS:
            return pyv(FuncV("builtin", name))
        if name in self.specs:
            return pyv(FuncV("spec", name))
        if name in self.classes:
            return pyv(("class", name))
        return None

    # ------------------------------------------------------------------ attribute access
    def getattr(self, ex, base, attr, st, node=None):
        ty = base.ty
        if isinstance(ty, OptT):
            ex.safety(f"not None before .{attr}", st, base.term != NONE, node, "AttributeError") if st is not None else None
            base = V(base.term, ty.inner)
            ty = ty.inner
        if ty is PY:
            return self.py_getattr(ex, base, attr, st, node)
        if isinstance(ty, ObjT):
            return self.obj_getattr(ex, base, attr, st, node)
        if ty in (STR,) or isinstance(ty, (SeqT, MapT, SetT)) or ty is TUPLE:
            return pyv(FuncV("method", attr, recv=base))
        return None

    def py_getattr(self, ex, base, attr, st, node):
        p = base.py
        if isinstance(p, tuple) and p and p[0] == "module":
            key = p[1] + "." + attr
            if key in self.globals:
                return self.globals[key]
            if attr in self.classes:
                return pyv(("class", attr))
            return pyv(("module", key))
        if isinstance(p, tuple) and p and p[0] == "class":
            q = p[1] + "." + attr
            if q in self.contracts:
                return pyv(FuncV("contract", q, recv=None))
            if q in self.globals:
                return self.globals[q]
            return pyv(("classattr", p[1], attr))
        if isinstance(p, tuple) and p and p[0] == "pytype" and attr == "__name__":
            return const(p[1])
        return None

    def obj_getattr(self, ex, base, attr, st, node):
        cname = base.ty.name
        found = self.find_attr(cname, attr)
        if found is None:
            return None
        decl, tystr = found
        if decl.startswith("->"):      # __getattr__ forwarding
            inner = self.obj_getattr(ex, base, decl[2:], st, node)
            return self.getattr(ex, inner, attr, st, node)
        q = f"{decl}.{attr}"
        if tystr.startswith("method"):
            return pyv(FuncV("contract", q, recv=base))
        ty = parse_type(tystr)
        term = fn(q, Ref, ty.sort())(base.term)
        v = V(term, ty)
        c = self.contracts.get(q)
        if c is not None and st is not None:
            self.assume_contract(ex, c, {"self": base}, v, st)
        self.type_facts(ex, v, st)
        return v

    def type_facts(self, ex, v, st):
        """Facts that hold for every value of a type (lengths non-negative, abstract class => one of its subclasses)."""
        if st is None:
            return
        ty = v.ty.inner if isinstance(v.ty, OptT) else v.ty
        if is_ref(v.ty) and not isinstance(v.ty, (OptT, NoneT)):
            st.assume(v.term != NONE)
        if isinstance(ty, SeqT):
            st.assume(seq_len(v.term) >= 0)
            if is_ref(ty.elem) and not isinstance(ty.elem, OptT):
                key = ("seq-nonnull", v.term.sexpr())
                if key not in st.facts:
                    st.facts.add(key)
                    qi = z3.Int("si")
                    st.assume(_forall([qi], z3.Implies(z3.And(0 <= qi, qi < seq_len(v.term)), seq_at(v.term, qi, ty.elem) != NONE),
                                patterns=[seq_at(v.term, qi, ty.elem)]))
        elif isinstance(ty, MapT):
            self.map_facts(ex, v, st)
        elif isinstance(ty, ObjT):
            subs = self.subclasses(ty.name)
            if subs and self.classes[ty.name].get("_abstract"):
                key = ("abstract", ty.name, v.term.sexpr())
                if key not in st.facts:
                    st.facts.add(key)
                    preds = [self.isinstance_pred(s)(v.term) for s in subs]
                    st.assume(z3.Implies(v.term != NONE, z3.And(z3.Or(preds), z3.AtMost(*preds, 1))))

    def map_facts(self, ex, m, st):
        key = ("map", m.term.sexpr())
        if key in st.facts:
            return
        st.facts.add(key)
        ty = m.ty.inner if isinstance(m.ty, OptT) else m.ty
        ks, vs = map_keys(m.term), map_values(m.term)
        i, j = z3.Ints("mi mj")
        k = z3.Const("mk", ty.key.sort())
        at = lambda s, idx: seq_at(s, idx, ty.key)
        st.assume(seq_len(ks) >= 0)
        st.assume(seq_len(vs) == seq_len(ks))
        if is_ref(ty.val) and not isinstance(ty.val, OptT):
            st.assume(_forall([k], z3.Implies(map_has(m.term, k, ty.key), map_get(m.term, k, ty.key, ty.val) != NONE),
                                patterns=[map_get(m.term, k, ty.key, ty.val)]))
            st.assume(_forall([i], z3.Implies(z3.And(0 <= i, i < seq_len(vs)), seq_at(vs, i, ty.val) != NONE),
                                patterns=[seq_at(vs, i, ty.val)]))
        # keys are exactly the present keys, pairwise distinct; values()[i] == get(keys()[i])
        st.assume(_forall([i], z3.Implies(z3.And(0 <= i, i < seq_len(ks)),
                                            z3.And(map_has(m.term, at(ks, i), ty.key),
                                                   seq_at(vs, i, ty.val) == map_get(m.term, at(ks, i), ty.key, ty.val))),
                                patterns=[at(ks, i)]))
        st.assume(_forall([k], z3.Implies(map_has(m.term, k, ty.key),
                                            z3.Exists([i], z3.And(0 <= i, i < seq_len(ks), at(ks, i) == k))),
                                patterns=[map_has(m.term, k, ty.key)]))
        st.assume(z3.ForAll([i, j], z3.Implies(z3.And(0 <= i, i < j, j < seq_len(ks)), at(ks, i) != at(ks, j))))

    # ------------------------------------------------------------------ contracts
    def spec_executor(self, ex):
        sx = Executor(self)
        sx.fname = ex.fname
        sx.contract = None
        sx.spec_mode = True
        return sx

    def eval_spec(self, ex, expr, env, st, result=None, old=None):
        """Evaluate a contract-language expression to a z3 Bool in the given binding environment."""
        tree = ast.parse(expr.strip(), mode="eval").body
        s2 = State(st.pc if st is not None else [], env, facts=st.facts if st is not None else None)
        s2.ghost = dict(st.ghost) if st is not None else {}
        if result is not None:
            s2.env["result"] = result
        if old is not None:
            s2.ghost["old"] = old
        sx = self.spec_executor(ex)
        n0 = len(s2.pc)
        t = sx.ev_truth(tree, s2)
        # facts assumed while evaluating (contract instantiations) are carried back as assumptions
        extra = s2.pc[n0:]
        if st is not None:
            st.facts |= s2.facts
        return t, extra, sx.obligations

    def bind_params(self, ex, c, args):
        env = {}
        for name, tystr in list(c.params.items()) + list(getattr(c, "ghost", {}).items()):
            if name not in args:
                raise Unsupported(f"contract {c.qualname}: missing argument {name}")
            a = args[name]
            is_pytype = a.ty is PY and isinstance(a.py, tuple) and a.py and a.py[0] == "pytype"
            env[name] = ex.coerce(a, parse_type(tystr)) if (a.ty not in (PY, TUPLE) or is_pytype) else a
        return env

    def assume_contract(self, ex, c, args, result, st):
        """Assume the ensures of contract `c` instantiated at (args, result)."""
        key = ("contract", c.qualname, tuple(sorted((k, v.term.sexpr() if v.term is not None else repr(v.py)) for k, v in args.items())))
        if key in st.facts:
            return
        st.facts.add(key)
        env = self.bind_params(ex, c, args)
        for e in c.ensures:
            t, extra, _ = self.eval_spec(ex, e, env, st, result=result)
            for f in extra:
                st.assume(f)
            st.assume(t)

    def call_contract(self, ex, c, recv, args, kwargs, st, node):
        """Call by contract: check requires, fresh (or functional) result, assume ensures, record raises."""
        names = [p for p in c.params if p != "self"]
        bound = {}
        if "self" in c.params:
            if recv is None:
                raise Unsupported(f"unbound call of {c.qualname}")
            bound["self"] = recv
        for n, a in zip(names, args):
            bound[n] = a
        for k, v in kwargs.items():
            if k not in c.params:
                raise Unsupported(f"{c.qualname}: unexpected keyword {k}")
            bound[k] = v
        for g in getattr(c, "ghost", {}):
            if g in st.env:
                bound[g] = st.env[g]                      # ghost argument: the caller's ghost variable of the same name
            else:
                gty = parse_type(c.ghost[g])
                bound[g] = V(fresh("ghost." + g, gty.sort()), gty)
        names = [n for n in names if n not in getattr(c, "ghost", {})]
        defaults = getattr(c, "defaults", {})
        for n in names:
            if n not in bound:
                if n in defaults:
                    bound[n] = const(defaults[n])
                else:
                    raise Unsupported(f"{c.qualname}: missing argument {n}")
        env = self.bind_params(ex, c, bound)
        for i, r in enumerate(c.requires):
            t, extra, _ = self.eval_spec(ex, r, env, st)
            for f in extra:
                st.assume(f)
            ex.oblige(f"{ex.fname}:call {c.qualname}:requires[{i}]@L{getattr(node, 'lineno', '?')}", st, t, node)
        # `definitional` clauses (defining equations of spec functions at the callee's self) are assumed on entry of the callee's own
        # verification; a caller neither proves nor needs them
        for exc, cond in c.raises.items():
            t, extra, _ = self.eval_spec(ex, cond, env, st)
            for f in extra:
                st.assume(f)
            ex.pending_raises.append((z3.And(list(ex.guards) + [t]), exc, node))
        if c.result is None:
            result = const(None)
        else:
            rty = parse_type(c.result)
            if c.pure:
                argterms = [env[n].term for n in c.params if env[n].term is not None]
                f = fn("call." + c.qualname, *[a.sort() for a in argterms], rty.sort())
                result = V(f(*argterms) if argterms else z3.Const("call." + c.qualname, rty.sort()), rty)
            else:
                result = V(fresh("ret." + c.qualname, rty.sort()), rty)
            self.type_facts(ex, result, st)
        self.apply_effects(ex, c, env, result, st, node)
        for e in c.ensures:
            t, extra, _ = self.eval_spec(ex, e, env, st, result=result, old=getattr(st, "_old_env", None))
            for f in extra:
                st.assume(f)
            st.assume(t)
        return result

    def apply_effects(self, ex, c, env, result, st, node):
        """Frame: a parameter listed in `modifies` must be passed as a plain local name; that name is rebound to a fresh value
        which the ensures relate to `old_<param>`."""
        for name in c.modifies:
            arg = None
            if node is not None:
                for k in node.keywords:
                    if k.arg == name:
                        arg = k.value
                pos = [p for p in c.params if p != "self"]
                if arg is None and name in pos and pos.index(name) < len(node.args):
                    arg = node.args[pos.index(name)]
            if not isinstance(arg, ast.Name) or arg.id not in st.env:
                raise Unsupported(f"contract {c.qualname} modifies {name}: argument is not a local name")
            old = st.env[arg.id]
            new = V(fresh("mod." + name, old.ty.sort()), old.ty)
            st.env[arg.id] = new
            self.type_facts(ex, new, st)
            env["old_" + name] = env[name]
            env[name] = new

    # ------------------------------------------------------------------ calls
    def chainmap(self, ex, e, st):
        """collections.ChainMap(m1, ..., *seq_of_maps): lookups search the maps in order, the first one holding the key wins."""
        fixed, stars = [], []
        for a in e.args:
            if isinstance(a, ast.Starred):
                sv = ex.ev(a.value, st)
                if sv.ty is TUPLE:
                    (fixed if not stars else stars).extend(sv.py) if not stars else None
                    if stars:
                        raise Unsupported("ChainMap: tuple after a starred sequence")
                elif isinstance(sv.ty, SeqT) and isinstance(sv.ty.elem, MapT):
                    stars.append(sv)
                else:
                    raise Unsupported(f"ChainMap(*{sv!r})")
            else:
                if stars:
                    raise Unsupported("ChainMap: positional map after a starred sequence")
                fixed.append(ex.ev(a, st))
        tys = [m.ty for m in fixed if isinstance(m.ty, MapT)] + [s_.ty.elem for s_ in stars]
        if not tys:
            raise Unsupported("ChainMap of untyped maps")
        ty = tys[0]
        fixed = [self.empty_container(ex, ty, st) if (m.ty is PY and isinstance(m.py, tuple) and m.py and m.py[0] == "emptydict") else m for m in fixed]
        n = V(fresh("chainmap", Ref), ty)
        st.assume(n.term != NONE)
        k = z3.Const("cmk", ty.key.sort())
        j, i = z3.Int("cmj"), z3.Int("cmi")
        has_fixed = [map_has(m.term, k, ty.key) for m in fixed]
        star_has = lambda s_, idx: map_has(seq_at(s_.term, idx, ty), k, ty.key)
        in_star = [z3.Exists([j], z3.And(0 <= j, j < seq_len(s_.term), star_has(s_, j))) for s_ in stars]
        st.assume(z3.ForAll([k], map_has(n.term, k, ty.key) == z3.Or(has_fixed + in_star)))
        # values: first holder wins
        earlier = []
        for m, h in zip(fixed, has_fixed):
            st.assume(z3.ForAll([k], z3.Implies(z3.And(h, *[z3.Not(x) for x in earlier]),
                                                map_get(n.term, k, ty.key, ty.val) == map_get(m.term, k, ty.key, ty.val))))
            earlier.append(h)
        for si, s_ in enumerate(stars):
            prev = earlier + in_star[:si]
            first = z3.And(0 <= j, j < seq_len(s_.term), star_has(s_, j),
                           z3.ForAll([i], z3.Implies(z3.And(0 <= i, i < j), z3.Not(star_has(s_, i)))), *[z3.Not(x) for x in prev])
            st.assume(z3.ForAll([k, j], z3.Implies(first, map_get(n.term, k, ty.key, ty.val) ==
                                                   map_get(seq_at(s_.term, j, ty), k, ty.key, ty.val))))
            # least-number principle (a fact about the naturals the solver cannot derive): if some map of the sequence holds k, one of them is the first
            least = z3.And(0 <= j, j < seq_len(s_.term), star_has(s_, j), z3.ForAll([i], z3.Implies(z3.And(0 <= i, i < j), z3.Not(star_has(s_, i)))))
            st.assume(z3.ForAll([k], z3.Implies(in_star[si], z3.Exists([j], least))))
        st.assume(seq_len(map_keys(n.term)) >= 0)
        return n

    def call_node(self, ex, e, st):
        if ast.unparse(e.func) in ("collections.ChainMap", "ChainMap") and not e.keywords:
            return self.chainmap(ex, e, st)
        if isinstance(e.func, ast.Name) and e.func.id == "bool" and len(e.args) == 1 and not e.keywords and isinstance(e.args[0], ast.BoolOp) \
                and "bool" not in st.env:
            return V(ex.ev_truth(e.args[0], st), BOOL)       # bool(a and b ...): truth value of an and/or chain of mixed types
        if ast.unparse(e.func) in ("collections.defaultdict", "defaultdict") and len(e.args) == 1 and not e.keywords \
                and isinstance(e.args[0], ast.Name) and e.args[0].id in ("set", "list"):
            return pyv(("emptydict", e.args[0].id))        # typed by the contract's `locals` entry at the assignment; default factory remembered there
        if ast.unparse(e.func) in ("collections.OrderedDict", "OrderedDict") and not e.args and not e.keywords:
            return pyv(("emptydict",))                     # an empty insertion-ordered mapping (dict order is insertion order in the model anyway)
        if ast.unparse(e.func) in ("collections.OrderedDict", "OrderedDict", "dict") and len(e.args) == 1 and not e.keywords \
                and isinstance(e.args[0], (ast.ListComp, ast.GeneratorExp)) and isinstance(e.args[0].elt, ast.Tuple) and len(e.args[0].elt.elts) == 2 \
                and len(e.args[0].generators) == 1 and "dict" not in st.env:
            # OrderedDict([(k, v) for k, v in m.items() if c]) is the mapping {k: v for k, v in m.items() if c} (keys of a mapping are distinct, so no
            # later pair overwrites an earlier one); only the shapes dict_comprehension accepts are taken
            dc = ast.DictComp(key=e.args[0].elt.elts[0], value=e.args[0].elt.elts[1], generators=e.args[0].generators)
            ast.copy_location(dc, e)
            ast.fix_missing_locations(dc)
            r = self.dict_comprehension(ex, dc, st)
            if r is not None:
                return r
        r = self.defaultdict_update(ex, e, st)
        if r is not None:
            return r
        # method call syntax first, so that receivers are evaluated once
        if isinstance(e.func, ast.Attribute):
            recv = ex.ev(e.func.value, st)
            fv = ex.getattr(recv, e.func.attr, st, e.func)
        else:
            fv = ex.ev(e.func, st)
        args = []
        for a in e.args:
            if isinstance(a, ast.Starred):
                sv = ex.ev(a.value, st)
                if sv.ty is not TUPLE:
                    raise Unsupported("*args of a symbolic sequence")
                args.extend(sv.py)
            else:
                args.append(ex.ev(a, st))
        kwargs = {}
        for k in e.keywords:
            if k.arg is None:
                raise Unsupported("**kwargs")
            kwargs[k.arg] = ex.ev(k.value, st)
        return self.call(ex, fv, args, kwargs, st, e)

    def call(self, ex, fv, args, kwargs, st, node):
        if fv.ty is not PY:
            raise Unsupported(f"call of non-function {fv!r}")
        f = fv.py
        if isinstance(f, FuncV):
            if f.kind == "builtin":
                return BUILTINS[f.name](self, ex, args, kwargs, st, node)
            if f.kind == "method":
                return self.call_method(ex, f.recv, f.name, args, kwargs, st, node)
            if f.kind == "contract":
                return self.call_contract(ex, self.contracts[f.name], f.recv, args, kwargs, st, node)
            if f.kind == "spec":
                return self.call_spec(ex, f.name, args, st)
        if isinstance(f, tuple) and f and f[0] == "class":
            return self.construct(ex, f[1], args, kwargs, st, node)
        if isinstance(f, tuple) and f and f[0] == "excclass":
            return pyv(("exc", f[1]))
        if isinstance(f, tuple) and f and f[0] == "module" and f[1] == "dataclasses.replace":
            return self.dataclass_replace(ex, args[0], kwargs, st)
        if isinstance(f, tuple) and f and f[0] == "pytype":
            return BUILTINS[f[1]](self, ex, args, kwargs, st, node)
        if isinstance(f, tuple) and f and f[0] == "lambda":
            lam, env = f[1], f[2]
            s2 = st.fork()
            s2.env = dict(env)
            for p, a in zip(lam.args.args, args):
                s2.env[p.arg] = a
            r = ex.ev(lam.body, s2)
            st.pc = s2.pc
            st.facts = s2.facts
            return r
        raise Unsupported(f"call of {fv!r} at line {getattr(node, 'lineno', '?')}")

    def call_spec(self, ex, name, args, st):
        spec = self.specs[name]
        if callable(spec):
            return spec(ex, args, st)
        params, expr = spec
        env = dict(zip(params, args))
        tree = ast.parse(expr.strip(), mode="eval").body
        s2 = State(st.pc, env, facts=st.facts)
        s2.ghost = st.ghost
        sx = self.spec_executor(ex)
        n0 = len(s2.pc)
        r = sx.ev(tree, s2)
        for f in s2.pc[n0:]:
            st.assume(f)
        st.facts |= s2.facts
        return r

    def dataclass_replace(self, ex, obj, kwargs, st):
        """dataclasses.replace(obj, **changes): a fresh object of the same class, declared fields copied except the changed ones."""
        ty = obj.ty.inner if isinstance(obj.ty, OptT) else obj.ty
        d = self.classes.get(ty.name) if isinstance(ty, ObjT) else None
        if d is None or "_fields" not in d:
            raise Unsupported(f"dataclasses.replace on {obj!r} (no _fields in class table)")
        o = V(fresh("replaced." + ty.name, Ref), ty)
        st.assume(o.term != NONE)
        for f_ in d["_fields"]:
            found = self.find_attr(ty.name, f_)
            decl, tystr = found
            fty = parse_type(tystr)
            acc = fn(f"{decl}.{f_}", Ref, fty.sort())
            if f_ in kwargs:
                st.assume(acc(o.term) == ex.coerce(kwargs[f_], fty).term)
            else:
                st.assume(acc(o.term) == acc(obj.term))
        for k in kwargs:
            if k not in d["_fields"]:
                raise Unsupported(f"dataclasses.replace: {k} is not a declared field of {ty.name}")
        return o

    def construct(self, ex, cname, args, kwargs, st, node):
        """Constructor call of a frozen dataclass in the class table: fresh object with accessor equations."""
        d = self.classes.get(cname)
        if d is None:
            raise Unsupported(f"constructor of unknown class {cname}")
        fields = d.get("_fields")
        if fields is None:
            raise Unsupported(f"constructor of {cname} (no _fields in class table)")
        if d.get("_value_class") and not kwargs and len(args) == len(fields):
            # frozen dataclass compared by value: the constructor is a function of its field values
            tys = [parse_type(self.find_attr(cname, f_)[1]) for f_ in fields]
            cargs = [ex.coerce(a, t_) for a, t_ in zip(args, tys)]
            mk = fn("mk." + cname, *[t_.sort() for t_ in tys], Ref)
            key = "mkax." + cname
            if key not in self._boxed:
                self._boxed.add(key)
                xs = [z3.Const(f"mk{idx}", t_.sort()) for idx, t_ in enumerate(tys)]
                facts = [mk(*xs) != NONE]
                for f_, t_, x in zip(fields, tys, xs):
                    decl, _ = self.find_attr(cname, f_)
                    facts.append(fn(f"{decl}.{f_}", Ref, t_.sort())(mk(*xs)) == x)
                self.add_axiom(z3.ForAll(xs, z3.And(facts), patterns=[mk(*xs)]))
            return V(mk(*[c.term for c in cargs]), ObjT(cname))
        o = V(fresh("new." + cname, Ref), ObjT(cname))
        st.assume(o.term != NONE)
        bound = dict(zip(fields, args))
        bound.update(kwargs)
        for f_, dv in (d.get("_defaults") or {}).items():
            if f_ not in bound:
                bound[f_] = const(dv)
        for f_, v in bound.items():
            found = self.find_attr(cname, f_)
            if found is None:
                raise Unsupported(f"{cname}.{f_} not in class table")
            decl, tystr = found
            ty = parse_type(tystr)
            cv = ex.coerce(v, ty)
            st.assume(fn(f"{decl}.{f_}", Ref, ty.sort())(o.term) == cv.term)
        for sub in [cname] + [b for b in self.classes if self.is_subclass(cname, b) and b != cname]:
            st.assume(self.isinstance_pred(sub)(o.term))
        return o

    # ------------------------------------------------------------------ methods of built-in types
    def call_method(self, ex, recv, name, args, kwargs, st, node):
        ty = recv.ty
        if ty is STR:
            return self.str_method(ex, recv, name, args, kwargs, st, node)
        if isinstance(ty, MapT):
            return self.map_method(ex, recv, name, args, kwargs, st, node)
        if isinstance(ty, SeqT):
            return self.seq_method(ex, recv, name, args, kwargs, st, node)
        if isinstance(ty, SetT):
            return self.set_method(ex, recv, name, args, kwargs, st, node)
        raise Unsupported(f"method .{name} of {recv!r}")

    def str_method(self, ex, s, name, args, kwargs, st, node):
        t = s.term
        if name == "startswith" and len(args) == 1:
            a = args[0]
            if a.ty is TUPLE:
                return V(z3.Or([z3.PrefixOf(x.term, t) for x in a.py]), BOOL)
            return V(z3.PrefixOf(a.term, t), BOOL)
        if name == "endswith" and len(args) == 1:
            a = args[0]
            if a.ty is TUPLE:
                return V(z3.Or([z3.SuffixOf(x.term, t) for x in a.py]), BOOL)
            return V(z3.SuffixOf(a.term, t), BOOL)
        if name == "lower" and not args:
            return V(fn("str.lower", z3.StringSort(), z3.StringSort())(t), STR)
        if name == "upper" and not args:
            return V(fn("str.upper", z3.StringSort(), z3.StringSort())(t), STR)
        if name == "replace" and len(args) == 2 and all(a.ty is STR for a in args):
            return V(fn("str.replace_all_", z3.StringSort(), z3.StringSort(), z3.StringSort(), z3.StringSort())(t, args[0].term, args[1].term), STR)
        if name == "format":
            if not z3.is_string_value(t):
                raise Unsupported("str.format on a computed format string")
            import re as _re
            fmt = t.as_string()
            parts, pos, auto = [], 0, 0
            for mt in _re.finditer(r"\{(\w*)\}|\{\{|\}\}", fmt):
                if mt.start() > pos:
                    parts.append(z3.StringVal(fmt[pos:mt.start()]))
                tok = mt.group(0)
                if tok == "{{" or tok == "}}":
                    parts.append(z3.StringVal(tok[0]))
                else:
                    key = mt.group(1)
                    if key == "":
                        v = args[auto]
                        auto += 1
                    elif key.isdigit():
                        v = args[int(key)]
                    else:
                        if key not in kwargs:
                            raise Unsupported(f"str.format: missing key {key}")
                        v = kwargs[key]
                    parts.append(ex.to_str(v, st).term)
                pos = mt.end()
            if "{" in fmt[pos:] or "}" in fmt[pos:]:
                raise Unsupported("str.format: unsupported replacement field")
            if pos < len(fmt):
                parts.append(z3.StringVal(fmt[pos:]))
            if not parts:
                return const("")
            return V(z3.Concat(parts) if len(parts) > 1 else parts[0], STR)
        if name == "join" and len(args) == 1:
            a = args[0]
            if a.ty is TUPLE:
                parts = []
                for i, x in enumerate(a.py):
                    if i:
                        parts.append(t)
                    parts.append(ex.to_str(x, st).term if x.ty is not STR else x.term)
                if not parts:
                    return const("")
                return V(z3.Concat(parts) if len(parts) > 1 else parts[0], STR)
            if isinstance(a.ty, SeqT) and a.ty.elem is STR:
                self.need_join_ext()
                return V(fn("str.join", z3.StringSort(), Ref, z3.StringSort())(t, a.term), STR)
            if a.ty is PY and isinstance(a.py, tuple) and a.py and a.py[0] == "genexp":
                # sep.join(f(x) for x in seq): the mapped sequence is characterised pointwise
                _, gn, env = a.py
                if len(gn.generators) == 1 and not gn.generators[0].ifs:
                    comp = gn.generators[0]
                    s2 = st.fork()
                    s2.env = dict(env)
                    it = ex.ev(comp.iter, s2)
                    el = iter_elements(self, ex, it, s2)
                    if el[0] == "symbolic":
                        _, n, at = el
                        j = fresh("mj", z3.IntSort())
                        s3 = s2.fork()
                        ex.assign(comp.target, at(j), s3)
                        n0 = len(s3.pc)
                        val = ex.to_str(ex.ev(gn.elt, s3), s3)
                        q = V(fresh("mapseq", Ref), SeqT(STR))
                        for f in s2.pc[len(st.pc):]:
                            st.assume(f)
                        for f in s3.pc[n0:]:
                            st.assume(z3.ForAll([j], z3.Implies(z3.And(0 <= j, j < n), f)))
                        st.assume(q.term != NONE)
                        st.assume(seq_len(q.term) == n)
                        st.assume(z3.ForAll([j], z3.Implies(z3.And(0 <= j, j < n), seq_at(q.term, j, STR) == val.term)))
                        self.need_join_ext()
                        return V(fn("str.join", z3.StringSort(), Ref, z3.StringSort())(t, q.term), STR)
        if name == "join" and len(args) == 1 and args[0].ty is PY and isinstance(args[0].py, tuple) and args[0].py and args[0].py[0] == "genexp":
            # nested generators / filters: the joined text is left uninterpreted (sound over-approximation)
            return V(fresh("joined", z3.StringSort()), STR)
        if name == "split" and len(args) == 1 and args[0].ty is STR:
            r = V(fn("str.split", z3.StringSort(), z3.StringSort(), Ref)(t, args[0].term), SeqT(STR))
            st.assume(seq_len(r.term) >= 1)
            st.assume((seq_len(r.term) >= 2) == z3.Contains(t, args[0].term))       # one piece more than separators (non-empty separator)
            # the first piece: the text before the first separator
            first = seq_at(r.term, 0, STR)
            st.assume(z3.Implies(z3.Not(z3.Contains(t, args[0].term)), first == t))
            st.assume(z3.Implies(z3.And(z3.Contains(t, args[0].term), z3.Length(args[0].term) > 0),
                                 z3.And(z3.PrefixOf(z3.Concat(first, args[0].term), t), z3.Not(z3.Contains(first, args[0].term)))))
            return r
        if name == "split" and len(args) == 2 and args[0].ty is STR and args[1].ty is INT and z3.is_int_value(args[1].term):
            k = args[1].term.as_long()
            r = V(fn(f"str.split.max{k}", z3.StringSort(), z3.StringSort(), Ref)(t, args[0].term), SeqT(STR))
            st.assume(z3.And(seq_len(r.term) >= 1, seq_len(r.term) <= k + 1))
            st.assume((seq_len(r.term) >= 2) == z3.Contains(t, args[0].term))
            return r
        if name in ("strip", "rstrip", "lstrip"):
            f = fn("str." + name + str(len(args)), *([z3.StringSort()] * (len(args) + 1)), z3.StringSort())
            return V(f(t, *[a.term for a in args]), STR)
        if name == "isidentifier" and not args:
            return V(fn("str.isidentifier", z3.StringSort(), z3.BoolSort())(t), BOOL)
        raise Unsupported(f"str.{name}/{len(args)} at line {getattr(node, 'lineno', '?')}")

    def map_method(self, ex, m, name, args, kwargs, st, node):
        ty = m.ty
        if name == "get" and 1 <= len(args) <= 2:
            k = ex.coerce(args[0], ty.key)
            default = args[1] if len(args) == 2 else const(None)
            got = V(map_get(m.term, k.term, ty.key, ty.val), ty.val)
            a, b, rty = ex.unify(got, default)
            return V(z3.If(map_has(m.term, k.term, ty.key), a.term, b.term), rty)
        if name == "values" and not args:
            self.map_facts(ex, m, st)
            return V(map_values(m.term), SeqT(ty.val))
        if name == "keys" and not args:
            self.map_facts(ex, m, st)
            return V(map_keys(m.term), SeqT(ty.key))
        if name == "items" and not args:
            self.map_facts(ex, m, st)
            return pyv(("items", m))
        raise Unsupported(f"dict.{name}")

    def seq_method(self, ex, s, name, args, kwargs, st, node):
        if name == "append" and len(args) == 1 and isinstance(node.func.value, ast.Name):
            st.env[node.func.value.id] = self.seq_append(ex, s, ex.coerce(args[0], s.ty.elem), st)
            return const(None)
        if name == "pop" and not args and not kwargs and isinstance(node.func.value, ast.Name):
            # list.pop(): the last element; the list keeps the elements before it (IndexError on an empty list is a safety obligation)
            n0 = seq_len(s.term)
            ex.safety("pop from a non-empty list", st, n0 > 0, node, "IndexError")
            last = V(seq_at(s.term, n0 - 1, s.ty.elem), s.ty.elem)
            n = V(fresh("seq", Ref), s.ty)
            i = z3.Int("pi")
            st.assume(n.term != NONE)
            st.assume(seq_len(n.term) == n0 - 1)
            st.assume(z3.ForAll([i], z3.Implies(z3.And(0 <= i, i < n0 - 1), seq_at(n.term, i, s.ty.elem) == seq_at(s.term, i, s.ty.elem))))
            st.env[node.func.value.id] = n
            self.type_facts(ex, last, st)
            return last
        if name == "index" or name == "count":
            raise Unsupported("list." + name)
        raise Unsupported(f"list.{name}")

    def set_method(self, ex, s, name, args, kwargs, st, node):
        if name == "add" and len(args) == 1 and isinstance(node.func.value, ast.Name):
            st.env[node.func.value.id] = self.set_add(ex, s, ex.coerce(args[0], s.ty.elem), st)
            return const(None)
        if name == "update" and len(args) == 1 and isinstance(node.func.value, ast.Name):
            other = args[0]
            if other.ty is PY and isinstance(other.py, tuple) and other.py and other.py[0] == "genexp":
                _, gn, env = other.py
                s2 = st.fork()
                s2.env = dict(env)
                n0 = len(s2.pc)
                other = self.set_comprehension(ex, ast.SetComp(elt=gn.elt, generators=gn.generators), s2)
                if other is None:
                    raise Unsupported("set.update(<generator expression outside the modelled forms>)")
                for f in s2.pc[n0:]:
                    st.assume(f)
                st.facts |= s2.facts
            elif not isinstance(other.ty, SetT):
                other = _b_set(self, ex, [other], {}, st, node)
            if not isinstance(other.ty, SetT):
                raise Unsupported(f"set.update({other!r})")
            ety = s.ty.elem
            n = V(fresh("set", Ref), s.ty)
            y = z3.Const("sy", ety.sort())
            st.assume(n.term != NONE)
            st.assume(z3.ForAll([y], set_mem(n.term, y, ety) == z3.Or(set_mem(s.term, y, ety), set_mem(other.term, y, ety))))
            st.env[node.func.value.id] = n
            return const(None)
        raise Unsupported(f"set.{name}")

    def defaultdict_update(self, ex, e, st):
        """`d[k].add(v)` on a local created as collections.defaultdict(set): d := d[k -> (d[k] if k in d else {}) + {v}]."""
        f = e.func
        if not (isinstance(f, ast.Attribute) and f.attr == "add" and isinstance(f.value, ast.Subscript) and isinstance(f.value.value, ast.Name)
                and len(e.args) == 1 and not e.keywords):
            return None
        name = f.value.value.id
        if getattr(ex, "defaultdicts", {}).get(name) != "set" or name not in st.env:
            return None
        m = st.env[name]
        if not (isinstance(m.ty, MapT) and isinstance(m.ty.val, SetT)):
            return None
        k = ex.coerce(ex.ev(f.value.slice, st), m.ty.key)
        v = ex.coerce(ex.ev(e.args[0], st), m.ty.val.elem)
        ety = m.ty.val.elem
        cur = V(fresh("dd.cur", Ref), m.ty.val)
        y = z3.Const("sy", ety.sort())
        st.assume(cur.term != NONE)
        st.assume(z3.ForAll([y], set_mem(cur.term, y, ety) == z3.And(map_has(m.term, k.term, m.ty.key), set_mem(map_get(m.term, k.term, m.ty.key, m.ty.val), y, ety))))
        st.env[name] = self.map_store(ex, m, k, self.set_add(ex, cur, v, st), st)
        return const(None)

    # ------------------------------------------------------------------ functional container updates
    def seq_append(self, ex, s, x, st):
        n = V(fresh("seq", Ref), s.ty)
        i = z3.Int("ai")
        st.assume(n.term != NONE)
        st.assume(seq_len(n.term) == seq_len(s.term) + 1)
        st.assume(z3.ForAll([i], z3.Implies(z3.And(0 <= i, i < seq_len(s.term)),
                                            seq_at(n.term, i, s.ty.elem) == seq_at(s.term, i, s.ty.elem))))
        st.assume(seq_at(n.term, seq_len(s.term), s.ty.elem) == x.term)
        return n

    def set_add(self, ex, s, x, st):
        n = V(fresh("set", Ref), s.ty)
        y = z3.Const("sy", s.ty.elem.sort())
        st.assume(n.term != NONE)
        st.assume(z3.ForAll([y], set_mem(n.term, y, s.ty.elem) == z3.Or(set_mem(s.term, y, s.ty.elem), y == x.term)))
        return n

    def map_store(self, ex, m, k, v, st):
        n = V(fresh("map", Ref), m.ty)
        ty = m.ty
        y = z3.Const("my", ty.key.sort())
        st.assume(n.term != NONE)
        st.assume(z3.ForAll([y], map_has(n.term, y, ty.key) == z3.Or(map_has(m.term, y, ty.key), y == k.term)))
        st.assume(z3.ForAll([y], map_get(n.term, y, ty.key, ty.val) ==
                            z3.If(y == k.term, v.term, map_get(m.term, y, ty.key, ty.val))))
        st.assume(seq_len(map_keys(n.term)) > 0)
        st.assume(seq_len(map_keys(n.term)) == seq_len(map_values(n.term)))
        return n

    def make_list(self, ex, items, st):
        if not items:
            return pyv(("emptylist",))
        return tup(items)

    def make_dict(self, ex, pairs, st):
        if not pairs:
            return pyv(("emptydict",))
        return pyv(("dictlit", tuple(pairs)))

    def merge_maps(self, ex, maps, st):
        """{**m1, **m2, ...}: later maps win."""
        ty = next(m.ty for m in maps if isinstance(m.ty, MapT))
        cur = None
        for m in maps:
            if m.ty is PY and isinstance(m.py, tuple) and m.py and m.py[0] == "emptydict":
                m = self.empty_container(ex, ty, st)
            if cur is None:
                cur = m
                continue
            n = V(fresh("merged", Ref), ty)
            k = z3.Const("mgk", ty.key.sort())
            st.assume(n.term != NONE)
            st.assume(z3.ForAll([k], map_has(n.term, k, ty.key) == z3.Or(map_has(cur.term, k, ty.key), map_has(m.term, k, ty.key))))
            st.assume(z3.ForAll([k], map_get(n.term, k, ty.key, ty.val) == z3.If(map_has(m.term, k, ty.key), map_get(m.term, k, ty.key, ty.val),
                                                                                    map_get(cur.term, k, ty.key, ty.val))))
            cur = n
        return cur

    def empty_container(self, ex, ty, st):
        """A fresh empty list/dict/set of a declared type (the contract's `locals` table gives the type)."""
        v = V(fresh("empty", Ref), ty)
        st.assume(v.term != NONE)
        if isinstance(ty, SeqT):
            st.assume(seq_len(v.term) == 0)
        elif isinstance(ty, MapT):
            k = z3.Const("ek", ty.key.sort())
            st.assume(z3.ForAll([k], z3.Not(map_has(v.term, k, ty.key))))
            st.assume(seq_len(map_keys(v.term)) == 0)
            st.assume(seq_len(map_values(v.term)) == 0)
        elif isinstance(ty, SetT):
            x = z3.Const("ex", ty.elem.sort())
            st.assume(z3.ForAll([x], z3.Not(set_mem(v.term, x, ty.elem))))
        return v

    def opaque(self, ex, v, st):
        """Forget the structure of a python-side value: an unconstrained reference (sound over-approximation)."""
        if v.ty is TUPLE or v.ty is PY:
            o = V(fresh("opaque", Ref), ObjT("Opaque"))
            st.assume(o.term != NONE)
            return o
        return v

    def comprehension(self, ex, e, st, kind):
        """Comprehensions are over-approximated: the iterables are evaluated (for their exceptions), the result is an
        unconstrained fresh container.  Nothing about its contents can be proved from this."""
        if kind == "list" and len(e.generators) == 1:
            g = e.generators[0]
            it = ex.ev(g.iter, st)
            if it.ty is TUPLE:
                items = []
                for item in it.py:
                    s2 = st.fork()
                    ex.assign(g.target, item, s2)
                    cond = z3.And([ex.ev_truth(c, s2) for c in g.ifs] or [z3.BoolVal(True)])
                    items.append((cond, ex.ev(e.elt, s2)))
                return pyv(("filtered", tuple(items)))
            if not g.ifs and not getattr(ex, "spec_mode", False):
                try:
                    q = map_seq(self, ex, pyv(("genexp", e, dict(st.env))), st)
                except Unsupported:
                    q = None
                if q is not None:
                    return q
        if kind == "dict" and len(e.generators) == 1:
            r = self.dict_comprehension(ex, e, st)
            if r is not None:
                return r
        if kind == "set" and not getattr(ex, "spec_mode", False):
            r = self.set_comprehension(ex, e, st)
            if r is not None:
                return r
        for g in e.generators:
            ex.ev(g.iter, st)
        o = V(fresh(kind + "comp", Ref), ObjT("Opaque"))
        st.assume(o.term != NONE)
        return o

    def set_comprehension(self, ex, e, st):
        """{elt for x1 in it1 [if c1] for x2 in it2(x1) [if c2] ...} over symbolic iterables: membership of the result is characterised
        in both directions (every guarded element is a member; every member is such an element)."""
        from .smt import FRESH_LOG, lift_fresh
        mark = len(FRESH_LOG)
        s2 = st.fork()
        n0 = len(s2.pc)
        js, guards, marks = [], [], []          # marks: (length of the path condition, number of guards) after each guard was added
        saved = len(ex.guards)
        pr0 = len(ex.pending_raises)
        try:
            for g in e.generators:
                if getattr(g, "is_async", 0):
                    return None
                try:
                    el = iter_elements(self, ex, ex.ev(g.iter, s2), s2)
                except Unsupported:
                    return None
                if el[0] != "symbolic":
                    return None
                _, n, at = el
                j = fresh("cj", z3.IntSort())
                js.append(j)
                rng = z3.And(0 <= j, j < n)
                guards.append(rng)
                marks.append((len(s2.pc), len(guards)))
                ex.guards.append(rng)
                item = at(j)
                ex.assign(g.target, item, s2)
                if item.ty is not TUPLE:
                    self.type_facts(ex, item, s2)
                for c in g.ifs:
                    t = ex.ev_truth(c, s2)
                    guards.append(t)
                    marks.append((len(s2.pc), len(guards)))
                    ex.guards.append(t)
            val = ex.ev(e.elt, s2)
        finally:
            del ex.guards[saved:]
        if val.ty is TUPLE or val.ty is PY:
            return None
        ety = val.ty
        raw = list(s2.pc[n0:])
        lifted = lift_fresh(mark, js, raw + guards + [val.term])
        facts, lguards, vterm = lifted[:len(raw)], lifted[len(raw):-1], lifted[-1]
        if len(ex.pending_raises) > pr0:
            # a call that may raise inside the comprehension: the statement raises iff it does for SOME binding of the loop variables
            # (so the normal path knows it did for none)
            pend = ex.pending_raises[pr0:]
            conds = lift_fresh(mark, js, [c_ for (c_, _e, _n) in pend])
            ex.pending_raises[pr0:] = [(z3.Exists(js, c_), e_, n_) for c_, (_c, e_, n_) in zip(conds, pend)]
        guard = z3.And(lguards)
        st.facts |= s2.facts
        for idx, f in enumerate(facts):
            # a fact recorded while evaluating the i-th iterable / condition (a definition: call result, cardinality ...) holds under the
            # guards that were in force at that point - not only for the elements that also pass the later filters
            active = max([ng for (pci, ng) in marks if pci <= n0 + idx] or [0])
            pre = z3.And(lguards[:active]) if active else z3.BoolVal(True)
            st.assume(z3.ForAll(js, z3.Implies(pre, f)) if any(_mentions(f, j) for j in js) else f)
        res = V(fresh("setcomp", Ref), SetT(ety))
        x = z3.Const("sx", ety.sort())
        st.assume(res.term != NONE)
        st.assume(z3.ForAll(js, z3.Implies(guard, set_mem(res.term, vterm, ety))))
        st.assume(z3.ForAll([x], z3.Implies(set_mem(res.term, x, ety), z3.Exists(js, z3.And(guard, vterm == x)))))
        return res

    def dict_comprehension(self, ex, e, st):
        """{k: f(k, v) for k, v in m.items() if c(k, v)} over a symbolic map m: the result map is characterised pointwise."""
        g = e.generators[0]
        it = ex.ev(g.iter, st)
        if not (it.ty is PY and isinstance(it.py, tuple) and it.py and it.py[0] == "items"):
            return None
        m = it.py[1]
        mty = m.ty.inner if isinstance(m.ty, OptT) else m.ty
        if not (isinstance(g.target, ast.Tuple) and len(g.target.elts) == 2 and all(isinstance(x, ast.Name) for x in g.target.elts)):
            return None
        kname, vname = g.target.elts[0].id, g.target.elts[1].id
        if not (isinstance(e.key, ast.Name) and e.key.id == kname):
            return None
        kk = fresh("dk", mty.key.sort())
        from .smt import FRESH_LOG, lift_fresh
        mark = len(FRESH_LOG)
        s2 = st.fork()
        s2.env[kname] = V(kk, mty.key)
        s2.env[vname] = V(map_get(m.term, kk, mty.key, mty.val), mty.val)
        n0 = len(s2.pc)
        if is_ref(mty.val) and not isinstance(mty.val, OptT):
            pass
        present = map_has(m.term, kk, mty.key)
        self.map_facts(ex, m, s2)
        ex.guards.append(present)
        cond = z3.And([ex.ev_truth(c, s2) for c in g.ifs] or [z3.BoolVal(True)])
        ex.guards.append(cond)
        try:
            val = ex.ev(e.value, s2)
        finally:
            ex.guards.pop()
            ex.guards.pop()
        if val.ty is TUPLE or val.ty is PY:
            return None
        rty = MapT(mty.key, val.ty)
        n = V(fresh("dictcomp", Ref), rty)
        st.assume(n.term != NONE)
        # values created while evaluating the element expression (results of calls by contract ...) depend on the key
        lifted = lift_fresh(mark, [kk], list(s2.pc[n0:]) + [cond, val.term])
        facts, cond, vterm = lifted[:-2], lifted[-2], lifted[-1]
        for f in facts:
            st.assume(z3.ForAll([kk], z3.Implies(present, f)))
        st.facts |= s2.facts
        st.assume(z3.ForAll([kk], map_has(n.term, kk, rty.key) == z3.And(present, cond)))
        st.assume(z3.ForAll([kk], z3.Implies(z3.And(present, cond), map_get(n.term, kk, rty.key, rty.val) == vterm)))
        st.assume((seq_len(map_keys(n.term)) > 0) == z3.Exists([kk], z3.And(present, cond)))
        st.assume(seq_len(map_keys(n.term)) >= 0)
        return n

    # ------------------------------------------------------------------ loops
    def loop_key(self, ex, kind, node=None):
        # ordinal of the loop in order of first visit; another path reaching the same loop statement reuses its key
        memo = ex.__dict__.setdefault("loop_keys", {})
        if node is not None and id(node) in memo:
            return memo[id(node)]
        ex.loop_ordinal += 1
        key = f"{kind}#{ex.loop_ordinal}"
        if node is not None:
            memo[id(node)] = key
        return key

    def for_loop(self, ex, s, it, st):
        key = self.loop_key(ex, "for", s)
        if it.ty is TUPLE:
            return ex.unrolled_for(s, list(it.py), st)
        if it.ty is PY and isinstance(it.py, tuple) and it.py and it.py[0] == "items":
            m = it.py[1]
            seq = V(map_keys(m.term), SeqT(m.ty.key))
            elem = lambda k: tup([V(seq_at(seq.term, k, m.ty.key), m.ty.key),
                                  V(map_get(m.term, seq_at(seq.term, k, m.ty.key), m.ty.key, m.ty.val), m.ty.val)])
            return self.invariant_for(ex, s, key, seq, elem, st)
        if it.ty is PY and isinstance(it.py, tuple) and it.py and it.py[0] == "genexp":
            q = map_seq(self, ex, it, st)              # for x in (f(y) for y in seq): the mapped sequence, element by element
            if q is not None and isinstance(q.ty, SeqT):
                it = q
        if isinstance(it.ty, SeqT):
            elem = lambda k: V(seq_at(it.term, k, it.ty.elem), it.ty.elem)
            return self.invariant_for(ex, s, key, it, elem, st)
        if isinstance(it.ty, MapT):
            seq = V(map_keys(it.term), SeqT(it.ty.key))
            self.map_facts(ex, it, st)
            elem = lambda k: V(seq_at(seq.term, k, it.ty.key), it.ty.key)
            return self.invariant_for(ex, s, key, seq, elem, st)
        if ex.lenient and isinstance(it.ty, ObjT) and it.ty.name == "Opaque":
            sty = SeqT(ObjT("Opaque"))
            seq = V(it.term, sty)
            st.assume(seq_len(seq.term) >= 0)
            elem = lambda k: V(seq_at(seq.term, k, sty.elem), sty.elem)
            return self.invariant_for(ex, s, key, seq, elem, st)
        raise Unsupported(f"for over {it!r} at line {s.lineno}")

    def invariant_for(self, ex, s, key, seq, elem, st):
        """`for x in seq` with a sidecar invariant over the ghost index `_k` (number of completed iterations)."""
        c = ex.contract
        invs = (c.invariants.get(key) if c else None)
        if invs is None:
            raise Unsupported(f"loop {key} at line {s.lineno} has no invariant in the contract")
        n = seq_len(seq.term)
        outs = []

        ordinal = key.split("#")[1]

        def inv_holds(state, kterm, tag):
            state.env["_k"] = V(kterm, INT)
            state.env["_k" + ordinal] = V(kterm, INT)
            state.env["_n"] = V(n, INT)
            state.env["_seq"] = seq                      # ghost name of the iterated sequence (for iterables that are not a re-evaluable expression)
            state.env["_seq" + ordinal] = seq
            ts = []
            for i, e in enumerate(invs):
                t, extra, _ = self.eval_spec(ex, e, state.env, state)
                for f in extra:
                    state.assume(f)
                ts.append((i, t))
            return ts

        # 1. invariant holds on entry
        for i, t in inv_holds(st, z3.IntVal(0), "init"):
            ex.oblige(f"{ex.fname}:{key}:inv[{i}]:init", st, t, s)
        # 2. arbitrary iteration: havoc assigned variables, assume invariant at k
        mod = assigned_names(s.body) | {x.id for x in ast.walk(s.target) if isinstance(x, ast.Name)}
        body_st = st.fork()
        k = fresh("k", z3.IntSort())
        self.havoc(ex, body_st, mod, s)
        body_st.assume(z3.And(0 <= k, k < n))
        for i, t in inv_holds(body_st, k, "hyp"):
            body_st.assume(t)
        ex.assign(s.target, elem(k), body_st)
        self.type_facts(ex, elem(k), body_st) if elem(k).ty is not TUPLE else None
        for o in ex.run(s.body, body_st):
            if o.kind in ("fall", "continue"):
                for i, t in inv_holds(o.state, k + 1, "step"):
                    ex.oblige(f"{ex.fname}:{key}:inv[{i}]:step", o.state, t, s)
            elif o.kind == "break":
                o.state.env.pop("_k", None)
                outs.append(Outcome("fall", o.state))
            else:
                outs.append(o)
        # 3. after the loop: havoc, assume invariant at n
        exit_st = st.fork()
        self.havoc(ex, exit_st, mod, s)
        for i, t in inv_holds(exit_st, n, "exit"):
            exit_st.assume(t)
        exit_st.assume(n >= 0)
        outs.extend(ex.run(s.orelse, exit_st) if s.orelse else [Outcome("fall", exit_st)])
        return outs

    def havoc(self, ex, st, names, node):
        for name in names:
            if name in st.env:
                v = st.env[name]
                if v.ty is PY or v.ty is TUPLE:
                    if ex.lenient:
                        st.env[name] = V(fresh("havoc", Ref), ObjT("Opaque"))      # safety-only mode: the value is forgotten
                        continue
                    raise Unsupported(f"loop at line {node.lineno} modifies python-side value {name}")
                nv = V(fresh("hv." + name, v.ty.sort()), v.ty)
                st.env[name] = nv
                self.type_facts(ex, nv, st)

    def while_loop(self, ex, s, st):
        key = self.loop_key(ex, "while", s)
        c = ex.contract
        invs = (c.invariants.get(key) if c else None)
        if invs is None:
            raise Unsupported(f"loop {key} at line {s.lineno} has no invariant in the contract")
        outs = []

        def inv_terms(state):
            ts = []
            for i, e in enumerate(invs):
                t, extra, _ = self.eval_spec(ex, e, state.env, state)
                for f in extra:
                    state.assume(f)
                ts.append((i, t))
            return ts
        for i, t in inv_terms(st):
            ex.oblige(f"{ex.fname}:{key}:inv[{i}]:init", st, t, s)
        mod = assigned_names(s.body)
        head = st.fork()
        self.havoc_while(ex, head, mod, s)
        for i, t in inv_terms(head):
            head.assume(t)
        cond = ex.ev_truth(s.test, head)
        body_st = head.fork()
        body_st.assume(cond)
        if ex.feasible(body_st):
            for o in ex.run(s.body, body_st):
                if o.kind in ("fall", "continue"):
                    for i, t in inv_terms(o.state):
                        ex.oblige(f"{ex.fname}:{key}:inv[{i}]:step", o.state, t, s)
                elif o.kind == "break":
                    outs.append(Outcome("fall", o.state))
                else:
                    outs.append(o)
        exit_st = head.fork()
        exit_st.assume(z3.Not(cond))
        outs.append(Outcome("fall", exit_st))
        return outs

    def havoc_while(self, ex, st, names, node):
        self.havoc(ex, st, names, node)


# ---------------------------------------------------------------------- built-in functions
def _b_isinstance(model, ex, args, kwargs, st, node):
    v, c = args
    names = []
    for x in (c.py if c.ty is TUPLE else [c]):
        if x.ty is PY and isinstance(x.py, tuple) and x.py[0] in ("class", "pytype"):
            names.append(x.py)
        else:
            raise Unsupported("isinstance against a computed class")
    parts = []
    for kind, name in names:
        if kind == "class":
            parts.append(model.instance_of(v, name))
        else:
            want = {"str": STR, "int": INT, "bool": BOOL, "float": REAL}.get(name)
            if isinstance(v.ty, T._Prim):
                parts.append(z3.BoolVal(v.ty == want or (name == "int" and v.ty is BOOL)))
            elif isinstance(v.ty, OptT) and isinstance(v.ty.inner, T._Prim):
                parts.append(z3.And(v.term != NONE, z3.BoolVal(v.ty.inner == want)))
            else:
                r = model.isinstance_py(ex, v, name)
                parts.append(r)
    return V(z3.Or(parts) if len(parts) > 1 else parts[0], BOOL)


def _b_issubclass(model, ex, args, kwargs, st, node):
    """issubclass over the bare python types the schema uses (bool is a subclass of int)."""
    a, b = args
    if not (b.ty is PY and isinstance(b.py, tuple) and b.py[0] == "pytype"):
        raise Unsupported("issubclass against a computed class")
    sub = {"int": ["int", "bool"], "str": ["str"], "float": ["float"], "bool": ["bool"], "bytes": ["bytes"]}[b.py[1]]
    if a.ty is PY and isinstance(a.py, tuple) and a.py[0] == "pytype":
        return const(a.py[1] in sub)
    if is_ref(a.ty):
        return V(z3.Or([a.term == model.pytype_consts[n] for n in sub]), BOOL)
    raise Unsupported("issubclass of a non-type")


def _b_len(model, ex, args, kwargs, st, node):
    (v,) = args
    if v.ty is TUPLE:
        return const(len(v.py))
    if v.ty is PY and isinstance(v.py, tuple) and v.py and v.py[0] == "filterseq":
        _, lam, seq = v.py
        el = iter_elements(model, ex, seq, st)
        if el[0] != "symbolic":
            raise Unsupported("len(filter(...)) over a concrete iterable")
        _, n, at = el
        j = fresh("fj", z3.IntSort())
        t, facts = _lambda_body(model, ex, lam, st, [at(j)])
        rng = z3.And(0 <= j, j < n)
        for fct in facts:
            st.assume(z3.ForAll([j], z3.Implies(rng, fct)))
        cnt = fresh("count", z3.IntSort())
        st.assume(z3.And(cnt >= 0, cnt <= n, (cnt > 0) == z3.Exists([j], z3.And(rng, t))))
        return V(cnt, INT)
    if v.ty is PY and isinstance(v.py, tuple) and v.py and v.py[0] == "filtered":
        return V(z3.Sum([z3.If(c, 1, 0) for c, _ in v.py[1]]) if v.py[1] else z3.IntVal(0), INT)
    if v.ty is STR:
        return V(z3.Length(v.term), INT)
    if isinstance(v.ty, SeqT):
        return V(seq_len(v.term), INT)
    if isinstance(v.ty, MapT):
        model.map_facts(ex, v, st)
        return V(seq_len(map_keys(v.term)), INT)
    if isinstance(v.ty, SetT):
        # cardinality as far as comparisons with 0, 1 and 2 need it: >= 1 iff a member exists, >= 2 iff two members that are not equal exist
        ety = v.ty.elem
        card = fn("set.card", Ref, z3.IntSort())(v.term)
        a, b = z3.Const("ca", ety.sort()), z3.Const("cb", ety.sort())
        neq = z3.Not(ex.equal(V(a, ety), V(b, ety)))
        st.assume(card >= 0)
        st.assume((card >= 1) == z3.Exists([a], set_mem(v.term, a, ety)))
        st.assume((card >= 2) == z3.Exists([a, b], z3.And(set_mem(v.term, a, ety), set_mem(v.term, b, ety), neq)))
        return V(card, INT)
    if v.ty is PY and isinstance(v.py, (tuple, list, frozenset, set, dict, str)) and not (v.py and isinstance(v.py, tuple) and isinstance(v.py[0], str) and v.py[0] in ("items", "genexp")):
        return const(len(v.py))
    raise Unsupported(f"len of {v!r}")


def _b_bool(model, ex, args, kwargs, st, node):
    if not args:
        return const(False)
    return V(ex.truth(args[0]), BOOL)


def _b_str(model, ex, args, kwargs, st, node):
    if not args:
        return const("")
    return ex.to_str(args[0], st)


def _b_not_impl(name):
    def f(model, ex, args, kwargs, st, node):
        raise Unsupported(f"builtin {name}")
    return f


def _quant_over(model, ex, gen, st, combine):
    """any()/all() over a generator expression on a symbolic sequence or concrete tuple."""
    if not (gen.ty is PY and isinstance(gen.py, tuple) and gen.py[0] == "genexp"):
        if gen.ty is TUPLE:
            ts = [ex.truth(x) for x in gen.py]
            return V((z3.Or if combine == "any" else z3.And)(ts or [z3.BoolVal(combine == "all")]), BOOL)
        raise Unsupported(f"{combine}() over {gen!r}")
    _, node, env = gen.py
    if len(node.generators) != 1:
        return _quant_nested(model, ex, node, env, st, combine)
    comp = node.generators[0]
    s2 = st.fork()
    s2.env = dict(env)
    it = ex.ev(comp.iter, s2)
    elems = iter_elements(model, ex, it, s2)
    if elems[0] == "concrete":
        ts = []
        for item in elems[1]:
            s3 = s2.fork()
            ex.assign(comp.target, item, s3)
            conds = [ex.ev_truth(c, s3) for c in comp.ifs]
            body = ex.ev_truth(node.elt, s3)
            for f in s3.pc[len(s2.pc):]:
                st.assume(f)
            ts.append(z3.And(conds + [body]) if combine == "any" else z3.Implies(z3.And(conds) if conds else z3.BoolVal(True), body))
        return V((z3.Or if combine == "any" else z3.And)(ts or [z3.BoolVal(combine == "all")]), BOOL)
    _, n, at = elems
    j = fresh("j", z3.IntSort())
    s3 = s2.fork()
    ex.assign(comp.target, at(j), s3)
    n0 = len(s3.pc)
    conds = [ex.ev_truth(c, s3) for c in comp.ifs]
    body = ex.ev_truth(node.elt, s3)
    rng = z3.And(0 <= j, j < n)
    for f in s3.pc[n0:]:
        st.assume(z3.ForAll([j], z3.Implies(rng, f)))
    st.facts |= s3.facts
    if combine == "any":
        return V(z3.Exists([j], z3.And([rng] + conds + [body])), BOOL)
    return V(z3.ForAll([j], z3.Implies(z3.And([rng] + conds), body)), BOOL)


def _quant_nested(model, ex, node, env, st, combine):
    """any()/all() over `elt for x in xs [if c] for y in ys(x) [if d] ...` with symbolic iterables: one bound index per generator."""
    from .smt import FRESH_LOG, lift_fresh
    mark = len(FRESH_LOG)
    s2 = st.fork()
    s2.env = dict(env)
    n0 = len(s2.pc)
    js, guards = [], []
    for comp in node.generators:
        el = iter_elements(model, ex, ex.ev(comp.iter, s2), s2)
        if el[0] != "symbolic":
            raise Unsupported("nested generators over a concrete iterable")
        _, n, at = el
        j = fresh("qj", z3.IntSort())
        js.append(j)
        guards.append(z3.And(0 <= j, j < n))
        item = at(j)
        ex.assign(comp.target, item, s2)
        if item.ty is not TUPLE:
            model.type_facts(ex, item, s2)
        for c in comp.ifs:
            guards.append(ex.ev_truth(c, s2))
    body = ex.ev_truth(node.elt, s2)
    raw = list(s2.pc[n0:])
    lifted = lift_fresh(mark, js, raw + guards + [body])
    facts, lguards, lbody = lifted[:len(raw)], lifted[len(raw):-1], lifted[-1]
    rng = z3.And([g for g in lguards])
    for f in facts:
        st.assume(z3.ForAll(js, z3.Implies(z3.And([g for g in lguards if g.decl().kind() == z3.Z3_OP_AND and g.num_args() == 2] or [z3.BoolVal(True)]), f))
                  if any(_mentions(f, j) for j in js) else f)
    st.facts |= s2.facts
    if combine == "any":
        return V(z3.Exists(js, z3.And(rng, lbody)), BOOL)
    return V(z3.ForAll(js, z3.Implies(rng, lbody)), BOOL)


def iter_elements(model, ex, it, st):
    """-> ('concrete', [V...]) or ('symbolic', length term, index -> V)."""
    if it.ty is TUPLE:
        return ("concrete", list(it.py))
    if it.ty is PY and isinstance(it.py, (frozenset, set, list)) :
        return ("concrete", [const(x) for x in sorted(it.py)])
    if it.ty is PY and isinstance(it.py, tuple) and it.py and it.py[0] == "items":
        m = it.py[1]
        ks = map_keys(m.term)
        return ("symbolic", seq_len(ks), lambda j: tup([V(seq_at(ks, j, m.ty.key), m.ty.key),
                                                        V(map_get(m.term, seq_at(ks, j, m.ty.key), m.ty.key, m.ty.val), m.ty.val)]))
    if isinstance(it.ty, SeqT):
        return ("symbolic", seq_len(it.term), lambda j: V(seq_at(it.term, j, it.ty.elem), it.ty.elem))
    if isinstance(it.ty, MapT):
        model.map_facts(ex, it, st)
        ks = map_keys(it.term)
        return ("symbolic", seq_len(ks), lambda j: V(seq_at(ks, j, it.ty.key), it.ty.key))
    ty_ = it.ty.inner if isinstance(it.ty, OptT) else it.ty
    if isinstance(ty_, ObjT) and ty_.name == "Json" and hasattr(model, "json_seq"):
        q = model.json_seq(ex, V(it.term, ty_), st)
        return ("symbolic", seq_len(q.term), lambda j: V(seq_at(q.term, j, q.ty.elem), q.ty.elem))
    raise Unsupported(f"iteration over {it!r}")


def _b_any(model, ex, args, kwargs, st, node):
    return _quant_over(model, ex, args[0], st, "any")


def _b_all(model, ex, args, kwargs, st, node):
    return _quant_over(model, ex, args[0], st, "all")


def _b_next(model, ex, args, kwargs, st, node):
    """next((elt for x in it if cond), default): first element satisfying cond, else default."""
    gen = args[0]
    if not (gen.ty is PY and isinstance(gen.py, tuple) and gen.py[0] == "genexp"):
        raise Unsupported("next() of a non-generator-expression")
    _, g, env = gen.py
    if len(g.generators) != 1:
        raise Unsupported("nested generators")
    comp = g.generators[0]
    s2 = st.fork()
    s2.env = dict(env)
    it = ex.ev(comp.iter, s2)
    elems = iter_elements(model, ex, it, s2)
    default = args[1] if len(args) > 1 else None
    if elems[0] == "concrete":
        res = default
        for item in reversed(elems[1]):
            s3 = s2.fork()
            ex.assign(comp.target, item, s3)
            cond = z3.And([ex.ev_truth(c, s3) for c in comp.ifs] or [z3.BoolVal(True)])
            val = ex.ev(g.elt, s3)
            for f in s3.pc[len(s2.pc):]:
                st.assume(f)
            if res is None:
                raise Unsupported("next() without default over a concrete tuple")
            a, b, ty = ex.unify(val, res)
            res = V(z3.If(cond, a.term, b.term), ty)
        return res
    _, n, at = elems
    j = fresh("j", z3.IntSort())
    kk = fresh("first", z3.IntSort())

    def cond_at(idx):
        s3 = s2.fork()
        ex.assign(comp.target, at(idx), s3)
        n0 = len(s3.pc)
        c = z3.And([ex.ev_truth(cc, s3) for cc in comp.ifs] or [z3.BoolVal(True)])
        val = ex.ev(g.elt, s3)
        return c, val, s3.pc[n0:]
    cj, _, fj = cond_at(j)
    rng = z3.And(0 <= j, j < n)
    for f in fj:
        st.assume(z3.ForAll([j], z3.Implies(rng, f)))
    ck, vk, fk = cond_at(kk)
    exists = z3.Exists([j], z3.And(rng, cj))
    if default is None:
        ex.safety("next() finds an element", st, exists, node, "StopIteration")
        default = vk
    a, b, ty = ex.unify(vk, default)
    res = V(fresh("next", ty.sort()), ty)
    found = z3.And(0 <= kk, kk < n, ck, z3.ForAll([j], z3.Implies(z3.And(0 <= j, j < kk), z3.Not(cj))), res.term == a.term)
    for f in fk:
        st.assume(z3.Implies(z3.And(0 <= kk, kk < n), f))
    st.assume(z3.If(exists, found, res.term == b.term))
    return res


def map_seq(model, ex, gen, st):
    """(f(x) for x in seq) over a symbolic sequence, without filters -> a fresh Seq characterised pointwise (or None)."""
    _, gn, env = gen.py
    if len(gn.generators) != 1 or gn.generators[0].ifs:
        return None
    comp = gn.generators[0]
    s2 = st.fork()
    s2.env = dict(env)
    it = ex.ev(comp.iter, s2)
    el = iter_elements(model, ex, it, s2)
    if el[0] != "symbolic":
        return None
    _, n, at = el
    j = fresh("mj", z3.IntSort())
    from .smt import FRESH_LOG, lift_fresh
    mark = len(FRESH_LOG)
    s3 = s2.fork()
    ex.assign(comp.target, at(j), s3)
    n0 = len(s3.pc)
    val = ex.ev(gn.elt, s3)
    if val.ty is TUPLE or val.ty is PY:
        return None
    lifted = lift_fresh(mark, [j], list(s3.pc[n0:]) + [val.term])      # call results etc. created per element depend on the index
    facts, vterm = lifted[:-1], lifted[-1]
    q = V(fresh("mapseq", Ref), SeqT(val.ty))
    for f in s2.pc[len(st.pc):]:
        st.assume(f)
    for f in facts:
        st.assume(z3.ForAll([j], z3.Implies(z3.And(0 <= j, j < n), f)))
    st.assume(q.term != NONE)
    st.assume(seq_len(q.term) == n)
    st.assume(n >= 0)
    st.assume(z3.ForAll([j], z3.Implies(z3.And(0 <= j, j < n), seq_at(q.term, j, val.ty) == vterm)))
    return q


def _b_tuple(model, ex, args, kwargs, st, node):
    if not args:
        return tup([])
    (a,) = args
    if a.ty is TUPLE or isinstance(a.ty, SeqT):
        return a
    if isinstance(a.ty, SetT):
        # tuple(set): a sequence with exactly the members of the set, each once; the order (hash order) is not modelled
        ety = a.ty.elem
        res = V(fresh("tupleofset", Ref), SeqT(ety))
        x = z3.Const("tx", ety.sort())
        i, j = fresh("ti", z3.IntSort()), fresh("tj", z3.IntSort())
        st.assume(res.term != NONE)
        st.assume(seq_len(res.term) >= 0)
        st.assume(z3.ForAll([x], set_mem(a.term, x, ety) == z3.Exists([i], z3.And(0 <= i, i < seq_len(res.term), seq_at(res.term, i, ety) == x))))
        st.assume(z3.ForAll([i, j], z3.Implies(z3.And(0 <= i, i < j, j < seq_len(res.term)), seq_at(res.term, i, ety) != seq_at(res.term, j, ety))))
        return res
    if a.ty is PY and isinstance(a.py, tuple) and a.py and a.py[0] == "genexp":
        q = map_seq(model, ex, a, st)
        if q is not None:
            return q
    return model.materialise(ex, a, st, node, "tuple")


def _b_getattr(model, ex, args, kwargs, st, node):
    if len(args) >= 2 and args[1].ty is STR and z3.is_string_value(args[1].term):
        return ex.getattr(args[0], args[1].term.as_string(), st, node)
    if len(args) == 2 and args[0].ty is PY and isinstance(args[0].py, Native):
        nm = getattr(args[0].py.obj, "__name__", type(args[0].py.obj).__name__)
        key = args[1] if args[1].ty is STR else None
        if key is None and hasattr(model, "json_seq"):
            key = V(fn("json.unstr", Ref, z3.StringSort())(args[1].term), STR)
        if key is not None:
            return V(fn("native.getattr." + nm, z3.StringSort(), Ref)(key.term), ObjT("Opaque"))
    if len(args) == 2 and isinstance(args[1].ty, OptT) and args[1].ty.inner is STR:
        ex.safety("attribute name is a string", st, args[1].term != NONE, node, "TypeError")
        args = [args[0], ex.coerce(args[1], STR)]
    if len(args) == 2 and args[1].ty is STR and isinstance(args[0].ty, ObjT) and args[0].ty.name in model.classes:
        # getattr(obj, <symbolic name>): a case split over the declared string-typed attributes of the class (closed world); a name
        # outside them is an AttributeError obligation
        cname = args[0].ty.name
        names = [a for a, t in model.classes[cname].items() if not a.startswith("_") and t == "Str"]
        if names:
            ex.safety("attribute exists", st, z3.Or([args[1].term == z3.StringVal(a) for a in names]), node, "AttributeError")
            cur = None
            for a in reversed(names):
                v = ex.getattr(args[0], a, st, node)
                cur = v.term if cur is None else z3.If(args[1].term == z3.StringVal(a), v.term, cur)
            return V(cur, STR)
    raise Unsupported("getattr with a computed name")


def _b_cast(model, ex, args, kwargs, st, node):
    return args[1]


def _b_set(model, ex, args, kwargs, st, node):
    if not args:
        return pyv(("emptyset",))
    g = args[0]
    if g.ty is PY and isinstance(g.py, tuple) and g.py and g.py[0] == "genexp":
        # {elt(x) for x in it}: membership characterised pointwise
        _, gn, env = g.py
        if len(gn.generators) != 1 or gn.generators[0].ifs:
            # filters / nested loops: the same value as the set comprehension {elt for ... if ...}, evaluated in the environment the genexp captured
            s2 = st.fork()
            s2.env = dict(env)
            n0 = len(s2.pc)
            sc = ast.SetComp(elt=gn.elt, generators=gn.generators)
            ast.copy_location(sc, gn)
            r = model.set_comprehension(ex, sc, s2)
            if r is None:
                raise Unsupported("set(genexp) with filters / nested loops outside the modelled forms")
            for f in s2.pc[n0:]:
                st.assume(f)
            st.facts |= s2.facts
            return r
        comp = gn.generators[0]
        s2 = st.fork()
        s2.env = dict(env)
        it = ex.ev(comp.iter, s2)
        kind, n, at = iter_elements(model, ex, it, s2)[:3] if iter_elements(model, ex, it, s2)[0] == "symbolic" else (None, None, None)
        if kind is None:
            raise Unsupported("set(genexp) over a concrete iterable")
        j = fresh("sj", z3.IntSort())
        from .smt import FRESH_LOG, lift_fresh
        mark = len(FRESH_LOG)
        s3 = s2.fork()
        ex.assign(comp.target, at(j), s3)
        n0 = len(s3.pc)
        val = ex.ev(gn.elt, s3)
        ety = val.ty
        lifted = lift_fresh(mark, [j], list(s3.pc[n0:]) + [val.term])
        facts, vterm = lifted[:-1], lifted[-1]
        res = V(fresh("setcomp", Ref), SetT(ety))
        x = z3.Const("sx", ety.sort())
        for f in facts:
            st.assume(z3.ForAll([j], z3.Implies(z3.And(0 <= j, j < n), f)))
        for f in s2.pc[len(st.pc):]:
            st.assume(f)
        st.assume(res.term != NONE)
        st.assume(z3.ForAll([x], set_mem(res.term, x, ety) == z3.Exists([j], z3.And(0 <= j, j < n, vterm == x))))
        return res
    if isinstance(g.ty, SeqT) or isinstance(g.ty, MapT) or isinstance(g.ty, SetT):
        # set(seq) / set(mapping) (its keys) / set(set): membership characterised pointwise
        ety = g.ty.elem if isinstance(g.ty, (SeqT, SetT)) else g.ty.key
        res = V(fresh("setof", Ref), SetT(ety))
        x = z3.Const("sx", ety.sort())
        j = fresh("sj", z3.IntSort())
        st.assume(res.term != NONE)
        if isinstance(g.ty, SeqT) and z3.is_app(g.term) and g.term.decl().name() == "map.keys" and g.term.num_args() == 1:
            # set(m.keys()): membership is key presence (no detour through the key sequence)
            st.assume(z3.ForAll([x], set_mem(res.term, x, ety) == map_has(g.term.arg(0), x, ety)))
        elif isinstance(g.ty, SeqT):
            st.assume(z3.ForAll([x], set_mem(res.term, x, ety) == z3.Exists([j], z3.And(0 <= j, j < seq_len(g.term), seq_at(g.term, j, ety) == x))))
        elif isinstance(g.ty, MapT):
            st.assume(z3.ForAll([x], set_mem(res.term, x, ety) == map_has(g.term, x, ety)))
        else:
            st.assume(z3.ForAll([x], set_mem(res.term, x, ety) == set_mem(g.term, x, ety)))
        return res
    raise Unsupported("set(iterable)")


def _mentions(term, c):
    seen, todo = set(), [term]
    cid = c.get_id()
    while todo:
        t = todo.pop()
        if t.get_id() in seen:
            continue
        seen.add(t.get_id())
        if t.get_id() == cid:
            return True
        if z3.is_quantifier(t):
            todo.append(t.body())
        else:
            todo.extend(t.children())
    return False


def _b_sorted(model, ex, args, kwargs, st, node):
    """sorted(set | seq) without key: a sequence with exactly the same members (the order itself is not modelled)."""
    if len(args) != 1 or kwargs:
        raise Unsupported("sorted(...) with key/reverse")
    g = args[0]
    if not isinstance(g.ty, (SetT, SeqT)):
        raise Unsupported(f"sorted({g!r})")
    ety = g.ty.elem
    res = V(fresh("sorted", Ref), SeqT(ety))
    x = z3.Const("sx", ety.sort())
    i = fresh("si", z3.IntSort())
    st.assume(res.term != NONE)
    st.assume(seq_len(res.term) >= 0)
    inres = z3.Exists([i], z3.And(0 <= i, i < seq_len(res.term), seq_at(res.term, i, ety) == x))
    if isinstance(g.ty, SetT):
        st.assume(z3.ForAll([x], set_mem(g.term, x, ety) == inres))
    else:
        j = fresh("sj", z3.IntSort())
        st.assume(seq_len(res.term) == seq_len(g.term))
        st.assume(z3.ForAll([x], z3.Exists([j], z3.And(0 <= j, j < seq_len(g.term), seq_at(g.term, j, ety) == x)) == inres))
    return res


def _b_dict(model, ex, args, kwargs, st, node):
    if not args and not kwargs:
        return pyv(("emptydict",))
    raise Unsupported("dict(...)")


def _b_filter(model, ex, args, kwargs, st, node):
    lam, seq = args
    if not (lam.ty is PY and isinstance(lam.py, tuple) and lam.py[0] == "lambda"):
        raise Unsupported("filter() needs a lambda")
    return pyv(("filterseq", lam, seq))


def _b_list(model, ex, args, kwargs, st, node):
    if not args:
        return pyv(("emptylist",))
    if args[0].ty is PY and isinstance(args[0].py, tuple) and args[0].py and args[0].py[0] == "filterseq":
        return args[0]
    if args[0].ty is TUPLE or isinstance(args[0].ty, SeqT):
        return args[0]
    raise Unsupported("list(iterable)")


def _b_iter(model, ex, args, kwargs, st, node):
    """iter(seq) is modelled as the sequence itself: exact when the iterator object is consumed by one complete `for` statement (no break, no
    sharing between two loops) - recorded as an assumption of the run."""
    if len(args) != 1 or kwargs or not isinstance(args[0].ty, SeqT):
        raise Unsupported("iter(...) of a non-sequence")
    note = "iter(s) is read as s itself (each iterator is consumed by exactly one complete for statement)"
    if note not in model.assumptions:
        model.assumptions.append(note)
    return args[0]


BUILTINS = {
    "iter": _b_iter,
    "isinstance": _b_isinstance, "len": _b_len, "bool": _b_bool, "str": _b_str, "any": _b_any, "all": _b_all,
    "next": _b_next, "tuple": _b_tuple, "getattr": _b_getattr, "cast": _b_cast, "issubclass": _b_issubclass,
    "set": _b_set, "frozenset": _b_set, "sorted": _b_sorted, "dict": _b_dict, "list": _b_list, "filter": _b_filter,
}


def _model_isinstance_py(self, ex, v, name):
    raise Unsupported(f"isinstance(_, {name}) on {v!r}")


def _model_materialise(self, ex, a, st, node, kind):
    raise Unsupported(f"{kind}() of {a!r} at line {getattr(node, 'lineno', '?')}")


Model.isinstance_py = _model_isinstance_py
Model.materialise = _model_materialise


# ---------------------------------------------------------------------- contract-language built-ins
def _lambda_body(model, ex, lam, st, bound):
    """Evaluate a lambda's body with parameters bound to `bound`; returns (z3 Bool, facts assumed during evaluation)."""
    if not (lam.ty is PY and isinstance(lam.py, tuple) and lam.py[0] == "lambda"):
        raise Unsupported("quantifier needs a lambda")
    _, node, env = lam.py
    s2 = st.fork()
    s2.env = dict(env)
    for p, a in zip(node.args.args, bound):
        s2.env[p.arg] = a
    n0 = len(s2.pc)
    t = ex.ev_truth(node.body, s2)
    st.facts |= s2.facts
    return t, s2.pc[n0:]


def _b_quant(kind):
    def f(model, ex, args, kwargs, st, node):
        lam = args[0]
        j = fresh("q", z3.IntSort())
        if len(args) == 3:
            lo, hi = args[1].term, args[2].term
            rng = z3.And(lo <= j, j < hi)
            t, facts = _lambda_body(model, ex, lam, st, [V(j, INT)])
        elif len(args) == 2 and args[1].ty is PY and args[1].py == ("pytype", "str"):      # forall(lambda s: ..., str)
            sv = fresh("qs", z3.StringSort())
            t, facts = _lambda_body(model, ex, lam, st, [V(sv, STR)])
            for fct in facts:
                st.assume(z3.ForAll([sv], fct))
            return V(z3.ForAll([sv], t) if kind == "forall" else z3.Exists([sv], t), BOOL)
        elif len(args) == 2 and args[1].ty is PY and isinstance(args[1].py, tuple) and args[1].py and args[1].py[0] == "class":
            ov = fresh("qo", Ref)                                      # forall(lambda x: ..., ClassName): all references
            t, facts = _lambda_body(model, ex, lam, st, [V(ov, ObjT(args[1].py[1]))])
            for fct in facts:
                st.assume(z3.ForAll([ov], fct))
            return V(z3.ForAll([ov], t) if kind == "forall" else z3.Exists([ov], t), BOOL)
        elif len(args) == 2 and isinstance(args[1].ty, ObjT) and args[1].ty.name == "Json" and hasattr(model, "json_seq"):
            seq = model.json_seq(ex, args[1], st)
            rng = z3.And(0 <= j, j < seq_len(seq.term))
            t, facts = _lambda_body(model, ex, lam, st, [V(seq_at(seq.term, j, seq.ty.elem), seq.ty.elem)])
        elif len(args) == 2 and isinstance(args[1].ty, SeqT):          # forall(lambda x: ..., seq)
            seq = args[1]
            rng = z3.And(0 <= j, j < seq_len(seq.term))
            t, facts = _lambda_body(model, ex, lam, st, [V(seq_at(seq.term, j, seq.ty.elem), seq.ty.elem)])
        else:
            raise Unsupported(f"{kind}: expected (lambda, lo, hi) or (lambda, seq)")
        for fct in facts:
            st.assume(z3.ForAll([j], z3.Implies(rng, fct)))
        if kind == "forall":
            return V(z3.ForAll([j], z3.Implies(rng, t)), BOOL)
        return V(z3.Exists([j], z3.And(rng, t)), BOOL)
    return f


def _b_implies(model, ex, args, kwargs, st, node):
    raise Unsupported("implies() must be evaluated lazily")   # handled in call_node (guards)


BUILTINS.update({"forall": _b_quant("forall"), "exists": _b_quant("exists")})


class Native:
    """A real Python object from an installed dependency or the stdlib (module, class, enum wrapper, constant):
    attribute reads and calls with concrete arguments are evaluated natively ('table' facts read from the environment)."""

    def __init__(self, obj):
        self.obj = obj

    def __repr__(self):
        return f"Native({getattr(self.obj, '__name__', type(self.obj).__name__)})"


def native_to_v(x):
    if x is None or isinstance(x, (bool, int, float, str)):
        return const(x)
    if isinstance(x, tuple) and all(isinstance(e, (bool, int, float, str, type(None))) for e in x):
        return const(x)
    if isinstance(x, (frozenset, set)) and all(isinstance(e, (str, int)) for e in x):
        return pyv(frozenset(x))
    if isinstance(x, list) and all(isinstance(e, (str, int)) for e in x):
        return const(tuple(x))
    return pyv(Native(x))


def v_to_native(v):
    if v.ty is PY:
        if isinstance(v.py, Native):
            return v.py.obj
        if isinstance(v.py, frozenset):
            return v.py
        raise ValueError
    if v.ty is TUPLE:
        return tuple(v_to_native(e) for e in v.py)
    if v.ty is NONE_T:
        return None
    t = v.term
    if v.ty is STR and z3.is_string_value(t):
        return t.as_string()
    if v.ty is INT and z3.is_int_value(t):
        return t.as_long()
    if v.ty is BOOL and (z3.is_true(t) or z3.is_false(t)):
        return z3.is_true(t)
    raise ValueError


_orig_py_getattr = Model.py_getattr


def _py_getattr(self, ex, base, attr, st, node):
    if isinstance(base.py, Native):
        try:
            return native_to_v(getattr(base.py.obj, attr))
        except AttributeError:
            return None
    return _orig_py_getattr(self, ex, base, attr, st, node)


Model.py_getattr = _py_getattr
_orig_call = Model.call


def _call(self, ex, fv, args, kwargs, st, node):
    if fv.ty is PY and isinstance(fv.py, Native):
        try:
            a = [v_to_native(x) for x in args]
            k = {n: v_to_native(x) for n, x in kwargs.items()}
        except ValueError:
            r = self.native_symbolic_call(ex, fv.py.obj, args, kwargs, st, node)
            if r is not None:
                return r
            raise Unsupported(f"native call {fv.py!r} with symbolic arguments at line {getattr(node, 'lineno', '?')}")
        return native_to_v(fv.py.obj(*a, **k))
    return _orig_call(self, ex, fv, args, kwargs, st, node)


def _native_symbolic_call(self, ex, f, args, kwargs, st, node):
    """A dependency function called with symbolic arguments: result unconstrained if the model lists it as pure."""
    import re as _re
    if isinstance(getattr(f, "__self__", None), _re.Pattern) and f.__name__ == "findall" and len(args) == 1 and args[0].ty is STR:
        pat = f.__self__
        if pat.groups <= 1:
            return V(fn("re.findall:" + pat.pattern, z3.StringSort(), Ref)(args[0].term), SeqT(STR))
    name = getattr(f, "__module__", "") + "." + getattr(f, "__qualname__", getattr(f, "__name__", "?"))
    rty = self.opaque_natives.get(name) if hasattr(self, "opaque_natives") else None
    if rty is None:
        return None
    ty = parse_type(rty)
    terms = [a for a in args if a.term is not None]
    if len(terms) != len(args) or kwargs:
        return V(fresh("native", ty.sort()), ty)
    return V(fn("native." + name, *[a.ty.sort() for a in terms], ty.sort())(*[a.term for a in terms]), ty)


Model.call = _call
Model.native_symbolic_call = _native_symbolic_call
_orig_call_node = Model.call_node


def _call_node(self, ex, e, st):
    # implies(a, b) / iff(a, b): contract-language connectives, evaluated with guards
    if isinstance(e.func, ast.Name) and e.func.id in ("implies", "iff") and e.func.id not in st.env:
        a = ex.ev_truth(e.args[0], st)
        if e.func.id == "implies":
            if z3.is_false(z3.simplify(a)):
                return V(z3.BoolVal(True), BOOL)       # vacuous: the consequent need not even be well-typed on this path
            ex.guards.append(a)
            b = ex.ev_truth(e.args[1], st)
            ex.guards.pop()
            return V(z3.Implies(a, b), BOOL)
        b = ex.ev_truth(e.args[1], st)
        return V(a == b, BOOL)
    if isinstance(e.func, ast.Name) and e.func.id == "old" and "old" in st.ghost:
        s2 = st.fork()
        s2.env = dict(st.ghost["old"])
        return ex.ev(e.args[0], s2)
    return _orig_call_node(self, ex, e, st)


Model.call_node = _call_node
