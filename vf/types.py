"""Type descriptors and symbolic values for pyvc."""
import z3
from .smt import Ref, NONE, fn, fresh, sort_name


class Unsupported(Exception):
    """A construct outside the accepted subset: the function is undecided (exit 2), never a pass."""


class Ty:
    def sort(self):
        return Ref

    def __repr__(self):
        return self.__class__.__name__

    def __eq__(self, o):
        return repr(self) == repr(o)

    def __hash__(self):
        return hash(repr(self))


class _Prim(Ty):
    def __init__(self, name, sort):
        self.name = name
        self._sort = sort

    def sort(self):
        return self._sort

    def __repr__(self):
        return self.name


INT = _Prim("Int", z3.IntSort())
BOOL = _Prim("Bool", z3.BoolSort())
STR = _Prim("Str", z3.StringSort())
REAL = _Prim("Real", z3.RealSort())


class NoneT(Ty):
    def __repr__(self):
        return "NoneT"


NONE_T = NoneT()


class ObjT(Ty):
    def __init__(self, name):
        self.name = name

    def __repr__(self):
        return self.name


class OptT(Ty):
    def __init__(self, inner):
        self.inner = inner

    def __repr__(self):
        return f"Opt[{self.inner!r}]"


class SeqT(Ty):
    def __init__(self, elem):
        self.elem = elem

    def __repr__(self):
        return f"Seq[{self.elem!r}]"


class MapT(Ty):
    def __init__(self, key, val):
        self.key, self.val = key, val

    def __repr__(self):
        return f"Map[{self.key!r},{self.val!r}]"


class SetT(Ty):
    def __init__(self, elem):
        self.elem = elem

    def __repr__(self):
        return f"Set[{self.elem!r}]"


class TupleT(Ty):
    """Python-side tuple of values with concrete length (never a z3 term)."""

    def __repr__(self):
        return "Tuple"


class PyT(Ty):
    """A concrete Python value kept on the Python side (module, class, function, constant set...)."""

    def __repr__(self):
        return "Py"


TUPLE = TupleT()
PY = PyT()


def parse_type(s):
    s = s.strip()
    if s in ("Int", "int"):
        return INT
    if s in ("Bool", "bool"):
        return BOOL
    if s in ("Str", "str"):
        return STR
    if s in ("Real", "float"):
        return REAL
    if s == "None":
        return NONE_T
    for name, cls in (("Opt", OptT), ("Seq", SeqT), ("Set", SetT)):
        if s.startswith(name + "[") and s.endswith("]"):
            return cls(parse_type(s[len(name) + 1:-1]))
    if s.startswith("Map[") and s.endswith("]"):
        inner = s[4:-1]
        depth = 0
        for i, ch in enumerate(inner):
            if ch == "[":
                depth += 1
            elif ch == "]":
                depth -= 1
            elif ch == "," and depth == 0:
                return MapT(parse_type(inner[:i]), parse_type(inner[i + 1:]))
        raise ValueError(s)
    return ObjT(s)


class V:
    """A symbolic value: z3 term + type; `py` carries the payload of Python-side values."""
    __slots__ = ("term", "ty", "py")

    def __init__(self, term, ty, py=None):
        self.term, self.ty, self.py = term, ty, py

    def __repr__(self):
        if self.ty is PY or self.ty is TUPLE:
            return f"V<{self.py!r}>"
        return f"V<{self.term}:{self.ty!r}>"


def pyv(x):
    return V(None, PY, x)


def tup(items):
    return V(None, TUPLE, tuple(items))


def const(x):
    """Python constant -> V."""
    if x is None:
        return V(NONE, NONE_T)
    if isinstance(x, bool):
        return V(z3.BoolVal(x), BOOL)
    if isinstance(x, int):
        return V(z3.IntVal(x), INT)
    if isinstance(x, float):
        return V(z3.RealVal(repr(x)), REAL)
    if isinstance(x, str):
        return V(z3.StringVal(x), STR)
    if isinstance(x, tuple):
        return tup([const(e) for e in x])
    return pyv(x)


def is_ref(ty):
    return not isinstance(ty, (_Prim, TupleT, PyT))


# ---- sequences / maps / sets as Ref values with accessor functions -----------------------------------------
def seq_len(t):
    return fn("seq.len", Ref, z3.IntSort())(t)


def seq_at(t, i, elem_ty):
    s = elem_ty.sort()
    return fn("seq.at." + sort_name(s), Ref, z3.IntSort(), s)(t, i)


def map_has(t, k, key_ty):
    s = key_ty.sort()
    return fn("map.has." + sort_name(s), Ref, s, z3.BoolSort())(t, k)


def map_get(t, k, key_ty, val_ty):
    ks, vs = key_ty.sort(), val_ty.sort()
    return fn(f"map.get.{sort_name(ks)}.{sort_name(vs)}", Ref, ks, vs)(t, k)


def map_keys(t):
    """The insertion-ordered key sequence of a map (a Seq value)."""
    return fn("map.keys", Ref, Ref)(t)


def map_values(t):
    return fn("map.values", Ref, Ref)(t)


def set_mem(t, x, elem_ty):
    s = elem_ty.sort()
    return fn("set.mem." + sort_name(s), Ref, s, z3.BoolSort())(t, x)


def box(v):
    """Primitive -> Ref (for Opt[primitive] and heterogeneous containers)."""
    s = v.ty.sort()
    b = fn("box." + sort_name(s), s, Ref)(v.term)
    return b


def unbox(t, ty):
    s = ty.sort()
    return fn("unbox." + sort_name(s), Ref, s)(t)


def box_axioms(ty):
    s = ty.sort()
    x = z3.Const("bx", s)
    b = fn("box." + sort_name(s), s, Ref)
    u = fn("unbox." + sort_name(s), Ref, s)
    return [z3.ForAll([x], z3.And(u(b(x)) == x, b(x) != NONE), patterns=[b(x)])]
