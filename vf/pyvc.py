"""pyvc - verification-condition generator: forward symbolic execution of Python `ast` against sidecar contracts.

One state per path.  Expressions evaluate to `V` (z3 term + type) without forking; statement-level control flow
forks.  Calls go by contract (never inlined): assert requires, fresh result, assume ensures.  Loops need an invariant
from the contract (loops over literal tuples are unrolled).  Anything outside the subset raises `Unsupported`.
"""
import ast
import z3
from .smt import Ref, NONE, fn, fresh, check_sat, sort_name
from .types import *          # noqa
from . import types as T


class State:
    def __init__(self, pc=None, env=None, ghost=None, facts=None):
        self.pc = list(pc or [])
        self.env = dict(env or {})
        self.ghost = dict(ghost or {})
        self.facts = set(facts or ())      # keys of contract instantiations already assumed on this path

    def fork(self):
        return State(self.pc, self.env, self.ghost, self.facts)

    def assume(self, f):
        if f is not None and not z3.is_true(f):
            self.pc.append(f)


class Outcome:
    def __init__(self, kind, state, value=None, exc=None, node=None):
        self.kind = kind              # 'return' | 'raise' | 'fall' | 'break' | 'continue'
        self.state = state
        self.value = value
        self.exc = exc                # exception class name for 'raise'
        self.node = node


class Obligation:
    def __init__(self, name, hyps, goal, kind="smt", lineno=None, note=""):
        self.name, self.hyps, self.goal, self.kind, self.lineno, self.note = name, list(hyps), goal, kind, lineno, note


class Contract:
    """Sidecar contract of a function/property.  Expressions are Python source strings in the contract language."""

    def __init__(self, qualname, params=None, result=None, requires=(), ensures=(), raises=None, invariants=None,
                 pure=True, modifies=(), source=None, kind="proved", note="", decreases=None, locals=None, defaults=None,
                 ghost=None, ghost_code=None, definitional=()):
        self.qualname = qualname              # "Class.attr" or "func"
        self.params = dict(params or {})       # name -> type string (including 'self')
        self.result = result                   # type string or None
        self.requires = list(requires)
        self.ensures = list(ensures)
        self.raises = dict(raises or {})       # ExcName -> condition expression ("raises ExcName iff cond")
        self.invariants = dict(invariants or {})   # "for#1" / "while#1" -> list of expression strings
        self.pure = pure
        self.modifies = modifies
        self.source = source                   # (relative file, qualname) of the real code, None for assumed contracts
        self.locals = dict(locals or {})       # local variable name -> type string (for containers created empty)
        self.defaults = dict(defaults or {})
        self.definitional = list(definitional)   # defining equations of spec functions at (self, args): assumed on entry AND at call sites
        self.ghost = dict(ghost or {})         # ghost parameter name -> type string
        self.ghost_code = dict(ghost_code or {})   # "after:<unparsed statement>" -> ghost statement(s) (python source)
        self.kind = kind                       # 'proved' (has a body that pyvc checks) | 'assumed' (dependency axiom)
        self.note = note


class Executor:
    def __init__(self, model, max_paths=4000, feas_timeout_ms=500):
        self.model = model
        self.obligations = []
        self.max_paths = max_paths
        self.feas_timeout_ms = feas_timeout_ms
        self.paths = 0
        self.loop_ordinal = 0
        self.contract = None
        self.pending_raises = []       # (cond, exc name, node) recorded while evaluating one statement's expressions
        self.guards = []               # short-circuit guards in force during expression evaluation
        self.fname = "?"
        self.spec_mode = False
        self.dead_ends = []            # statements reached by a state whose assumptions had become contradictory (vacuity alarm)

    # ------------------------------------------------------------------ helpers
    def feasible(self, st):
        v = check_sat(self.model.axioms() + st.pc, self.feas_timeout_ms, want_model=False, use_cvc5=False)
        return v.status != "unsat"

    def oblige(self, name, st, goal, node=None, note=""):
        hyps = list(st.pc) + list(self.guards)
        self.obligations.append(Obligation(name, hyps, goal, lineno=getattr(node, "lineno", None), note=note))

    # ------------------------------------------------------------------ truthiness / equality
    def truth(self, v):
        """bool(v) as a z3 Bool."""
        r = self.model.truthy(self, v)
        if r is not None:
            return r
        ty = v.ty
        if ty is BOOL:
            return v.term
        if ty is INT:
            return v.term != 0
        if ty is REAL:
            return v.term != 0
        if ty is STR:
            return z3.Length(v.term) > 0
        if ty is NONE_T:
            return z3.BoolVal(False)
        if ty is TUPLE:
            return z3.BoolVal(len(v.py) > 0)
        if ty is PY:
            try:
                return z3.BoolVal(bool(v.py))
            except Exception:
                raise Unsupported(f"truthiness of {v!r}")
        if isinstance(ty, OptT):
            inner = ty.inner
            if isinstance(inner, T._Prim):
                return z3.And(v.term != NONE, self.truth(V(unbox(v.term, inner), inner)))
            return z3.And(v.term != NONE, self.truth(V(v.term, inner)))
        if isinstance(ty, SeqT):
            return seq_len(v.term) > 0
        if isinstance(ty, MapT):
            return seq_len(map_keys(v.term)) > 0
        if isinstance(ty, SetT):
            return fn("set.nonempty", Ref, z3.BoolSort())(v.term)
        if isinstance(ty, ObjT):
            return self.model.obj_truthy(self, v)
        raise Unsupported(f"truthiness of {v!r}")

    def coerce(self, v, ty):
        """Make `v` usable where `ty` is expected (boxing primitives into Opt, None into Opt...)."""
        if v.ty == ty:
            return v
        if v.ty is PY and isinstance(v.py, tuple) and v.py and v.py[0] == "pytype" and is_ref(ty):
            return V(self.model.pytype_consts[v.py[1]], ty)
        if v.ty is PY and type(v.py).__name__ == "Native" and is_ref(ty):
            nm = getattr(v.py.obj, "__name__", None) or type(v.py.obj).__name__
            return V(z3.Const("native.obj." + nm, Ref), ty)
        if v.ty is PY and v.py == ("emptyset",) and isinstance(ty, SetT):
            es = ty.elem.sort()
            key = f"set.empty.{sort_name(es)}"
            e0 = z3.Const(key, Ref)
            if key not in self.model._boxed:
                self.model._boxed.add(key)
                x = z3.Const("sex", es)
                self.model.add_axiom(e0 != NONE)
                self.model.add_axiom(z3.ForAll([x], z3.Not(set_mem(e0, x, ty.elem))))
            return V(e0, ty)
        if v.ty is TUPLE and isinstance(ty, SeqT) and len(v.py) == 0:
            return V(z3.Const("seq.empty", Ref), ty)          # the empty tuple (one object in CPython; axioms: not None, length 0)
        if v.ty is TUPLE and isinstance(ty, SeqT) and len(v.py) > 0 and all(x.ty == ty.elem for x in v.py):
            # a tuple display used where a sequence is expected: a literal sequence term, characterised by a global axiom
            n = len(v.py)
            es = ty.elem.sort()
            key = f"seqlit.{sort_name(es)}.{n}"
            mk = fn(key, *([es] * n), Ref)
            if key not in self.model._boxed:
                self.model._boxed.add(key)
                xs = [z3.Const(f"sl{i}", es) for i in range(n)]
                facts = [mk(*xs) != NONE, seq_len(mk(*xs)) == n] + [seq_at(mk(*xs), i, ty.elem) == xs[i] for i in range(n)]
                self.model.add_axiom(z3.ForAll(xs, z3.And(facts), patterns=[mk(*xs)]))
            return V(mk(*[x.term for x in v.py]), ty)
        if isinstance(ty, OptT):
            if v.ty is NONE_T:
                return V(NONE, ty)
            if isinstance(v.ty, OptT):
                if v.ty.inner == ty.inner:
                    return V(v.term, ty)
            if isinstance(ty.inner, T._Prim):
                if v.ty == ty.inner:
                    self.model.need_box(ty.inner)
                    return V(box(v), ty)
            elif is_ref(v.ty):
                return V(v.term, ty)
        if isinstance(v.ty, OptT) and isinstance(v.ty.inner, T._Prim) and v.ty.inner == ty:
            self.model.need_box(ty)
            return V(unbox(v.term, ty), ty)       # the value of a non-None optional primitive (callers check None-ness)
        if is_ref(ty) and is_ref(v.ty):
            return V(v.term, ty)
        if ty is REAL and v.ty is INT:
            return V(z3.ToReal(v.term), REAL)
        raise Unsupported(f"cannot coerce {v!r} to {ty!r}")

    def unify(self, a, b):
        if a.ty == b.ty:
            return a, b, a.ty
        if a.ty is NONE_T and b.ty is NONE_T:
            return a, b, NONE_T
        for x, y in ((a, b), (b, a)):
            if x.ty is NONE_T:
                ty = y.ty if isinstance(y.ty, OptT) or (is_ref(y.ty) and not isinstance(y.ty, NoneT)) else OptT(y.ty)
                if isinstance(y.ty, T._Prim):
                    ty = OptT(y.ty)
                return self.coerce(a, ty), self.coerce(b, ty), ty
        for x, y in ((a, b), (b, a)):
            if isinstance(x.ty, OptT) and (x.ty.inner == y.ty):
                return self.coerce(a, x.ty), self.coerce(b, x.ty), x.ty
        for x, y in ((a, b), (b, a)):
            yt = y.ty.inner if isinstance(y.ty, OptT) else y.ty
            if x.ty is PY and x.py == ("emptyset",) and isinstance(yt, SetT):
                e = self.coerce(x, yt)
                e = V(e.term, y.ty)
                return (e, y, y.ty) if x is a else (y, e, y.ty)
        for x, y in ((a, b), (b, a)):
            if x.ty is TUPLE and len(x.py) == 0 and isinstance(y.ty, SeqT):
                e = V(fn("seq.empty", Ref)() if False else z3.Const("seq.empty", Ref), y.ty)
                return (e, y, y.ty) if x is a else (y, e, y.ty)
        if is_ref(a.ty) and is_ref(b.ty):
            return a, b, a.ty
        if {a.ty, b.ty} == {INT, REAL}:
            return self.coerce(a, REAL), self.coerce(b, REAL), REAL
        if {a.ty, b.ty} == {INT, BOOL}:
            ai = a if a.ty is INT else V(z3.If(a.term, 1, 0), INT)
            bi = b if b.ty is INT else V(z3.If(b.term, 1, 0), INT)
            return ai, bi, INT
        if getattr(self, "lenient", False):
            for x, y in ((a, b), (b, a)):
                if isinstance(x.ty, ObjT) and x.ty.name == "Opaque" and isinstance(y.ty, T._Prim):
                    self.model.need_box(y.ty)
                    yb = V(box(y), x.ty)
                    return (x, yb, x.ty) if x is a else (yb, x, x.ty)
        raise Unsupported(f"cannot unify {a!r} and {b!r}")

    def equal(self, a, b):
        r = self.model.eq(self, a, b)
        if r is not None:
            return r
        if a.ty is TUPLE and b.ty is TUPLE:
            if len(a.py) != len(b.py):
                return z3.BoolVal(False)
            return z3.And([self.equal(x, y) for x, y in zip(a.py, b.py)] or [z3.BoolVal(True)])
        if a.ty is PY and b.ty is PY:
            return z3.BoolVal(a.py == b.py)
        for x_, y_ in ((a, b), (b, a)):
            # a tuple display against a symbolic sequence: same length and element-wise equal
            yt = y_.ty.inner if isinstance(y_.ty, OptT) else y_.ty
            if x_.ty is TUPLE and isinstance(yt, SeqT):
                elems = [self.equal(V(seq_at(y_.term, z3.IntVal(i), yt.elem), yt.elem), self.coerce(xi, yt.elem) if xi.ty is not yt.elem else xi) for i, xi in enumerate(x_.py)]
                return z3.And([y_.term != NONE, seq_len(y_.term) == len(x_.py)] + elems)
        if a.ty is PY or b.ty is PY or a.ty is TUPLE or b.ty is TUPLE:
            other = b if (a.ty is PY or a.ty is TUPLE) else a
            me = a if other is b else b
            if me.ty is PY and isinstance(me.py, (str, int, bool)) or (me.ty is PY and me.py is None):
                return self.equal(const(me.py), other)
            raise Unsupported(f"== between {a!r} and {b!r}")
        # primitive vs None / mismatched primitives
        if a.ty is NONE_T and isinstance(b.ty, T._Prim) or b.ty is NONE_T and isinstance(a.ty, T._Prim):
            return z3.BoolVal(False)
        if isinstance(a.ty, T._Prim) and isinstance(b.ty, T._Prim) and a.ty != b.ty and {a.ty, b.ty} not in ({INT, REAL}, {INT, BOOL}):
            return z3.BoolVal(False)
        x, y, ty = self.unify(a, b)
        if isinstance(ty, OptT) and isinstance(ty.inner, T._Prim):
            inner = ty.inner
            return z3.Or(z3.And(x.term == NONE, y.term == NONE),
                         z3.And(x.term != NONE, y.term != NONE, unbox(x.term, inner) == unbox(y.term, inner)))
        return x.term == y.term

    # ------------------------------------------------------------------ expressions
    def ev(self, e, st):
        m = getattr(self, "ev_" + type(e).__name__, None)
        if m is None:
            raise Unsupported(f"expression {type(e).__name__} at line {getattr(e, 'lineno', '?')}")
        return m(e, st)

    def ev_truth(self, e, st):
        """Evaluate in boolean context (no value materialised for and/or/not)."""
        if isinstance(e, ast.BoolOp):
            parts = []
            saved = len(self.guards)
            for sub in e.values:
                t = self.ev_truth(sub, st)
                parts.append(t)
                self.guards.append(t if isinstance(e.op, ast.And) else z3.Not(t))
            del self.guards[saved:]
            return z3.And(parts) if isinstance(e.op, ast.And) else z3.Or(parts)
        if isinstance(e, ast.UnaryOp) and isinstance(e.op, ast.Not):
            return z3.Not(self.ev_truth(e.operand, st))
        return self.truth(self.ev(e, st))

    def ev_Constant(self, e, st):
        if isinstance(e.value, (bytes, type(Ellipsis))):
            return pyv(e.value)
        return const(e.value)

    def ev_Name(self, e, st):
        if e.id in st.env:
            return st.env[e.id]
        v = self.model.global_name(self, e.id, st)
        if v is None:
            raise Unsupported(f"unknown name {e.id!r} at line {e.lineno}")
        return v

    def ev_Tuple(self, e, st):
        return tup([self.ev(x, st) for x in e.elts])

    def ev_List(self, e, st):
        items = [self.ev(x, st) for x in e.elts]
        return self.model.make_list(self, items, st)

    def ev_Set(self, e, st):
        items = [self.ev(x, st) for x in e.elts]
        if all(i.ty is PY or (i.ty is STR and z3.is_string_value(i.term)) for i in items):
            return pyv(frozenset(i.py if i.ty is PY else i.term.as_string() for i in items))
        return pyv(("symset", tuple(items)))

    def ev_Dict(self, e, st):
        if e.keys and all(k is None for k in e.keys):
            return self.model.merge_maps(self, [self.ev(v, st) for v in e.values], st)
        if any(k is None for k in e.keys):
            raise Unsupported("dict display mixing ** and explicit keys")
        return self.model.make_dict(self, [(self.ev(k, st), self.ev(v, st)) for k, v in zip(e.keys, e.values)], st)

    def ev_Attribute(self, e, st):
        base = self.ev(e.value, st)
        return self.getattr(base, e.attr, st, e)

    def getattr(self, base, attr, st, node=None):
        if isinstance(base.ty, OptT) and base.ty.inner is STR:
            # a method of an optional string: None has no such attribute
            self.safety("not None before ." + attr, st, base.term != NONE, node, "AttributeError")
            self.model.need_box(STR)
            base = V(unbox(base.term, STR), STR)
        v = self.model.getattr(self, base, attr, st, node)
        if v is None:
            if self.lenient:
                return V(fresh("havoc", Ref), ObjT("Opaque"))
            bty = base.ty.inner if isinstance(base.ty, OptT) else base.ty
            if isinstance(bty, ObjT) and bty.name in self.model.classes and bty.name != "Opaque" and not attr.startswith("__"):
                # an attribute the class table does not declare: read as an unconstrained (but per-object fixed) value - an over-approximation
                note = f"undeclared attribute {bty.name}.{attr} is read as an unconstrained value"
                if note not in self.model.assumptions:
                    self.model.assumptions.append(note)
                if isinstance(base.ty, OptT):
                    self.safety("not None before ." + attr, st, base.term != NONE, node, "AttributeError")
                return V(fn(f"undeclared.{bty.name}.{attr}", Ref, Ref)(base.term), ObjT("Opaque"))
            raise Unsupported(f"attribute .{attr} of {base!r} at line {getattr(node, 'lineno', '?')}")
        return v

    def ev_UnaryOp(self, e, st):
        if isinstance(e.op, ast.Not):
            return V(z3.Not(self.ev_truth(e.operand, st)), BOOL)
        v = self.ev(e.operand, st)
        if isinstance(e.op, ast.USub) and v.ty in (INT, REAL):
            return V(-v.term, v.ty)
        raise Unsupported(f"unary {type(e.op).__name__}")

    def ev_BoolOp(self, e, st):
        vals = []
        saved = len(self.guards)
        for sub in e.values:
            v = self.ev(sub, st)
            vals.append(v)
            t = self.truth(v)
            self.guards.append(t if isinstance(e.op, ast.And) else z3.Not(t))
        del self.guards[saved:]
        if all(v.ty is BOOL for v in vals):
            ts = [v.term for v in vals]
            return V(z3.And(ts) if isinstance(e.op, ast.And) else z3.Or(ts), BOOL)
        # value semantics: `a and b` -> b if truthy(a) else a ; `a or b` -> a if truthy(a) else b
        res = vals[-1]
        for v in reversed(vals[:-1]):
            t = self.truth(v)
            a, b, ty = self.unify(v, res)
            if a.ty is TUPLE or a.ty is PY:
                raise Unsupported("and/or over python-side values")
            res = V(z3.If(t, b.term, a.term) if isinstance(e.op, ast.And) else z3.If(t, a.term, b.term), ty)
        return res

    def ev_IfExp(self, e, st):
        t = self.ev_truth(e.test, st)
        self.guards.append(t)
        a = self.ev(e.body, st)
        self.guards[-1] = z3.Not(t)
        b = self.ev(e.orelse, st)
        self.guards.pop()
        if z3.is_true(z3.simplify(t)):
            return a
        if z3.is_false(z3.simplify(t)):
            return b
        a, b, ty = self.unify(a, b)
        if ty is TUPLE or ty is PY:
            raise Unsupported("conditional expression over python-side values")
        return V(z3.If(t, a.term, b.term), ty)

    def ev_Compare(self, e, st):
        left = self.ev(e.left, st)
        parts = []
        for op, right_e in zip(e.ops, e.comparators):
            right = self.ev(right_e, st)
            parts.append(self.compare(op, left, right, st, e))
            left = right
        return V(z3.And(parts) if len(parts) > 1 else parts[0], BOOL)

    def compare(self, op, a, b, st, node=None):
        if isinstance(op, ast.Eq):
            return self.equal(a, b)
        if isinstance(op, ast.NotEq):
            return z3.Not(self.equal(a, b))
        if isinstance(op, (ast.Is, ast.IsNot)):
            r = self.identical(a, b)
            return r if isinstance(op, ast.Is) else z3.Not(r)
        if isinstance(op, (ast.In, ast.NotIn)):
            r = self.contains(b, a, st, node)
            return r if isinstance(op, ast.In) else z3.Not(r)
        if a.ty in (INT, REAL, BOOL) and b.ty in (INT, REAL, BOOL):
            x, y, _ = self.unify(a, b)
            if isinstance(op, ast.Lt):
                return x.term < y.term
            if isinstance(op, ast.LtE):
                return x.term <= y.term
            if isinstance(op, ast.Gt):
                return x.term > y.term
            if isinstance(op, ast.GtE):
                return x.term >= y.term
        raise Unsupported(f"comparison {type(op).__name__} on {a!r}, {b!r}")

    def identical(self, a, b):
        if a.ty is PY and b.ty is PY:
            return z3.BoolVal(a.py is b.py)
        if a.ty is NONE_T or b.ty is NONE_T:
            other = b if a.ty is NONE_T else a
            if other.ty is NONE_T:
                return z3.BoolVal(True)
            if isinstance(other.ty, (T._Prim, TupleT, PyT)):
                return z3.BoolVal(False)
            return other.term == NONE
        r = self.model.eq(self, a, b, identity=True)
        if r is not None:
            return r
        for x, y in ((a, b), (b, a)):
            if x.ty is TUPLE and len(x.py) == 0 and is_ref(y.ty):
                return y.term == z3.Const("seq.empty", Ref)
        if is_ref(a.ty) and is_ref(b.ty):
            return a.term == b.term
        if a.ty is BOOL and b.ty is BOOL:
            return a.term == b.term
        raise Unsupported(f"`is` between {a!r} and {b!r}")

    def contains(self, container, item, st, node=None):
        r = self.model.contains(self, container, item, st)
        if r is not None:
            return r
        c = container
        if c.ty is TUPLE:
            return z3.Or([self.equal(item, x) for x in c.py] or [z3.BoolVal(False)])
        if c.ty is PY:
            if isinstance(c.py, tuple) and c.py and c.py[0] == "symset":
                return z3.Or([self.equal(item, x) for x in c.py[1]])
            if isinstance(c.py, (frozenset, set, tuple, list, dict)):
                if isinstance(item.ty, OptT) and item.ty.inner is STR:
                    self.model.need_box(STR)
                    inner = V(unbox(item.term, STR), STR)
                    strs = sorted(x for x in c.py if isinstance(x, str))
                    hit = z3.Or([inner.term == z3.StringVal(x) for x in strs] or [z3.BoolVal(False)])
                    return z3.And(item.term != NONE, hit) if None not in c.py else z3.Or(item.term == NONE, hit)
                if item.ty is STR:
                    strs = sorted(x for x in c.py if isinstance(x, str))
                    return z3.Or([item.term == z3.StringVal(x) for x in strs] or [z3.BoolVal(False)])
                if item.ty is INT:
                    return z3.Or([item.term == x for x in c.py if isinstance(x, int)] or [z3.BoolVal(False)])
                if item.ty is PY:
                    return z3.BoolVal(item.py in c.py)
            raise Unsupported(f"`in` over python value {c!r}")
        if c.ty is STR and item.ty is STR:
            return z3.Contains(c.term, item.term)
        if isinstance(c.ty, SetT):
            it = self.coerce(item, c.ty.elem)
            return set_mem(c.term, it.term, c.ty.elem)
        if isinstance(c.ty, MapT):
            it = self.coerce(item, c.ty.key)
            return map_has(c.term, it.term, c.ty.key)
        if isinstance(c.ty, SeqT):
            it = self.coerce(item, c.ty.elem)
            i = fresh("i", z3.IntSort())
            return z3.Exists([i], z3.And(0 <= i, i < seq_len(c.term), seq_at(c.term, i, c.ty.elem) == it.term))
        if self.lenient:
            self.havoced = getattr(self, "havoced", []) + [f"`in` on an opaque value ({ast.unparse(node)[:50] if node is not None else c!r})"]
            return fresh("havoc_in", z3.BoolSort())
        raise Unsupported(f"`in` on {c!r}")

    def _unopt_str(self, x, other, st, node):
        """Opt[Str] used as an operand next to a string: None would raise TypeError; otherwise the string itself."""
        if isinstance(x.ty, OptT) and x.ty.inner is STR and (other.ty is STR or (isinstance(other.ty, OptT) and other.ty.inner is STR)):
            self.safety("operand is not None", st, x.term != NONE, node, "TypeError")
            self.model.need_box(STR)
            return V(unbox(x.term, STR), STR)
        return x

    def ev_BinOp(self, e, st):
        a, b = self.ev(e.left, st), self.ev(e.right, st)
        a, b = self._unopt_str(a, b, st, e), self._unopt_str(b, a, st, e)
        r = self.model.binop(self, e.op, a, b, st)
        if r is not None:
            return r
        if isinstance(e.op, ast.Add):
            if a.ty is STR and b.ty is STR:
                return V(z3.Concat(a.term, b.term), STR)
            if a.ty is TUPLE and b.ty is TUPLE:
                return tup(a.py + b.py)
        if a.ty in (INT, REAL) and b.ty in (INT, REAL):
            x, y, ty = self.unify(a, b)
            if isinstance(e.op, ast.Add):
                return V(x.term + y.term, ty)
            if isinstance(e.op, ast.Sub):
                return V(x.term - y.term, ty)
            if isinstance(e.op, ast.Mult):
                return V(x.term * y.term, ty)
        if isinstance(e.op, ast.Mod) and a.ty is STR:
            return self.model.format_percent(self, a, b, st)
        raise Unsupported(f"binary {type(e.op).__name__} on {a!r}, {b!r} at line {e.lineno}")

    def ev_JoinedStr(self, e, st):
        parts = []
        for p in e.values:
            if isinstance(p, ast.Constant):
                parts.append(z3.StringVal(p.value))
            else:
                if p.format_spec is not None or p.conversion not in (-1, 115):
                    raise Unsupported("f-string format spec")
                parts.append(self.to_str(self.ev(p.value, st), st).term)
        if not parts:
            return const("")
        return V(z3.Concat(parts) if len(parts) > 1 else parts[0], STR)

    def to_str(self, v, st):
        if v.ty is STR:
            return v
        r = self.model.to_str(self, v, st)
        if r is not None:
            return r
        if v.ty is INT:
            return V(z3.IntToStr(v.term), STR)     # only for non-negative ints
        raise Unsupported(f"str() of {v!r}")

    def ev_Subscript(self, e, st):
        base = self.ev(e.value, st)
        if isinstance(e.slice, ast.Slice):
            return self.slice(base, e.slice, st, e)
        idx = self.ev(e.slice, st)
        return self.subscript(base, idx, st, e)

    def subscript(self, base, idx, st, node=None):
        r = self.model.subscript(self, base, idx, st, node)
        if r is not None:
            return r
        if base.ty is TUPLE and idx.ty is INT and z3.is_int_value(idx.term):
            return base.py[idx.term.as_long()]
        if isinstance(base.ty, SeqT) and idx.ty is INT:
            n = seq_len(base.term)
            # a concrete negative index counts from the end; a symbolic index must be proved non-negative (stricter than Python)
            it_ = z3.simplify(idx.term)             # `-1` is a unary minus applied to a literal
            i = (n + it_) if (z3.is_int_value(it_) and it_.as_long() < 0) else idx.term
            self.safety("index in range", st, z3.And(0 <= i, i < n), node, "IndexError")
            return V(seq_at(base.term, i, base.ty.elem), base.ty.elem)
        if isinstance(base.ty, MapT):
            k = self.coerce(idx, base.ty.key)
            self.safety("key present", st, map_has(base.term, k.term, base.ty.key), node, "KeyError")
            return V(map_get(base.term, k.term, base.ty.key, base.ty.val), base.ty.val)
        if base.ty is STR and idx.ty is INT:
            n = z3.Length(base.term)
            i = z3.If(idx.term < 0, n + idx.term, idx.term)
            self.safety("index in range", st, z3.And(0 <= i, i < n), node, "IndexError")
            return V(z3.SubString(base.term, i, 1), STR)
        raise Unsupported(f"subscript {base!r}[{idx!r}] at line {getattr(node, 'lineno', '?')}")

    def slice(self, base, sl, st, node):
        if sl.step is not None:
            raise Unsupported("slice step")
        lo = self.ev(sl.lower, st) if sl.lower else None
        hi = self.ev(sl.upper, st) if sl.upper else None
        if base.ty is STR:
            n = z3.Length(base.term)

            def norm(v, default):
                if v is None:
                    return default
                if v.ty is not INT:
                    raise Unsupported("non-int slice bound")
                t = z3.If(v.term < 0, n + v.term, v.term)
                return z3.If(t < 0, 0, z3.If(t > n, n, t))
            a, b = norm(lo, z3.IntVal(0)), norm(hi, n)
            return V(z3.SubString(base.term, a, z3.If(b > a, b - a, 0)), STR)
        if base.ty is TUPLE:
            a = lo.term.as_long() if lo is not None else None
            b = hi.term.as_long() if hi is not None else None
            return tup(base.py[a:b])
        r = self.model.slice(self, base, lo, hi, st, node)
        if r is not None:
            return r
        raise Unsupported(f"slice of {base!r}")

    def safety(self, what, st, cond, node, exc):
        """An implicit exception: a safety obligation unless the contract allows `exc` (then a pending raise)."""
        if self.spec_mode:
            return
        if self.contract is not None and exc in self.contract.raises:
            self.pending_raises.append((z3.And(list(self.guards) + [z3.Not(cond)]), exc, node))
        else:
            self.oblige(f"{self.fname}:safety:{what}@L{getattr(node, 'lineno', '?')}", st, cond, node, note=exc)
            # after the check the execution continues under the assumption that it held
            if not self.guards:
                st.assume(cond)

    lenient = False      # safety-only mode: calls / attributes outside the model are havoc'ed (fresh opaque values) instead of unsupported

    def ev_Call(self, e, st):
        try:
            r = self.model.call_node(self, e, st)
            if r is not None:
                return r
            raise Unsupported(f"call {ast.unparse(e)[:80]!r} at line {e.lineno}")
        except Unsupported as ex:
            if not self.lenient:
                raise
            self.havoced = getattr(self, "havoced", []) + [f"L{e.lineno}: {ast.unparse(e)[:60]} ({str(ex)[:60]})"]
            o = V(fresh("havoc", Ref), ObjT("Opaque"))
            return o

    def ev_GeneratorExp(self, e, st):
        return pyv(("genexp", e, dict(st.env)))

    def ev_ListComp(self, e, st):
        return self.model.comprehension(self, e, st, "list")

    def ev_SetComp(self, e, st):
        return self.model.comprehension(self, e, st, "set")

    def ev_DictComp(self, e, st):
        return self.model.comprehension(self, e, st, "dict")

    def ev_Lambda(self, e, st):
        return pyv(("lambda", e, dict(st.env)))

    def ev_Starred(self, e, st):
        raise Unsupported("starred expression")

    def ev_Await(self, e, st):
        return self.ev(e.value, st)

    # ------------------------------------------------------------------ statements
    def run(self, body, st):
        """Execute a statement list from one state; returns list of Outcome (fall/return/raise/break/continue)."""
        outs = []
        live = [st]
        for stmt in body:
            nxt = []
            for s in live:
                for o in self.stmt(stmt, s):
                    if o.kind == "fall":
                        nxt.append(o.state)
                    else:
                        outs.append(o)
            live = nxt
            if not live:
                break
        outs.extend(Outcome("fall", s) for s in live)
        return outs

    def with_raises(self, st, node, cont):
        """Split off the pending raise events recorded during the evaluation of one statement's expressions."""
        outs = []
        pend, self.pending_raises = self.pending_raises, []
        for cond, exc, n in pend:
            s2 = st.fork()
            s2.assume(cond)
            if self.feasible(s2):
                outs.append(Outcome("raise", s2, exc=exc, node=n or node))
            st.assume(z3.Not(cond))
        if pend and not self.feasible(st):
            return outs
        return outs + cont(st)

    def stmt(self, s, st):
        self.paths += 1
        if self.paths > self.max_paths:
            raise Unsupported("path budget exceeded")
        m = getattr(self, "st_" + type(s).__name__, None)
        if m is None:
            raise Unsupported(f"statement {type(s).__name__} at line {s.lineno}")
        outs = m(s, st)
        gc = self.contract.ghost_code if (self.contract is not None and getattr(self.contract, "ghost_code", None)) else None
        if gc:
            key = "after:" + ast.unparse(s)
            if key in gc:
                self.ghost_hits = getattr(self, "ghost_hits", set()) | {key}
                code = ast.parse(gc[key]).body
                new = []
                for o in outs:
                    if o.kind == "fall":
                        new.extend(self.run(code, o.state))
                    else:
                        new.append(o)
                outs = new
        return outs

    def st_Expr(self, s, st):
        if isinstance(s.value, ast.Constant):
            return [Outcome("fall", st)]
        if isinstance(s.value, (ast.Yield, ast.YieldFrom)):
            return self.model.do_yield(self, s.value, st)
        self.ev(s.value, st)
        return self.with_raises(st, s, lambda st_: [Outcome("fall", st_)])

    def st_Pass(self, s, st):
        return [Outcome("fall", st)]

    def st_Assign(self, s, st):
        val = self.ev(s.value, st)

        def cont(st_):
            for tgt in s.targets:
                self.assign(tgt, val, st_)
            return [Outcome("fall", st_)]
        return self.with_raises(st, s, cont)

    def st_AnnAssign(self, s, st):
        if s.value is None:
            return [Outcome("fall", st)]
        val = self.ev(s.value, st)

        def cont(st_):
            self.assign(s.target, val, st_)
            return [Outcome("fall", st_)]
        return self.with_raises(st, s, cont)

    def st_AugAssign(self, s, st):
        node = ast.BinOp(left=_load(s.target), op=s.op, right=s.value, lineno=s.lineno, col_offset=0)
        r = self.model.augassign(self, s, st)
        if r is not None:
            return self.with_raises(st, s, lambda st_: [Outcome("fall", st_)])
        val = self.ev(node, st)

        def cont(st_):
            self.assign(s.target, val, st_)
            return [Outcome("fall", st_)]
        return self.with_raises(st, s, cont)

    def assign(self, tgt, val, st):
        if isinstance(tgt, ast.Subscript) and self.lenient:
            try:
                base = self.ev(tgt.value, st)
                idx = self.ev(tgt.slice, st)
                if self.model.setitem(self, base, idx, val, st, tgt):
                    return
            except Unsupported:
                pass
            return
        if isinstance(tgt, ast.Name):
            loc = getattr(self.contract, "locals", None) if self.contract is not None else None
            if loc and tgt.id in loc:
                ty = parse_type(loc[tgt.id])
                if val.ty is PY and isinstance(val.py, tuple) and val.py and val.py[0] in ("emptylist", "emptydict", "emptyset"):
                    if len(val.py) > 1:
                        self.__dict__.setdefault("defaultdicts", {})[tgt.id] = val.py[1]         # collections.defaultdict(<factory>)
                    val = self.model.empty_container(self, ty, st)
                else:
                    val = self.coerce(val, ty)
            st.env[tgt.id] = val
        elif isinstance(tgt, (ast.Tuple, ast.List)):
            if isinstance(val.ty, SeqT):
                # unpacking a symbolic sequence: arity is a safety obligation (ValueError otherwise)
                n = len(tgt.elts)
                self.safety(f"unpacking needs exactly {n} values", st, seq_len(val.term) == n, tgt, "ValueError")
                for i, t in enumerate(tgt.elts):
                    self.assign(t, V(seq_at(val.term, z3.IntVal(i), val.ty.elem), val.ty.elem), st)
                return
            if val.ty is not TUPLE or len(val.py) != len(tgt.elts):
                raise Unsupported("tuple unpacking of a non-tuple / arity mismatch")
            for t, v in zip(tgt.elts, val.py):
                self.assign(t, v, st)
        elif isinstance(tgt, ast.Attribute):
            base = self.ev(tgt.value, st)
            if not self.model.setattr(self, base, tgt.attr, val, st, tgt):
                raise Unsupported(f"attribute assignment .{tgt.attr} at line {tgt.lineno}")
        elif isinstance(tgt, ast.Subscript):
            base = self.ev(tgt.value, st)
            idx = self.ev(tgt.slice, st)
            if not self.model.setitem(self, base, idx, val, st, tgt):
                raise Unsupported(f"item assignment at line {tgt.lineno}")
        else:
            raise Unsupported(f"assignment target {type(tgt).__name__}")

    def st_Return(self, s, st):
        val = self.ev(s.value, st) if s.value is not None else const(None)
        return self.with_raises(st, s, lambda st_: [Outcome("return", st_, value=val, node=s)])

    def st_Raise(self, s, st):
        exc = s.exc
        if exc is None:
            return [Outcome("raise", st, exc="<reraise>", node=s)]
        name = None
        if isinstance(exc, ast.Call):
            exc_f = exc.func
        else:
            exc_f = exc
        if isinstance(exc_f, ast.Name):
            name = exc_f.id
            if name in st.env:       # `raise e`
                v = st.env[name]
                name = v.py[1] if (v.ty is PY and isinstance(v.py, tuple) and v.py[0] == "exc") else name
        elif isinstance(exc_f, ast.Attribute):
            name = exc_f.attr
        else:
            raise Unsupported("raise of a computed exception")
        return [Outcome("raise", st, exc=name, node=s)]

    def st_Assert(self, s, st):
        t = self.ev_truth(s.test, st)
        self.oblige(f"{self.fname}:assert@L{s.lineno}", st, t, s)
        st.assume(t)
        return [Outcome("fall", st)]

    def st_If(self, s, st):
        t = self.ev_truth(s.test, st)

        def cont(st_):
            outs = []
            ts = z3.simplify(t)
            taken = 0
            for cond, body in ((ts, s.body), (z3.simplify(z3.Not(ts)), s.orelse)):
                if z3.is_false(cond):
                    continue
                s2 = st_.fork()
                s2.assume(cond)
                if not z3.is_true(cond) and not self.feasible(s2):
                    continue
                taken += 1
                outs.extend(self.run(body, s2) if body else [Outcome("fall", s2)])
            if taken == 0:
                # neither branch is feasible: the assumptions collected since the last fork are contradictory
                self.dead_ends.append(s.lineno)
            return outs
        return self.with_raises(st, s, cont)

    def st_Continue(self, s, st):
        return [Outcome("continue", st)]

    def st_Break(self, s, st):
        return [Outcome("break", st)]

    def st_For(self, s, st):
        it = self.ev(s.iter, st)
        return self.with_raises(st, s, lambda st_: self.model.for_loop(self, s, it, st_))

    def st_While(self, s, st):
        return self.model.while_loop(self, s, st)

    def st_FunctionDef(self, s, st):
        st.env[s.name] = pyv(("localdef", s, None))
        return [Outcome("fall", st)]

    st_AsyncFunctionDef = st_FunctionDef

    def st_Try(self, s, st):
        return self.model.try_stmt(self, s, st)

    def st_With(self, s, st):
        if self.lenient:
            # safety-only: the context manager and its __enter__ value are opaque; its body is executed normally
            for item in s.items:
                self.havoced = getattr(self, "havoced", []) + [f"L{s.lineno}: with {ast.unparse(item.context_expr)[:50]}"]
                if isinstance(item.optional_vars, ast.Name):
                    st.env[item.optional_vars.id] = V(fresh("havoc", Ref), ObjT("Opaque"))
            return self.run(s.body, st)
        return self.model.with_stmt(self, s, st)

    st_AsyncWith = st_With

    def st_AsyncFor(self, s, st):
        return self.st_For(s, st)

    def st_Import(self, s, st):
        return [Outcome("fall", st)]

    st_ImportFrom = st_Import

    def st_Delete(self, s, st):
        raise Unsupported("del")

    # ------------------------------------------------------------------ generic loop machinery
    def unrolled_for(self, s, items, st):
        """Loop over a concrete list of element values."""
        outs = []
        live = [st]
        for item in items:
            nxt = []
            for s0 in live:
                s1 = s0.fork()
                self.assign(s.target, item, s1)
                for o in self.run(s.body, s1):
                    if o.kind in ("fall", "continue"):
                        nxt.append(o.state)
                    elif o.kind == "break":
                        outs.append(Outcome("fall", o.state))
                    else:
                        outs.append(o)
            live = nxt
        for s0 in live:
            outs.extend(self.run(s.orelse, s0) if s.orelse else [Outcome("fall", s0)])
        return outs


def _load(t):
    t2 = ast.parse(ast.unparse(t), mode="eval").body
    return t2


def assigned_names(body):
    """Names (and self-attributes, written 'self.x') assigned anywhere in a statement list."""
    names = set()
    for node in body:
        for n in ast.walk(node):
            if isinstance(n, (ast.Assign, ast.AugAssign, ast.AnnAssign, ast.For, ast.AsyncFor, ast.NamedExpr)):
                tgts = n.targets if isinstance(n, ast.Assign) else [n.target]
                for t in tgts:
                    for x in ast.walk(t):
                        if isinstance(x, ast.Name):
                            names.add(x.id)
                        elif isinstance(x, ast.Attribute) and isinstance(x.value, ast.Name):
                            names.add(f"{x.value.id}.{x.attr}")
            elif isinstance(n, ast.Call) and isinstance(n.func, ast.Attribute) and \
                    n.func.attr in ("append", "add", "update", "extend", "setdefault", "pop", "insert", "sort", "discard", "remove", "clear"):
                # a mutator on a name, or on an element reached from a name (`d[k].add(v)` changes what `d` holds)
                root = n.func.value
                while isinstance(root, ast.Subscript):
                    root = root.value
                if isinstance(root, ast.Name):
                    names.add(root.id)
    return names
