"""./check CLI.  Exit codes: 0 held, 1 VIOLATION, 2 undecided, 3 checker crash."""
import argparse, importlib, os, sys, traceback


def main():
    ap = argparse.ArgumentParser()
    ap.add_argument("pid")
    ap.add_argument("--tier", default=os.environ.get("VERIF_TIER", "quick"), choices=["quick", "thorough"])
    ap.add_argument("--replay")
    a = ap.parse_args()
    seed = int(os.environ.get("VERIF_SEED", "0") or 0)
    os.environ["VERIF_TIER"] = a.tier          # inherited by the fresh interpreters of the native stand-ins
    from vf.core import Run
    from vf.types import Unsupported
    try:
        mod = importlib.import_module("props." + a.pid)
    except ModuleNotFoundError:
        print(f"no check for {a.pid}")
        return 3
    if a.replay:
        return mod.replay(a.replay)
    from props.registry import CLAIMS
    run = Run(a.pid, a.tier, seed, level=CLAIMS.get(a.pid, {}).get("category", "other"))
    try:
        mod.run(run)
        return run.finish(getattr(mod, "falsify", None) and (lambda g, info: mod.falsify(run, g, info)))
    except Exception:
        traceback.print_exc()
        print(f"CRASH property={a.pid}")
        return 3


if __name__ == "__main__":
    sys.exit(main())
