"""DynModel - semantics for *emitted* Python (stage 2): every value is a dynamically typed reference `Any`.

Objects are functional records: `o.a` is get(o, "a"); `o.a.b = v` rebinds the root name to a set(...) term.  A call of an
opaque callee appends a call record to the ghost call log and returns that record's result.  Library semantics that a
property relies on (proto-plus message algebra, api-core helpers) are *assumed contracts*: axioms stated by the property
module through add_axiom()/hooks and listed in its evidence.
"""
import ast
import z3
from .smt import Ref, NONE, fn, fresh
from .types import *        # noqa
from . import types as T
from .model import Model, FuncV, BUILTINS
from .pyvc import State, Outcome, Executor, Contract, assigned_names

ANY = ObjT("Any")
S = z3.StringSort()

get_ = fn("dyn.get", Ref, S, Ref)                 # attribute read
set_ = fn("dyn.set", Ref, S, Ref, Ref)            # functional attribute update
truthy_ = fn("dyn.truthy", Ref, z3.BoolSort())    # bool(x)
has_ = fn("dyn.has", Ref, S, z3.BoolSort())       # `'f' in msg`  (field presence, proto-plus)
item_ = fn("dyn.item", Ref, Ref, Ref)             # x[k]
strlit = fn("dyn.str", S, Ref)                    # a python str as a dynamic value
intlit = fn("dyn.int", z3.IntSort(), Ref)
boollit = fn("dyn.bool", z3.BoolSort(), Ref)
isinst_ = fn("dyn.isinstance", Ref, Ref, z3.BoolSort())
call_result = fn("call.result", Ref, Ref)
call_callee = fn("call.callee", Ref, Ref)
call_nargs = fn("call.nargs", Ref, z3.IntSort())
call_arg = fn("call.arg", Ref, z3.IntSort(), Ref)
call_kw = fn("call.kw", Ref, S, Ref)
call_haskw = fn("call.haskw", Ref, S, z3.BoolSort())


iter_ = fn("dyn.iter", Ref, Ref)                  # the sequence an iterable yields (Seq[Any])
yempty = z3.Const("stream.empty", Ref)
ysnoc = fn("stream.snoc", Ref, Ref, Ref)           # stream followed by one element
yprefix = fn("stream.prefix", Ref, Ref, z3.IntSort(), Ref)   # stream followed by the first j elements of a sequence


def _rule_yprefix(t):
    s, q, j = t.children()
    return [z3.Implies(j == 0, t == s),
            z3.Implies(j > 0, t == ysnoc(yprefix(s, q, j - 1), seq_at(q, j - 1, ANY)))]


def base_axioms():
    """Only non-quantified facts live here; the algebra of get/set/literals is applied by ground instantiation
    (`DynModel.ground_instances`): quantifier-free queries give decisive sat/unsat answers and usable counter-models."""
    return [z3.Not(truthy_(NONE)), z3.Not(truthy_(z3.Const("dyn.emptydict", Ref))), z3.Const("dyn.emptydict", Ref) != NONE]


def dget(o, p):
    """Read-over-write normal form of get_(o, p): resolves reads of set_(...) / ite(...) terms at construction time."""
    if isinstance(p, str):
        p = z3.StringVal(p)
    if z3.is_app(o):
        name = o.decl().name()
        if name == "dyn.set":
            o2, p2, v2 = o.children()
            if z3.is_string_value(p) and z3.is_string_value(p2):
                return v2 if p.as_string() == p2.as_string() else dget(o2, p)
            return z3.If(p2 == p, v2, dget(o2, p))
        if o.decl().kind() == z3.Z3_OP_ITE:
            c, a, b = o.children()
            return z3.If(c, dget(a, p), dget(b, p))
    return get_(o, p)


def _has_var(t, memo):
    k = t.get_id()
    if k in memo:
        return memo[k]
    if z3.is_var(t):
        r = True
    elif z3.is_quantifier(t):
        r = True
    else:
        r = any(_has_var(c, memo) for c in t.children())
    memo[k] = r
    return r


def subterms(formulas):
    """All ground application subterms (no bound variables), keyed by declaration name."""
    seen, out, memo = set(), {}, {}
    stack = list(formulas)
    while stack:
        t = stack.pop()
        k = t.get_id()
        if k in seen:
            continue
        seen.add(k)
        if z3.is_quantifier(t):
            stack.append(t.body())
            continue
        if z3.is_app(t):
            stack.extend(t.children())
            if t.num_args() > 0 and not _has_var(t, memo):
                out.setdefault(t.decl().name(), []).append(t)
    return out


def _rule_str(t):
    (a,) = t.children()
    return [truthy_(t) == (z3.Length(a) > 0), t != NONE, fn("dyn.unstr", Ref, S)(t) == a]


def _rule_int(t):
    (a,) = t.children()
    return [truthy_(t) == (a != 0), t != NONE, fn("dyn.unint", Ref, z3.IntSort())(t) == a]


def _rule_bool(t):
    (a,) = t.children()
    return [truthy_(t) == a, t != NONE]


def _rule_set(t):
    o, p, v = t.children()
    return [t != NONE, get_(t, p) == v]


def _rule_get(t):
    x, q = t.children()
    if z3.is_app(x) and x.decl().name() == "dyn.set":
        o, p, v = x.children()
        return [z3.If(p == q, t == v, t == get_(o, q))]
    if z3.is_app(x) and x.decl().name() == "if":
        c, a, b = x.children()
        return [z3.If(c, t == get_(a, q), t == get_(b, q))]
    return []


setitem_ = fn("dyn.setitem", Ref, Ref, Ref, Ref)
EMPTYDICT = z3.Const("dyn.emptydict", Ref)


def _rule_setitem(t):
    d, k, v = t.children()
    return [t != NONE, truthy_(t), item_(t, k) == v]


def _rule_item(t):
    x, k2 = t.children()
    if z3.is_app(x) and x.decl().name() == "dyn.setitem":
        d, k, v = x.children()
        return [z3.If(k == k2, t == v, t == item_(d, k2))]
    if z3.is_app(x) and x.decl().kind() == z3.Z3_OP_ITE:
        c, a, b = x.children()
        return [z3.If(c, t == item_(a, k2), t == item_(b, k2))]
    return []


GROUND_RULES = {"dyn.setitem": [_rule_setitem], "dyn.item": [_rule_item], "stream.prefix": [_rule_yprefix], "dyn.str": [_rule_str], "dyn.int": [_rule_int], "dyn.bool": [_rule_bool], "dyn.set": [_rule_set], "dyn.get": [_rule_get]}


class DynModel(Model):
    """Names not bound locally are opaque globals `g.<name>` (this includes the hole tokens of a rendered variant)."""

    def __init__(self):
        super().__init__()
        self.add_class("Any", {})
        for a in base_axioms():
            self.add_axiom(a)
        self.known_callables = {}      # dotted name -> handler(ex, args, kwargs, st, node) -> V
        self.self_name = "self"
        self.ground_rules = {k: list(v) for k, v in GROUND_RULES.items()}
        self.hole_strings = set()      # attribute names that are hole tokens: they denote string *variables* str.<token>
        self.yield_mode = "seq"        # "seq": indexable ghost log `_yielded`; "stream": abstract stream `_stream` (supports yield from)
        self.yield_checks = []         # (name, contract-language expression over the env + `_value`) checked at every yield

    def quantified_axioms(self):
        """The same algebra as the ground rules, as universally quantified axioms with triggers.  Used only in the E-matching
        pass of discharge (mbqi off): it can close goals that need congruence reasoning between the instances."""
        o, v = z3.Consts("qo qv", Ref)
        p, q = z3.Consts("qp qq", S)
        s_ = z3.Const("qs", S)
        i = z3.Int("qi")
        j = z3.Int("qj")
        b = z3.Bool("qb")
        st = z3.Const("qst", Ref)
        sq = z3.Const("qsq", Ref)
        ax = [
            z3.ForAll([o, p, v], get_(set_(o, p, v), p) == v, patterns=[set_(o, p, v)]),
            z3.ForAll([o, p, q, v], z3.Implies(p != q, get_(set_(o, p, v), q) == get_(o, q)), patterns=[get_(set_(o, p, v), q)]),
            z3.ForAll([o, p, v], set_(o, p, v) != NONE, patterns=[set_(o, p, v)]),
            z3.ForAll([s_], z3.And(truthy_(strlit(s_)) == (z3.Length(s_) > 0), strlit(s_) != NONE, fn("dyn.unstr", Ref, S)(strlit(s_)) == s_),
                      patterns=[strlit(s_)]),
            z3.ForAll([i], z3.And(truthy_(intlit(i)) == (i != 0), intlit(i) != NONE), patterns=[intlit(i)]),
            z3.ForAll([b], z3.And(truthy_(boollit(b)) == b, boollit(b) != NONE), patterns=[boollit(b)]),
            z3.ForAll([st, sq, j], z3.And(z3.Implies(j == 0, yprefix(st, sq, j) == st),
                                          z3.Implies(j > 0, yprefix(st, sq, j) == ysnoc(yprefix(st, sq, j - 1), seq_at(sq, j - 1, ANY)))),
                      patterns=[yprefix(st, sq, j)]),
        ]
        return ax + list(getattr(self, "extra_quantified_axioms", []))

    def add_ground_rule(self, decl_name, rule):
        """rule(term) -> list of ground facts; applied to every ground application of `decl_name` in a query."""
        self.ground_rules.setdefault(decl_name, []).append(rule)

    def ground_instances(self, formulas, rounds=10):
        facts, done = [], set()
        cur = list(formulas)
        # aliases: an opaque term known (by a top-level equation) to equal a set_(...) term is read through that term
        alias = {}
        for f in formulas:
            if z3.is_eq(f):
                a, b = f.children()
                for x, y in ((a, b), (b, a)):
                    if z3.is_app(y) and y.decl().name() == "dyn.set" and not (z3.is_app(x) and x.decl().name() == "dyn.set"):
                        alias[x.get_id()] = y
        if alias:
            extra = []
            for t in subterms(formulas).get("dyn.get", []):
                x, q = t.children()
                y = alias.get(x.get_id())
                if y is not None:
                    extra.append(t == dget(y, q))
            facts.extend(extra)
            cur = cur + extra
        for _ in range(rounds):
            new = []
            for name, terms in subterms(cur).items():
                for rule in self.ground_rules.get(name, ()):
                    for t in terms:
                        key = (id(rule), t.get_id())
                        if key in done:
                            continue
                        done.add(key)
                        new.extend(rule(t))
            if not new:
                break
            facts.extend(new)
            cur = new
        return facts

    def attr_term(self, name):
        if isinstance(name, str):
            return z3.Const("str." + name, S) if name in self.hole_strings else z3.StringVal(name)
        return name

    # ---- conversions --------------------------------------------------------------------------------------
    def dyn(self, ex, v):
        """Any V -> dynamic Ref value."""
        if v.ty == ANY or (is_ref(v.ty) and not isinstance(v.ty, NoneT)):
            return V(v.term, ANY)
        if v.ty is NONE_T:
            return V(NONE, ANY)
        if v.ty is STR:
            return V(strlit(v.term), ANY)
        if v.ty is INT:
            return V(intlit(v.term), ANY)
        if v.ty is BOOL:
            return V(boollit(v.term), ANY)
        if v.ty is TUPLE:
            t = V(fresh("tuple", Ref), ANY)
            return t
        if v.ty is PY:
            p = v.py
            if isinstance(p, tuple) and p and p[0] in ("emptylist", "emptydict"):
                return V(z3.Const("dyn." + p[0], Ref), ANY)
            return V(z3.Const("py." + str(abs(hash(repr(p))) % 10**8), Ref), ANY)
        raise Unsupported(f"cannot make {v!r} dynamic")

    def global_name(self, ex, name, st):
        v = super().global_name(ex, name, st)
        if v is not None and not (v.ty is PY and isinstance(v.py, tuple) and v.py and v.py[0] == "pytype" and name not in ("str", "int", "bool", "dict")):
            return v
        return V(z3.Const("g." + name, Ref), ANY)

    def truthy(self, ex, v):
        if v.ty == ANY:
            return truthy_(v.term)
        return None

    def getattr(self, ex, base, attr, st, node=None):
        if base.ty == ANY:
            return V(dget(base.term, self.attr_term(attr)), ANY)
        if base.ty is PY and isinstance(base.py, tuple) and base.py and base.py[0] == "dotted":
            return pyv(("dotted", base.py[1] + "." + attr))
        return super().getattr(ex, base, attr, st, node)

    def eq(self, ex, a, b, identity=False):
        if a.ty == ANY or b.ty == ANY:
            x, y = self.dyn(ex, a), self.dyn(ex, b)
            return x.term == y.term
        return super().eq(ex, a, b, identity)

    def contains(self, ex, container, item, st):
        if container.ty == ANY:
            if item.ty is STR:
                return has_(container.term, item.term)
            return fn("dyn.contains", Ref, Ref, z3.BoolSort())(container.term, self.dyn(ex, item).term)
        return None

    def subscript(self, ex, base, idx, st, node):
        if base.ty == ANY:
            return V(item_(base.term, self.dyn(ex, idx).term), ANY)
        return None

    def to_str(self, ex, v, st):
        if v.ty == ANY:
            return V(fn("dyn.to_str", Ref, S)(v.term), STR)
        return None

    # ---- mutation: rebind the root name --------------------------------------------------------------------
    def _root_path(self, node):
        """Attribute chain a.b.c -> ('a', ['b','c'])."""
        path = []
        while isinstance(node, ast.Attribute):
            path.append(node.attr)
            node = node.value
        if isinstance(node, ast.Name):
            return node.id, list(reversed(path))
        return None, None

    def setattr(self, ex, base, attr, val, st, node):
        root, path = self._root_path(node)
        if root is None or root not in st.env or st.env[root].ty != ANY:
            return False
        st.env[root] = V(self._set_path(st.env[root].term, path, self.dyn(ex, val).term), ANY)
        return True

    def _set_path(self, obj, path, val):
        if len(path) == 1:
            return set_(obj, self.attr_term(path[0]), val)
        inner = dget(obj, self.attr_term(path[0]))
        return set_(obj, self.attr_term(path[0]), self._set_path(inner, path[1:], val))

    def setitem(self, ex, base, idx, val, st, node):
        root, path = self._root_path(node.value)
        if root is None or root not in st.env or st.env[root].ty != ANY:
            return False
        cur = st.env[root].term
        for p in path:
            cur = dget(cur, self.attr_term(p))
        new = fn("dyn.setitem", Ref, Ref, Ref, Ref)(cur, self.dyn(ex, idx).term, self.dyn(ex, val).term)
        st.env[root] = V(self._set_path(st.env[root].term, path, new) if path else new, ANY)
        return True

    # ---- calls -------------------------------------------------------------------------------------------------
    def dotted(self, node):
        parts = []
        while isinstance(node, ast.Attribute):
            parts.append(node.attr)
            node = node.value
        if isinstance(node, ast.Name):
            parts.append(node.id)
            return ".".join(reversed(parts))
        return None

    def call_node(self, ex, e, st):
        if isinstance(e.func, ast.Name) and e.func.id in ("implies", "iff", "old", "forall", "exists") and e.func.id not in st.env:
            return super().call_node(ex, e, st)
        name = self.dotted(e.func)
        if name and name.split(".")[0] not in st.env or (name in self.known_callables):
            h = self.known_callables.get(name)
            if h is None and name:
                h = self.known_callables.get("*." + name.split(".")[-1])
            if h is not None:
                args = [ex.ev(a, st) for a in e.args]
                kwargs = {(k.arg if k.arg is not None else "**"): ex.ev(k.value, st) for k in e.keywords}
                return h(ex, args, kwargs, st, e)
            if isinstance(e.func, ast.Name) and (e.func.id in BUILTINS or e.func.id in self.specs):
                return super().call_node(ex, e, st)
        # method call on a dynamic object whose method name has a handler
        if isinstance(e.func, ast.Attribute):
            h = self.known_callables.get("." + e.func.attr)
            if h is not None:
                recv = ex.ev(e.func.value, st)
                args = [ex.ev(a, st) for a in e.args]
                kwargs = {k.arg: ex.ev(k.value, st) for k in e.keywords}
                return h(ex, [recv] + args, kwargs, st, e)
        fv = ex.ev(e.func, st)
        if fv.ty is PY:
            return super().call_node(ex, e, st)
        args = []
        for a in e.args:
            if isinstance(a, ast.Starred):
                raise Unsupported("*args in emitted code")
            args.append(ex.ev(a, st))
        kwargs = {}
        for k in e.keywords:
            if k.arg is None:
                raise Unsupported("**kwargs in emitted code")
            kwargs[k.arg] = ex.ev(k.value, st)
        return self.opaque_call(ex, fv, args, kwargs, st, e)

    def opaque_call(self, ex, fv, args, kwargs, st, node):
        rec = fresh("call", Ref)
        st.assume(rec != NONE)
        st.assume(call_callee(rec) == fv.term)
        st.assume(call_nargs(rec) == len(args))
        for i, a in enumerate(args):
            st.assume(call_arg(rec, i) == self.dyn(ex, a).term)
        for k, v in kwargs.items():
            st.assume(call_kw(rec, z3.StringVal(k)) == self.dyn(ex, v).term)
        kwnames = sorted(kwargs)
        q = z3.Const("kwq", S)
        st.assume(z3.ForAll([q], call_haskw(rec, q) == z3.Or([q == z3.StringVal(k) for k in kwnames] or [z3.BoolVal(False)])))
        self.log_call(ex, rec, st)
        return V(call_result(rec), ANY)

    def log_call(self, ex, rec, st):
        log = st.ghost.get("calls")
        if log is None:
            log = tup([])
        if log.ty is TUPLE:
            st.ghost["calls"] = tup(list(log.py) + [V(rec, ANY)])
        else:
            st.ghost["calls"] = self.seq_append(ex, log, V(rec, ANY), st)
        st.env["_calls"] = st.ghost["calls"]

    # ---- generators: ghost yield log -------------------------------------------------------------------------
    def do_yield(self, ex, node, st):
        if isinstance(node, ast.YieldFrom):
            return self.yield_from(ex, node, st)
        v = self.dyn(ex, ex.ev(node.value, st)) if node.value is not None else V(NONE, ANY)
        for name, expr in self.yield_checks:
            env = dict(st.env)
            env["_value"] = v
            t, extra, _ = self.eval_spec(ex, expr, env, st)
            for f in extra:
                st.assume(f)
            ex.oblige(f"{ex.fname}:at-yield:{name}@L{node.lineno}", st, t, node)
        if self.yield_mode == "stream":
            cur = st.env.get("_stream", V(yempty, ANY))
            st.env["_stream"] = V(ysnoc(cur.term, v.term), ANY)
            return [Outcome("fall", st)]
        log = st.env.get("_yielded")
        if log is None:
            log = tup([])
        if log.ty is TUPLE:
            st.env["_yielded"] = tup(list(log.py) + [v])
        else:
            st.env["_yielded"] = self.seq_append(ex, log, v, st)
        return [Outcome("fall", st)]

    def yield_from(self, ex, node, st):
        if self.yield_mode != "stream":
            raise Unsupported("yield from (seq mode)")
        x = self.dyn(ex, ex.ev(node.value, st))
        q = iter_(x.term)
        cur = st.env.get("_stream", V(yempty, ANY))
        st.assume(seq_len(q) >= 0)
        st.env["_stream"] = V(yprefix(cur.term, q, seq_len(q)), ANY)
        return [Outcome("fall", st)]

    def for_loop(self, ex, s, it, st):
        if it.ty == ANY:
            q = V(iter_(it.term), SeqT(ANY))
            st.assume(seq_len(q.term) >= 0)
            key = self.loop_key(ex, "for", s)
            return self.invariant_for(ex, s, key, q, lambda k: V(seq_at(q.term, k, ANY), ANY), st)
        return super().for_loop(ex, s, it, st)

    def havoc(self, ex, st, names, node):
        names = set(names)
        for g in ("_stream", "_yielded", "_calls"):
            if g in st.env:
                names.add(g)
        for name in names:
            root = name.split(".")[0]
            if root not in st.env:
                continue
            v = st.env[root]
            if v.ty is TUPLE and root in ("_yielded", "_calls"):
                v = self.tuple_to_seq(ex, v, st)
            if v.ty is PY or v.ty is TUPLE:
                raise Unsupported(f"loop at line {node.lineno} modifies python-side value {root}")
            nv = V(fresh("hv." + root, v.ty.sort()), v.ty)
            st.env[root] = nv
            if isinstance(v.ty, SeqT):
                st.assume(seq_len(nv.term) >= 0)
            if root == "_calls":
                st.ghost["calls"] = nv

    def make_list(self, ex, items, st):
        return tup(items)

    def make_dict(self, ex, pairs, st):
        if not pairs:
            return V(EMPTYDICT, ANY)
        return super().make_dict(ex, pairs, st)

    def isinstance_py(self, ex, v, name):
        if v.ty == ANY:
            return isinst_(v.term, z3.Const("g." + name, Ref))
        raise Unsupported("isinstance")

    def try_stmt(self, ex, s, st):
        raise Unsupported("try in emitted code")

    def ghosts_to_seq(self, ex, st):
        for g in ("_yielded", "_calls"):
            if g in st.env and st.env[g].ty is TUPLE:
                st.env[g] = self.tuple_to_seq(ex, st.env[g], st)
                if g == "_calls":
                    st.ghost["calls"] = st.env[g]

    def while_loop(self, ex, s, st):
        self.ghosts_to_seq(ex, st)
        return super().while_loop(ex, s, st)

    def invariant_for(self, ex, s, key, seq, elem, st):
        self.ghosts_to_seq(ex, st)
        return super().invariant_for(ex, s, key, seq, elem, st)

    def havoc_while(self, ex, st, names, node):
        return self.havoc(ex, st, names, node)

    def _old_havoc_while(self, ex, st, names, node):
        for name in list(names):
            root = name.split(".")[0]
            if root in st.env and st.env[root].ty == ANY:
                st.env[root] = V(fresh("hv." + root, Ref), ANY)
            elif root in st.env and isinstance(st.env[root].ty, SeqT):
                nv = V(fresh("hv." + root, Ref), st.env[root].ty)
                st.env[root] = nv
                st.assume(seq_len(nv.term) >= 0)
        for g in ("_yielded", "_calls"):
            if g in st.env:
                v = st.env[g]
                if v.ty is TUPLE:
                    v = self.tuple_to_seq(ex, v, st)
                nv = V(fresh("hv." + g, Ref), SeqT(ANY))
                st.env[g] = nv
                st.assume(seq_len(nv.term) >= 0)
                if g == "_calls":
                    st.ghost["calls"] = nv

    def tuple_to_seq(self, ex, t, st):
        s = V(fresh("seq", Ref), SeqT(ANY))
        st.assume(s.term != NONE)
        st.assume(seq_len(s.term) == len(t.py))
        for i, x in enumerate(t.py):
            st.assume(seq_at(s.term, z3.IntVal(i), ANY) == self.dyn(ex, x).term)
        return s


def _dyn_isinstance(model, ex, args, kwargs, st, node):
    v, c = args
    if v.ty == ANY:
        cs = c.py if c.ty is TUPLE else [c]
        parts = []
        for x in cs:
            parts.append(isinst_(v.term, model.dyn(ex, x).term) if x.ty == ANY else model.isinstance_py(ex, v, x.py[1]))
        return V(z3.Or(parts) if len(parts) > 1 else parts[0], BOOL)
    return _orig_isinstance(model, ex, args, kwargs, st, node)


_orig_isinstance = BUILTINS["isinstance"]
BUILTINS["isinstance"] = _dyn_isinstance
