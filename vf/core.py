"""Check driver: source extraction, function verification against a contract, discharge, evidence, exit codes."""
import ast, hashlib, json, os, re, sys, time, traceback
import z3
from .smt import check_sat, NONE, guarded_check
from .types import *       # noqa
from .pyvc import Executor, State, Outcome, Obligation, Contract

REPO = os.environ.get("VERIF_REPO", "/repo")
VERIF = os.path.dirname(os.path.dirname(os.path.abspath(__file__)))

_SRC_CACHE = {}


def read_source(rel):
    p = os.path.join(REPO, rel)
    if p not in _SRC_CACHE:
        with open(p) as f:
            src = f.read()
        _SRC_CACHE[p] = (src, ast.parse(src))
    return _SRC_CACHE[p]


def find_def(rel, qualname):
    """Locate a FunctionDef by qualified name 'Class.method' / 'func' / 'Class.method.inner' in the real source."""
    src, tree = read_source(rel)
    node = tree
    for part in qualname.split("."):
        found = None
        for n in ast.walk(node) if isinstance(node, (ast.FunctionDef, ast.AsyncFunctionDef)) else node.body:
            if isinstance(n, (ast.FunctionDef, ast.AsyncFunctionDef, ast.ClassDef)) and n.name == part and n is not node:
                found = n
                break
        if found is None:
            raise LookupError(f"{rel}:{qualname} not found (at {part!r})")
        node = found
    seg = ast.get_source_segment(src, node)
    return node, hashlib.sha256(seg.encode()).hexdigest()[:16]


class Result:
    """Per-obligation verdict."""

    def __init__(self, name, status, backend="", seconds=0.0, kind="smt", detail="", model=None, group=None):
        self.name, self.status, self.backend, self.seconds, self.kind, self.detail, self.model = \
            name, status, backend, seconds, kind, detail, model
        self.group = group or name      # contract clause this obligation belongs to

    def as_json(self):
        d = {"name": self.name, "status": self.status, "backend": self.backend, "seconds": round(self.seconds, 4), "kind": self.kind}
        if self.detail:
            d["detail"] = self.detail[:2000]
        return d


def model_summary(m, limit=40):
    if m is None:
        return ""
    out = []
    for d in m.decls()[:limit]:
        try:
            out.append(f"{d.name()} = {m[d]}")
        except Exception:
            pass
    return "; ".join(out)[:3000]


def skolemize(fs):
    """Replace existentials (incl. those of a negated universal goal) by skolem constants so that their witnesses are ground
    terms visible to ground instantiation.  Equisatisfiable."""
    g = z3.Goal()
    for f in fs:
        g.add(f)
    try:
        r = z3.Then(z3.Tactic("nnf"), z3.Tactic("snf"))(g)
        out = []
        for sub in r:
            out.extend(list(sub))
        if len(r) == 1:
            return out
    except z3.Z3Exception:
        pass
    return fs


def discharge(ob, axioms, timeout_ms, model=None):
    fs = list(axioms) + list(ob.hyps) + [z3.Not(ob.goal)]
    if model is not None and hasattr(model, "ground_instances"):
        fs = skolemize(fs)
        fs = fs + model.ground_instances(fs)
    v = check_sat(fs, timeout_ms)
    if v.status != "unsat" and model is not None and hasattr(model, "quantified_axioms"):
        # second pass: the algebra as quantified axioms, E-matching only (no model search): closes goals that need congruence
        # between instances; a failure here leaves the first verdict (a candidate counter-model of the ground-instantiated VC)
        t0 = time.time()
        s2 = z3.Solver()
        s2.set("smt.mbqi", False)
        s2.set(timeout=min(int(timeout_ms), 2000))
        for f in list(axioms) + list(model.quantified_axioms()) + list(ob.hyps) + [z3.Not(ob.goal)]:
            s2.add(f)
        if guarded_check(s2, min(int(timeout_ms), 2000))[0] == z3.unsat:
            from .smt import Verdict
            v = Verdict("unsat", "z3-ematch", v.seconds + time.time() - t0)
    if v.status == "unknown" and not (model is not None and hasattr(model, "quantified_axioms")):
        # quantifier-heavy goals: E-matching alone (no model-based instantiation) often closes what the default strategy wanders on
        t0 = time.time()
        s3 = z3.Solver()
        s3.set("smt.mbqi", False)
        s3.set(timeout=min(int(timeout_ms), 8000))
        for f in fs:
            s3.add(f)
        if guarded_check(s3, min(int(timeout_ms), 8000))[0] == z3.unsat:
            from .smt import Verdict
            v = Verdict("unsat", "z3-ematch", v.seconds + time.time() - t0)
    status = {"unsat": "discharged", "sat": "open", "unknown": "unknown"}[v.status]
    return Result(ob.name, status, v.backend, v.seconds, ob.kind,
                  detail=(model_summary(v.model) if v.status == "sat" else v.reason), model=v.model)


def _solve_smt2(args):
    smt2, timeout_ms, ematch = args
    import z3 as _z3, time as _t
    t0 = _t.time()
    ctx = _z3.Context()
    sol = _z3.Solver(ctx=ctx)
    sol.set(timeout=int(timeout_ms))
    if ematch:
        sol.set("smt.mbqi", False)
    try:
        sol.from_string(smt2)
        from .smt import guarded_check as _gc
        r, why = _gc(sol, timeout_ms)
        if r == _z3.sat:
            r = sol.check()
    except Exception as e:        # noqa
        return ("unknown", _t.time() - t0, "worker error: " + repr(e)[:200])
    dt = _t.time() - t0
    if r == _z3.unsat:
        return ("unsat", dt, "")
    if r == _z3.unknown and why:
        return ("unknown", dt, why)
    if r == _z3.sat:
        try:
            mtxt = "; ".join(f"{d.name()} = {sol.model()[d]}" for d in sol.model().decls()[:40])[:3000]
        except Exception:
            mtxt = ""
        return ("sat", dt, mtxt)
    return ("unknown", dt, sol.reason_unknown())


_POOL = None
_UNDISCHARGED = 0          # undischarged obligations seen so far in this run
_RETRY_SPENT = 0.0         # wall time spent re-examining undischarged queries in process (serial)


def pool():
    global _POOL
    if _POOL is None:
        import multiprocessing as mp
        n = int(os.environ.get("VERIF_JOBS", "0")) or min(16, os.cpu_count() or 4)
        _POOL = mp.get_context("fork").Pool(n)
    return _POOL


def discharge_many(obs, axioms, timeout_ms, model=None):
    """Discharge obligations in a process pool.  Each query is serialised to SMT-LIB; verdicts are the same as discharge()."""
    global _RETRY_SPENT, _UNDISCHARGED
    if _UNDISCHARGED > 40:
        # the run already carries dozens of undischarged obligations (it cannot end as "held"): the rest get a short budget so that a change
        # that breaks a whole fragment is reported in minutes, not after every query has run into its full timeout
        timeout_ms = min(timeout_ms, 2000)
    budget = max(180.0, 6 * timeout_ms / 1000.0)          # in-process (serial) re-examination, per run, over all calls
    if (len(obs) < 4 and _RETRY_SPENT <= budget) or os.environ.get("VERIF_JOBS") == "1":
        out = []
        for ob in obs:
            t1 = time.time()
            out.append(discharge(ob, axioms, timeout_ms, model))
            if out[-1].status != "discharged":
                _RETRY_SPENT += time.time() - t1
                _UNDISCHARGED += 1
        return out
    tasks = []
    for ob in obs:
        fs = list(axioms) + list(ob.hyps) + [z3.Not(ob.goal)]
        if model is not None and hasattr(model, "ground_instances"):
            fs = skolemize(fs)
            fs = fs + model.ground_instances(fs)
        sv = z3.Solver()
        for f in fs:
            sv.add(f)
        tasks.append((sv.to_smt2(), timeout_ms, False))
    outs = pool().map(_solve_smt2, tasks, chunksize=1)
    results = []
    retry = []
    for ob, (st_, dt, detail) in zip(obs, outs):
        status = {"unsat": "discharged", "sat": "open", "unknown": "unknown"}[st_]
        r = Result(ob.name, status, "z3", dt, ob.kind, detail=detail)
        results.append(r)
        if status != "discharged":
            retry.append(len(results) - 1)
    # anything not discharged is re-examined in process (cvc5 fall-back, E-matching pass, model objects for the falsifier)
    # The re-examination is serial, so it runs under a wall-clock budget: on a tree where the code is right only a handful of queries get
    # here; when a change breaks many obligations at once the remaining ones keep the pool's verdict (not discharged either way).
    _UNDISCHARGED += len(retry)
    for i in retry:
        if _RETRY_SPENT > budget:
            results[i].detail = (results[i].detail + " | not re-examined in process (retry budget of the run used up)").strip(" |")
            continue
        t1 = time.time()
        results[i] = discharge(obs[i], axioms, timeout_ms, model)
        _RETRY_SPENT += time.time() - t1
    return results


def verify_function(model, contract, timeout_ms=10000, body_override=None, extra_env=None, exclusions=None):
    """Symbolically execute the real function named by contract.source against the contract.
    Returns (results, info).  Raises Unsupported when the code leaves the subset."""
    rel, qual = contract.source
    if body_override is None:
        fdef, h = find_def(rel, qual)
    else:
        fdef, h = body_override
    from .smt import set_fresh_scope
    set_fresh_scope(contract.qualname)
    ex = Executor(model)
    ex.fname = contract.qualname
    ex.contract = contract
    ex.lenient = bool(getattr(contract, "lenient", False))
    st = State()
    env = {}
    for name, tystr in list(contract.params.items()) + list(contract.ghost.items()):
        ty = parse_type(tystr)
        v = V(z3.Const("arg." + name, ty.sort()), ty)
        env[name] = v
        if is_ref(ty) and not isinstance(ty, OptT):
            st.assume(v.term != NONE)
    for a in list(fdef.args.args) + list(fdef.args.kwonlyargs):
        if a.arg == "cls" and a.arg in model.globals and a.arg not in env:
            continue          # classmethod receiver bound to a class value by the model
        if a.arg not in env or a.arg in contract.ghost:
            raise Unsupported(f"{contract.qualname}: parameter {a.arg} has no type in the contract")
    st.env = env
    if extra_env:
        st.env.update(extra_env)
    for name, v in list(env.items()):
        model.type_facts(ex, v, st)
    for name in list(contract.params) + list(contract.ghost):
        st.env["old_" + name] = st.env[name]
    for r in list(contract.requires) + list(contract.definitional):
        t, extra, _ = model.eval_spec(ex, r, st.env, st)
        for f in extra:
            st.assume(f)
        st.assume(t)
    old_env = dict(st.env)
    outs = ex.run(fdef.body, st)
    missing = set(contract.ghost_code) - getattr(ex, "ghost_hits", set())
    if missing:
        raise Unsupported(f"{contract.qualname}: ghost anchor(s) not found in the code: {sorted(missing)}")
    obs = list(ex.obligations)
    n_ret = n_raise = 0
    for idx, o in enumerate(outs):
        penv = dict(old_env)
        if o.kind in ("fall", "return"):
            n_ret += 1
            val = o.value if o.kind == "return" else const(None)
            if contract.result is not None:
                rty0 = val.ty.inner if isinstance(val.ty, OptT) else val.ty
                val = ex.coerce(val, parse_type(contract.result))
                rty1 = val.ty.inner if isinstance(val.ty, OptT) else val.ty
                if isinstance(rty0, ObjT) and isinstance(rty1, ObjT) and rty0.name != rty1.name and model.classes.get(rty1.name, {}).get("_abstract") \
                        and rty0.name in model.subclasses(rty1.name):
                    # a value of a concrete class returned where the abstract base is declared keeps its dynamic class
                    o.state.assume(z3.Implies(val.term != NONE, model.isinstance_pred(rty0.name)(val.term)))
                    model.type_facts(ex, val, o.state)
            # final values of mutable parameters are visible to ensures under their own names, entry values as old_<name>
            fenv = dict(penv)
            # parameters are call-by-value: a postcondition speaks about their entry values, except for parameters listed in
            # `modifies` (mutated in place through the reference), which denote the final value, `old_<name>` the entry value
            for k2 in list(contract.params) + list(contract.ghost):
                if k2 in contract.modifies and k2 in o.state.env:
                    fenv[k2] = o.state.env[k2]
                fenv["old_" + k2] = old_env[k2]
            for i, e in enumerate(contract.ensures):
                t, extra, _ = model.eval_spec(ex, e, fenv, o.state, result=val)
                hyps = list(o.state.pc) + extra
                obs.append(Obligation(f"{contract.qualname}:ensures[{i}]:path{idx}", hyps, t, lineno=getattr(o.node, "lineno", None)))
            for exc, cond in contract.raises.items():
                t, extra, _ = model.eval_spec(ex, cond, penv, o.state)
                obs.append(Obligation(f"{contract.qualname}:raises[{exc}]:not-on-return:path{idx}", list(o.state.pc) + extra, z3.Not(t)))
        elif o.kind == "raise":
            n_raise += 1
            if o.exc in contract.raises:
                t, extra, _ = model.eval_spec(ex, contract.raises[o.exc], penv, o.state)
                obs.append(Obligation(f"{contract.qualname}:raises[{o.exc}]:only-when:path{idx}", list(o.state.pc) + extra, t))
            else:
                obs.append(Obligation(f"{contract.qualname}:no-unexpected-raise[{o.exc}]:path{idx}", list(o.state.pc), z3.BoolVal(False),
                                      lineno=getattr(o.node, "lineno", None)))
        else:
            raise Unsupported(f"{contract.qualname}: stray {o.kind} outcome")
    axioms = model.axioms()
    results = []
    first = discharge_many(obs, axioms, timeout_ms)
    for ob, r in zip(obs, first):
        r.group = group_of(ob.name)
        if r.status != "discharged" and exclusions and r.group in exclusions:
            # known finding: try again outside the listed input classes (section 2.9 of DESIGN.md)
            extra = []
            for cls in exclusions[r.group]:
                t, ex2, _ = model.eval_spec(ex, cls, old_env, State(ob.hyps, old_env))
                extra.extend(ex2)
                extra.append(z3.Not(t))
            r2 = discharge(Obligation(ob.name, list(ob.hyps) + extra, ob.goal), axioms, timeout_ms)
            if r2.status == "discharged":
                r2.status = "known"
                r2.group = r.group
                r2.detail = "discharged only outside the input classes of the known findings for this clause"
                r = r2
        results.append(r)
    # cover per clause: a postcondition of the form `forall ... implies(A, B)` is worth something only if A can hold on some return path.  If
    # `hyps |- forall ... (A -> False)` is provable on every path the proof of the clause is vacuous (contradictory invariants or assumptions,
    # or a clause that cannot apply): reported as undecided, never as held.
    ante = {}
    for ob, r in zip(obs, results):
        mt = re.search(r":ensures\[(\d+)\]:path\d+$", ob.name)
        if mt and r.status == "discharged":
            ag = antecedent_never(ob.goal)
            if ag is not None:
                ante.setdefault(int(mt.group(1)), []).append(Obligation(ob.name + ":antecedent-never", ob.hyps, ag))
    if ante:
        flat = [o_ for lst in ante.values() for o_ in lst]
        verdicts = dict(zip([o_.name for o_ in flat], discharge_quick(flat, axioms, 2500)))
        for i, lst in sorted(ante.items()):
            dead = all(verdicts[o_.name] for o_ in lst)
            results.append(Result(f"{contract.qualname}:ensures[{i}]:cover:antecedent-can-hold", "unknown" if dead else "discharged", "z3", 0.0, "cover",
                                  detail=("on every return path the hypotheses refute the antecedent of this clause: its proof is vacuous "
                                          "(contradictory invariants / assumptions, or a clause that never applies)") if dead else "",
                                  group=f"{contract.qualname}:ensures[{i}]"))
    # cover: the end of the function is reachable under the precondition (non-vacuity)
    reach = False
    for o in sorted(outs, key=lambda o: len(o.state.pc)):
        v = check_sat(axioms + o.state.pc, 1500, want_model=False, use_cvc5=False)
        if v.status != "unsat":       # sat, or not shown contradictory within the budget
            reach = True
            break
    results.append(Result(f"{contract.qualname}:cover:no-dead-end", "open" if ex.dead_ends else "discharged", "z3", 0.0, "cover",
                          detail=("assumptions became contradictory before line(s) %s: obligations there are vacuous" % ex.dead_ends) if ex.dead_ends else "",
                          group=f"{contract.qualname}:cover"))
    results.append(Result(f"{contract.qualname}:cover:some-path-feasible", "discharged" if reach else "open", "z3", 0.0, "cover",
                          group=f"{contract.qualname}:cover"))
    if getattr(ex, "havoced", None):
        model.assumptions.append(f"{contract.qualname}: safety-only mode, havoc'ed calls: " + "; ".join(ex.havoced[:12]))
    info = {"qualname": contract.qualname, "source": f"{rel}:{qual}", "sha256_16": h, "lines": [fdef.lineno, fdef.end_lineno], "havoced": getattr(ex, "havoced", [])[:20],
            "paths": len(outs), "return_paths": n_ret, "raise_paths": n_raise, "obligations": len(obs)}
    return results, info


def antecedent_never(t):
    """For a goal `forall xs. A -> (forall ys. B -> C)` the formula `forall xs. A -> (forall ys. B -> False)`; None if the goal has no antecedent."""
    if z3.is_quantifier(t) and t.is_forall():
        vs = [z3.Const(f"{t.var_name(i)}!an{t.get_id()}", t.var_sort(i)) for i in range(t.num_vars())]
        body = z3.substitute_vars(t.body(), *reversed(vs))
        inner = antecedent_never(body)
        return None if inner is None else z3.ForAll(vs, inner)
    if z3.is_implies(t):
        a, b = t.arg(0), t.arg(1)
        inner = antecedent_never(b)
        return z3.Implies(a, inner if inner is not None else z3.BoolVal(False))
    return None


def discharge_quick(obs, axioms, timeout_ms):
    """True per obligation iff proved within the (short) budget; plain z3 in the pool, no retries."""
    tasks = []
    for ob in obs:
        sv = z3.Solver()
        for f in list(axioms) + list(ob.hyps) + [z3.Not(ob.goal)]:
            sv.add(f)
        tasks.append((sv.to_smt2(), timeout_ms, False))
    if len(tasks) < 3 or os.environ.get("VERIF_JOBS") == "1":
        outs = [_solve_smt2(t_) for t_ in tasks]
    else:
        outs = pool().map(_solve_smt2, tasks, chunksize=1)
    return [o[0] == "unsat" for o in outs]


def group_of(name):
    """Clause-level name: drop the trailing ':pathN' so that a verdict is reported per contract clause."""
    import re
    parts = [re.sub(r"@L\d+$", "", p) for p in name.split(":")]
    parts = [p for p in parts if not re.fullmatch(r"path\d+", p)]
    return ":".join(parts)


# ---------------------------------------------------------------------------------------------------------------
class Run:
    """One invocation of a property check: collects results, writes evidence, maps to the exit-code protocol."""

    def __init__(self, pid, tier, seed, level="proof"):
        self.pid, self.tier, self.seed, self.level = pid, tier, seed, level
        self.t0 = time.time()
        self.results = []
        self.functions = []
        self.fragments = []
        self.assumptions = []
        self.bounded = []
        self.unsupported = []
        self.samples = []
        self.notes = []
        self.not_decided = []
        self.violations = []           # (obligation group, replay path, had_input)
        self.known = []
        self.timeout_ms = 10000 if tier == "quick" else 60000
        self.witness_check = None      # callable(known finding entry) -> True if the recorded witness still fails on the real code

    def add(self, results, info=None, kind=None):
        self.results.extend(results)
        if info:
            (self.fragments if kind == "fragment" else self.functions).append(info)

    def verify(self, model, contract, **kw):
        """Verify one real function against its contract; an unsupported construct makes the run undecided."""
        try:
            excl = {}
            for k in load_known_findings().get(self.pid, []):
                if k.get("class"):
                    excl.setdefault(k["obligation"], []).append(k["class"])
            results, info = verify_function(model, contract, self.timeout_ms, exclusions=excl, **kw)
            self.add(results, info)
            return results
        except Unsupported as e:
            self.unsupported.append(f"{contract.qualname}: {e}")
        except LookupError as e:
            self.unsupported.append(f"{contract.qualname}: {e}")
        return []

    def native_standin(self, module, func="scenarios", what="", group=None):
        """Bounded stand-in that runs on every invocation: the property's native scenario corpus (real generator, generated library driven
        over loopback fakes) in a fresh interpreter.  A failure that is not a listed known finding is a violation with a concrete input."""
        from .genlab import run_isolated
        group = group or f"native.{self.pid}:scenarios"
        try:
            f = run_isolated(module, func)
        except Exception as e:         # noqa
            text = str(e)
            files = re.findall(r'File "([^"]+)", line \d+', text)
            last = files[-1] if files else ""
            if last and (last.startswith(REPO.rstrip("/") + "/") or "/genlab_" in last):
                # the corpus died inside the generator or while importing / running the generated library: a concrete failing input
                tail = text.strip().splitlines()[-1][:300] if text.strip() else ""
                unexplained = [{"what": "the scenario corpus crashed inside the generator or the generated library", "where": last, "error": tail}]
                self.bounded.append({"what": what or f"native scenario corpus {module}.{func}", "cases": 0, "failures": 1, "unexplained": unexplained})
                self.results.append(Result(group, "open", "native", 0.0, "bounded", detail=json.dumps(unexplained)[:1500], group=group))
                self._native_unexplained = (getattr(self, "_native_unexplained", None) or []) + unexplained
                self._native_by_group = dict(getattr(self, "_native_by_group", {}), **{group: unexplained})
                self.notes.append(f"native stand-in {module}.{func} crashed in code under test: {text[-1200:]}")
                return None
            self.notes.append(f"native stand-in {module}.{func} crashed: {e!r}"[:1500])
            self.unsupported.append(f"native stand-in {module}.{func} crashed")
            return None
        fails = f["failures"] if isinstance(f, dict) else f
        cases = f.get("cases", len(fails)) if isinstance(f, dict) else len(fails)
        kf = {k.get("witness") for k in load_known_findings().get(self.pid, []) if isinstance(k.get("witness"), str)}
        unexplained = [x for x in fails if not (x.get("known") and x.get("known") in kf)]
        self.bounded.append({"what": what or f"native scenario corpus {module}.{func}", "cases": cases, "failures": len(fails), "unexplained": unexplained[:4]})
        self.results.append(Result(group, "open" if unexplained else "discharged", "native", 0.0, "bounded",
                                   detail=json.dumps(unexplained[:3], default=str)[:1500], group=group))
        self._native_unexplained = (getattr(self, "_native_unexplained", None) or []) + unexplained       # over all corpora of the run
        self._native_by_group = dict(getattr(self, "_native_by_group", {}), **{group: unexplained})
        return f

    def assume(self, *texts):
        for t in texts:
            if t not in self.assumptions:
                self.assumptions.append(t)

    def table(self, name, ok, detail="", group=None):
        """A finite-table / structural obligation decided by evaluation."""
        self.results.append(Result(name, "discharged" if ok else "open", "eval", 0.0, "table", detail=detail, group=group or name))

    def open_groups(self):
        groups = {}
        for r in self.results:
            g = groups.setdefault(r.group, {"open": [], "unknown": [], "known": [], "n": 0})
            g["n"] += 1
            if r.status in ("open", "unknown", "known"):
                g[r.status].append(r)
        return groups

    def finish(self, falsifier=None):
        """Write evidence, print VIOLATION / KNOWN-FINDING lines, return the exit code."""
        kf = load_known_findings().get(self.pid, [])
        groups = self.open_groups()
        undecided = []
        exit_code = 0
        for g, info in sorted(groups.items()):
            if not info["open"] and not info["unknown"] and not info["known"]:
                continue
            known = [k for k in kf if k["obligation"] == g]
            if known and not info["open"] and not info["unknown"]:
                # every path of the clause is proved outside the listed classes; confirm each witness is still a real failure
                still = []
                for k in known:
                    ok = True
                    if self.witness_check is not None:
                        try:
                            ok = bool(self.witness_check(k))
                        except Exception:
                            ok = False
                            self.notes.append("witness check crashed: " + traceback.format_exc()[-500:])
                    if ok:
                        print(f"KNOWN-FINDING: property={self.pid} {k['what']}")
                        self.known.append(k)
                        still.append(k)
                    else:
                        self.notes.append(f"witness of known finding no longer fails: {k['what']}")
                if still:
                    continue
            if known and not any(k.get("class") for k in known) and (info["open"] or info["unknown"]):
                # finding identified by a concrete witness only (no class predicate): suppressed only if that witness still fails
                # and the falsifier (which skips listed witnesses) finds no other failing input for this clause
                wit_ok = []
                for k in known:
                    try:
                        if self.witness_check is None or self.witness_check(k):
                            wit_ok.append(k)
                    except Exception:
                        self.notes.append("witness check crashed: " + traceback.format_exc()[-500:])
                other = (None, False)
                # (failing inputs of the always-on native corpus that no listed finding explains are reported under the native group itself;
                # they are not attributed to this clause a second time)
                if falsifier is not None and not getattr(self, "_native_unexplained", None):
                    try:
                        other = falsifier(g, info)
                    except Exception:
                        self.notes.append("falsifier crashed on " + g + ": " + traceback.format_exc()[-800:])
                if wit_ok and not other[1]:
                    for k in wit_ok:
                        print(f"KNOWN-FINDING: property={self.pid} {k['what']}")
                        self.known.append(k)
                    continue
            replay = None
            found_input = False
            if g.startswith("native.") and getattr(self, "_native_by_group", {}).get(g):
                replay, found_input = {"kind": "native", "failures": self._native_by_group[g][:6]}, True
            elif g.startswith("native.") and getattr(self, "_native_unexplained", None):
                replay, found_input = {"kind": "native", "failures": self._native_unexplained[:6]}, True
            elif falsifier is not None:
                try:
                    replay, found_input = falsifier(g, info)
                except Exception:
                    self.notes.append("falsifier crashed on " + g + ": " + traceback.format_exc()[-800:])
            shape_only = bool(info["open"]) and all(is_shape_obligation(r) for r in info["open"]) and not found_input
            if shape_only:
                # the source no longer has the shape this obligation was stated over (an AST / template-source pattern) and no failing input
                # was found: the code may have been refactored harmlessly - undecided, not a violation
                path = write_replay(self.pid, g, info, replay, False)
                self.notes.append(f"shape obligation(s) of {g} no longer match the source and no failing input was found (replay {path})")
                undecided.append(g + " (source shape changed; no failing input found)")
            elif info["open"] or found_input:
                path = write_replay(self.pid, g, info, replay, found_input)
                tail = "" if found_input else " no-failing-input-found"
                print(f"VIOLATION property={self.pid} replay={path}{tail}")
                self.violations.append((g, path, found_input))
                exit_code = 1
            else:
                undecided.append(g)
        if self.unsupported and falsifier is not None and exit_code == 0:
            # code left the verifiable subset: the bounded native search may still exhibit a concrete failing input (a real violation)
            try:
                replay, found_input = falsifier("*", {"open": [], "unknown": [], "known": []})
            except Exception:
                replay, found_input = None, False
                self.notes.append("falsifier crashed: " + traceback.format_exc()[-800:])
            if found_input:
                path = write_replay(self.pid, "unsupported-code:bounded-native-search", {"open": [], "unknown": []}, replay, True)
                print(f"VIOLATION property={self.pid} replay={path}")
                self.violations.append(("unsupported-code", path, True))
                exit_code = 1
        if self.unsupported or (undecided and exit_code == 0):
            for u in self.unsupported:
                print(f"UNDECIDED property={self.pid} unsupported: {u}")
            for g in undecided:
                if g.endswith("no failing input found)"):
                    print(f"UNDECIDED property={self.pid} {g}")
                else:
                    print(f"UNDECIDED property={self.pid} solver gave no verdict on {g}")
            if exit_code == 0:
                exit_code = 2
        self.write_evidence(exit_code, undecided)
        n = len(self.results)
        d = sum(1 for r in self.results if r.status == "discharged")
        print(f"{self.pid} [{self.tier}] obligations={n} discharged={d} open={sum(1 for r in self.results if r.status=='open')} "
              f"unknown={sum(1 for r in self.results if r.status=='unknown')} bounded={len(self.bounded)} known_findings={len(self.known)} "
              f"wall={time.time()-self.t0:.1f}s exit={exit_code}")
        return exit_code

    def write_evidence(self, exit_code, undecided):
        n = len(self.results)
        d = sum(1 for r in self.results if r.status == "discharged")
        n_known = sum(1 for r in self.results if r.status == "known")
        by_backend = {}
        for r in self.results:
            by_backend.setdefault(r.backend or "-", [0, 0.0])
            by_backend[r.backend or "-"][0] += 1
            by_backend[r.backend or "-"][1] += r.seconds
        proof_ok = (n > 0 and d == n and not self.unsupported and not self.known)
        level = self.level if (self.level != "proof" or proof_ok) else "other"
        cov = {
            "obligations": n, "discharged": d,
            "checker_cmd": f"./check {self.pid} --tier {self.tier}",
            "trusted_base": ["pyvc encoding of Python semantics (vf/pyvc.py, vf/model.py)", "z3 5.1 / cvc5 soundness"] + self.assumptions,
            "explanation": self.explanation(n, d, undecided),
            "evaluations": max(n, 1), "distinct_nontrivial": max(len({r.group for r in self.results}), 2 if n >= 2 else 0),
            "rule": "one evaluation = one proof obligation (VC) generated from /repo's current source; distinct = distinct contract clauses",
            "samples": self.samples[:12] or [r.as_json() for r in self.results[:8]],
            "functions_under_contract": self.functions,
            "fragments_under_contract": self.fragments,
            "solver_seconds_by_backend": {k: {"obligations": v[0], "seconds": round(v[1], 3)} for k, v in by_backend.items()},
            "bounded": self.bounded,
            "unsupported": self.unsupported,
            "undecided": undecided,
            "known_findings": self.known,
            "not_decided_clauses": self.not_decided,
            "open_obligations": [r.as_json() for r in self.results if r.status != "discharged"][:50],
            "obligation_list": [r.as_json() for r in self.results][:400],
            "notes": self.notes,
        }
        ev = {"property_id": self.pid, "tier": self.tier, "seed": self.seed, "level": level, "coverage": cov,
              "assumptions": self.assumptions, "wall_s": round(time.time() - self.t0, 2),
              "violations": len(self.violations)}
        evdir = os.environ.get("VERIF_EVIDENCE_DIR") or os.path.join(VERIF, "evidence")
        os.makedirs(evdir, exist_ok=True)
        with open(os.path.join(evdir, f"{self.pid}.json"), "w") as f:
            json.dump(ev, f, indent=1, default=str)

    def explanation(self, n, d, undecided):
        return (f"{d} of {n} obligations discharged ({len(self.functions)} functions and {len(self.fragments)} emitted fragments under contract); "
                f"{len(self.bounded)} bounded stand-ins (never counted as proved); {len(self.known)} known findings; "
                f"{len(self.unsupported)} unsupported; clauses not decided: {'; '.join(self.not_decided) or 'none'}")


def load_known_findings():
    p = os.path.join(VERIF, "known_findings.json")
    out = {}
    if os.path.exists(p):
        for k in json.load(open(p)).get("findings", []):
            out.setdefault(k["property"], []).append(k)
    return out


SHAPE_KINDS = {"ast", "jinja-ast", "structural", "table"}


def is_shape_obligation(r):
    """Obligations stated over the *shape of the source* (a statement of a function body, a template's source text): a mismatch means the
    code changed shape, which a harmless refactoring also does.  Per-variant obligations on emitted code (`:v<k>:` in the name), SMT
    obligations, determinism findings, render checks and evaluated tables are not shape obligations."""
    import re as _re
    if r.name.endswith(":render-safe") or ":render-safe:" in r.name:
        # the fragment could not be rendered symbolically (an undefined name inside a region cut out of its template, a filter the proxies do not
        # model ...): a limit of the fragment renderer unless the real generator fails too - and then the native corpus supplies the failing input
        return True
    if r.kind not in SHAPE_KINDS and r.backend not in ("ast", "jinja-ast"):
        return False
    if _re.search(r":v\d+(:|$)", r.name):
        return False
    return r.kind in ("structural", "table") and (r.backend in ("ast", "jinja-ast", "eval"))


def write_replay(pid, group, info, replay, found_input):
    d = os.path.join(VERIF, "replays", pid)
    os.makedirs(d, exist_ok=True)
    safe = "".join(ch if ch.isalnum() or ch in "._-" else "_" for ch in group)[:120]
    path = os.path.join(d, safe + ".json")
    doc = {"property": pid, "obligation": group, "failing_input_found": bool(found_input),
           "open": [r.as_json() for r in info["open"]][:10], "unknown": [r.as_json() for r in info["unknown"]][:10],
           "replay": replay}
    with open(path, "w") as f:
        json.dump(doc, f, indent=1, default=str)
    return path
