"""Verification of emitted fragments: render symbolically (j2sym), parse + compile each variant, execute it with pyvc over
the dynamic model, and hand the property's obligations to the solver."""
import ast, hashlib, textwrap
import z3
from .pyvc import Executor, State, Obligation
from .core import Result, discharge, group_of
from .types import *      # noqa


def parse_variant(text, wrap_def=None):
    """Emitted text -> ast.Module.  `compile()` is part of the obligation: symbol-table errors (duplicate parameters,
    return outside function) are only raised there."""
    src = textwrap.dedent(text)
    if wrap_def:
        src = wrap_def + "\n" + textwrap.indent(src, "    ")
    tree = ast.parse(src)
    compile(tree, "<emitted>", "exec")
    return tree, src


def exec_emitted(model, body, env, fname="fragment", contract=None, ghost=None):
    ex = Executor(model)
    ex.fname = fname
    ex.contract = contract
    st = State(env=dict(env), ghost=ghost)
    outs = ex.run(body, st)
    if ex.dead_ends:
        raise Unsupported(f"{fname}: assumptions became contradictory before line(s) {ex.dead_ends} (vacuity alarm)")
    return ex, outs


def prove_all(run, model, obligations, group=None):
    """Discharge a list of (name, hyps, goal) and add the verdicts to the run."""
    from .core import discharge_many
    axioms = model.axioms()
    obs = [Obligation(name, hyps, goal) for name, hyps, goal in obligations]
    res = discharge_many(obs, axioms, run.timeout_ms, model)
    for (name, _, _), r in zip(obligations, res):
        r.group = group or group_of(name)
    run.results.extend(res)
    return res


def frag_info(template, anchor, variants, text_sample=""):
    h = hashlib.sha256("\n".join(v.text for v in variants).encode()).hexdigest()[:16]
    return {"template": template, "anchor": anchor, "variants": len(variants),
            "render_errors": sum(1 for v in variants if v.error), "emitted_sha256_16": h}


def cover(run, model, name, hyps, group=None):
    """Non-vacuity: the hypotheses of a path are satisfiable (an `assert False` planted there would be refuted)."""
    from .smt import check_sat
    fs = model.axioms() + list(hyps)
    if hasattr(model, "ground_instances"):
        fs = fs + model.ground_instances(fs)
    v = check_sat(fs, 1500, want_model=False)
    r = Result(name, "discharged" if v.status != "unsat" else "open", v.backend, v.seconds, "cover",
               detail=("" if v.status == "sat" else "solver gave no model within 1.5 s (not shown contradictory)") if v.status != "unsat" else "hypotheses are contradictory: the obligations on this path are vacuous")
    r.group = group or group_of(name)
    run.results.append(r)
    return r
