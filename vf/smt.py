"""Solver layer: sorts, uninterpreted-function registry, prove() with z3 first and cvc5 as second back end."""
import os, subprocess, tempfile, time
import z3

Ref = z3.DeclareSort("Ref")           # every reference-like value: objects, None, sequences, maps, sets, boxed primitives
NONE = z3.Const("None", Ref)

_FUNCS = {}


def fn(name, *sorts):
    """Memoised uninterpreted function `name : sorts[:-1] -> sorts[-1]`."""
    key = name
    f = _FUNCS.get(key)
    if f is None:
        f = z3.Function(name, *sorts)
        _FUNCS[key] = f
    else:
        have = [f.domain(i) for i in range(f.arity())] + [f.range()]
        if [s.sexpr() for s in have] != [s.sexpr() for s in sorts]:
            raise TypeError(f"function {name} redeclared with different sorts: {have} vs {list(sorts)}")
    return f


_fresh_counter = [0]


FRESH_LOG = []          # every fresh constant, in creation order (used to lift constants created under a bound variable to functions of it)


_fresh_scope = [""]
_scope_uses = {}


def set_fresh_scope(name):
    """Names of fresh constants restart per verified function (scope = function name + how often it was verified in this process), so that the
    text of a function's verification conditions - and with it the solver's behaviour - does not depend on what was verified before it."""
    k = _scope_uses.get(name, 0)
    _scope_uses[name] = k + 1
    _fresh_scope[0] = f"{name}#{k}!" if k else f"{name}!"
    _fresh_counter[0] = 0


def fresh(prefix, sort):
    _fresh_counter[0] += 1
    c = z3.Const(f"{prefix}!{_fresh_scope[0]}{_fresh_counter[0]}", sort)
    FRESH_LOG.append(c)
    return c


def lift_fresh(mark, bound_vars, exprs):
    """Constants created since `mark` were created while evaluating an expression under the bound variables: each stands for a value
    that may differ per binding, so it is replaced by an application of a new function to the bound variables."""
    new = FRESH_LOG[mark:]
    bound_ids = {v.get_id() for v in bound_vars}
    subs = []
    for c in new:
        if c.get_id() in bound_ids:
            continue
        f = z3.Function(c.decl().name() + "!fn", *[v.sort() for v in bound_vars], c.sort())
        subs.append((c, f(*bound_vars)))
    if not subs:
        return exprs
    return [z3.substitute(e, *subs) for e in exprs]


def sort_name(s):
    return s.sexpr().replace(" ", "_").replace("(", "").replace(")", "")


CVC5_BIN = "/usr/bin/cvc5"


class Verdict:
    __slots__ = ("status", "backend", "seconds", "model", "reason")

    def __init__(self, status, backend, seconds, model=None, reason=""):
        self.status = status          # 'unsat' (goal valid) | 'sat' (counter-model) | 'unknown'
        self.backend = backend
        self.seconds = seconds
        self.model = model
        self.reason = reason


def guarded_check(solver, timeout_ms):
    """solver.check() under a hard wall-clock limit.  z3's own timeout is cooperative and its sequence solver occasionally never polls it
    (observed: 18 min at 100 % CPU on a 10 s budget), so the check runs in a forked child that is killed at 1.5 x budget + 5 s; the child's
    verdict is returned.  'sat' is re-run in this process only when the caller needs the model object (it terminated once within budget).
    Returns (z3.CheckSatResult, reason)."""
    import select
    if os.environ.get("VERIF_NO_GUARD") == "1":
        r = solver.check()
        return r, (solver.reason_unknown() if r == z3.unknown else "")
    rd, wr = os.pipe()
    pid = os.fork()
    if pid == 0:
        code = 1
        try:
            os.close(rd)
            r = solver.check()
            msg = str(r) + ("|" + solver.reason_unknown() if r == z3.unknown else "")
            os.write(wr, msg.encode()[:400])
            code = 0
        finally:
            os._exit(code)
    os.close(wr)
    limit = int(timeout_ms) / 1000.0 * 1.5 + 5.0
    data = b""
    try:
        ready, _, _ = select.select([rd], [], [], limit)
        if ready:
            data = os.read(rd, 512)
        else:
            try:
                os.kill(pid, 9)
            except OSError:
                pass
            data = b"unknown|z3 ignored its timeout; killed after %.0f s" % limit
    finally:
        os.close(rd)
        try:
            os.waitpid(pid, 0)
        except OSError:
            pass
    head, _, reason = data.decode(errors="replace").partition("|")
    if head == "unsat":
        return z3.unsat, ""
    if head == "sat":
        return z3.sat, ""
    return z3.unknown, reason or "solver process died"


def check_sat(assertions, timeout_ms=10000, want_model=True, use_cvc5=True):
    """Satisfiability of the conjunction. z3 first; `unknown` goes to cvc5 (CLI) with the same budget."""
    t0 = time.time()
    s = z3.Solver()
    s.set(timeout=int(timeout_ms))
    for a in assertions:
        s.add(a)
    r, reason = guarded_check(s, timeout_ms)
    if r == z3.sat and want_model and os.environ.get("VERIF_NO_GUARD") != "1":
        r = s.check()                       # same query, terminated within budget a moment ago: this time for the model object
        reason = s.reason_unknown() if r == z3.unknown else ""
    dt = time.time() - t0
    if r == z3.unsat:
        return Verdict("unsat", "z3", dt)
    if r == z3.sat:
        return Verdict("sat", "z3", dt, s.model() if want_model else None)
    if use_cvc5 and os.path.exists(CVC5_BIN):
        v = _cvc5(s, timeout_ms)
        if v is not None:
            v.seconds += dt
            return v
    return Verdict("unknown", "z3", dt, None, reason)


def _cvc5(solver, timeout_ms):
    smt2 = solver.to_smt2()
    t0 = time.time()
    with tempfile.NamedTemporaryFile("w", suffix=".smt2", delete=False) as f:
        f.write("(set-logic ALL)\n" + smt2)
        path = f.name
    try:
        p = subprocess.run([CVC5_BIN, "--strings-exp", f"--tlimit={int(timeout_ms)}", path],
                           capture_output=True, text=True, timeout=timeout_ms / 1000 + 5)
        out = p.stdout.strip().splitlines()
        head = out[0] if out else ""
    except Exception as e:                                        # noqa
        return None
    finally:
        os.unlink(path)
    dt = time.time() - t0
    if head == "unsat":
        return Verdict("unsat", "cvc5", dt)
    if head == "sat":
        return Verdict("sat", "cvc5", dt, None, "cvc5 sat (no model transferred)")
    return None


def prove(hyps, goal, timeout_ms=10000):
    """Validity of hyps => goal. status 'unsat' means proved."""
    return check_sat(list(hyps) + [z3.Not(goal)], timeout_ms)


def forall(vs, body, patterns=None):
    """ForAll with triggers where z3 accepts them (terms with ite / arithmetic are not valid patterns)."""
    if patterns and not any(_has_interp(p) for p in patterns):
        try:
            return z3.ForAll(vs, body, patterns=patterns)
        except z3.Z3Exception:
            pass
    return z3.ForAll(vs, body)


def _has_interp(t, _memo=None):
    """True if the term contains ite/arithmetic/boolean structure (not allowed inside a trigger)."""
    if z3.is_app(t):
        k = t.decl().kind()
        if k in (z3.Z3_OP_ITE, z3.Z3_OP_LT, z3.Z3_OP_LE, z3.Z3_OP_GT, z3.Z3_OP_GE, z3.Z3_OP_AND, z3.Z3_OP_OR, z3.Z3_OP_NOT, z3.Z3_OP_EQ):
            return True
        return any(_has_interp(c) for c in t.children())
    return False
