"""Class table of the gapic schema wrappers (closed world: an attribute chain not listed here is unsupported).

Types mirror the attributes the code under contract actually reads.  Attributes that are @property / cached_property in
/repo and have a *proved* contract in a property module get their ensures assumed on access (callee-by-contract);
those without are uninterpreted accessors = universally quantified input, and are reported as such in the evidence.
"""
import z3
from .smt import Ref, NONE, fn
from .types import *       # noqa
from .model import Model, FuncV
from .pyvc import Contract


class SchemaModel(Model):
    def __init__(self):
        super().__init__()
        A = self.add_class
        # ---- protobuf descriptors (input; uninterpreted)
        A("FieldPb", {"name": "Str", "number": "Int", "type": "Int", "label": "Int", "type_name": "Str", "json_name": "Str",
                      "proto3_optional": "Bool", "oneof_index": "Int", "options": "FieldOptions"})
        A("FieldOptions", {})
        A("MessagePb", {"name": "Str", "options": "MessageOptions"})
        A("MessageOptions", {"map_entry": "Bool"})
        A("MethodPb", {"name": "Str", "input_type": "Str", "output_type": "Str", "client_streaming": "Bool",
                       "server_streaming": "Bool", "options": "MethodOptions"})
        A("MethodOptions", {"deprecated": "Bool", "Extensions": "ExtMap"})
        A("ExtMap", {})
        A("HttpRulePb", {"get": "Str", "put": "Str", "post": "Str", "delete": "Str", "patch": "Str", "custom": "CustomHttpPb", "body": "Str",
                         "additional_bindings": "Seq[HttpRulePb]"})
        A("CustomHttpPb", {"kind": "Str", "path": "Str"})
        self.extensions = {"google.api.http": "HttpRulePb", "google.api.method_signature": "Seq[Str]"}
        self.add_axiom(seq_len(z3.Const("seq.empty", Ref)) == 0)
        self.add_axiom(z3.Const("seq.empty", Ref) != NONE)
        A("ServicePb", {"name": "Str"})
        A("EnumPb", {"name": "Str"})
        # ---- metadata
        A("Address", {"name": "Str", "module": "Str", "module_path": "Seq[Int]", "package": "Seq[Str]", "parent": "Seq[Str]",
                      "proto": "Str", "proto_package": "Str", "is_proto_plus_type": "Bool", "api_naming": "Naming",
                      "collisions": "Set[Str]", "resolve": "method", "sphinx": "Str", "module_alias": "Str", "python_import": "Import"})
        A("Metadata", {"address": "Address", "doc": "Str"})
        A("Naming", {"proto_package": "Str", "module_name": "Str", "version": "Str", "name": "Str"})
        A("Import", {})
        # ---- wrappers
        A("AnyType", {}, truthy="always")
        self.classes["AnyType"]["_abstract"] = True
        A("Field", {"field_pb": "FieldPb", "message": "Opt[MessageType]", "enum": "Opt[EnumType]", "meta": "Metadata",
                    "oneof": "Opt[Str]",
                    "name": "Str", "repeated": "Bool", "required": "Bool", "uuid4": "Bool", "map": "Bool", "type": "AnyType",
                    "is_primitive": "Bool", "proto_type": "Str", "resource_reference": "Opt[Str]", "ident": "FieldIdentifier"},
          forward="field_pb")
        A("FieldIdentifier", {})
        A("MessageType", {"message_pb": "MessagePb", "fields": "Map[Str,Field]", "nested_enums": "Map[Str,EnumType]",
                          "nested_messages": "Map[Str,MessageType]", "meta": "Metadata", "oneofs": "Opt[Map[Str,Oneof]]",
                          "ident": "Address", "map": "Bool", "resource_path": "Opt[Str]", "resource_type": "Opt[Str]",
                          "resource_type_full_path": "Opt[Str]", "required_fields": "Seq[Field]"},
          forward="message_pb", bases=["AnyType"])
        A("Oneof", {})
        A("EnumType", {"enum_pb": "EnumPb", "meta": "Metadata", "ident": "Address"}, forward="enum_pb", bases=["AnyType"])
        A("PrimitiveType", {"meta": "Metadata", "python_type": "PyType", "ident": "Address"}, bases=["AnyType"])
        A("PyType", {})
        A("Method", {"method_pb": "MethodPb", "input": "MessageType", "output": "MessageType", "meta": "Metadata",
                     "lro": "Opt[OperationInfo]", "extended_lro": "Opt[ExtendedOperationInfo]", "is_internal": "Bool",
                     "ident": "Address", "paged_result_field": "Opt[Field]", "client_method_name": "Str",
                     "transport_safe_name": "Str", "void": "Bool",
                     "_validate_paged_field_size_type": "method"},
          forward="method_pb")
        A("OperationInfo", {"response_type": "MessageType", "metadata_type": "MessageType"})
        A("ExtendedOperationInfo", {"request_type": "MessageType", "operation_type": "MessageType"})
        A("Service", {"service_pb": "ServicePb", "methods": "Map[Str,Method]", "meta": "Metadata"}, forward="service_pb")
        A("API", {"all_methods": "Map[Str,Method]", "messages": "Map[Str,MessageType]", "services": "Map[Str,Service]",
                  "service_yaml_config": "ServiceYaml", "enforce_valid_method_settings": "method"})
        A("ServiceYaml", {"publishing": "Publishing"})
        A("Publishing", {"method_settings": "Seq[MethodSettings]"})
        A("MethodSettings", {"selector": "Str", "auto_populated_fields": "Seq[Str]"})
        A("Opaque", {})
        self.opaque_natives = {"yaml.dump": "Str", "yaml.__init__.dump": "Str"}
        self.add_contract(Contract("PrimitiveType.build", params={"primitive_type": "PyType"}, result="PrimitiveType", kind="assumed",
                                   ensures=["isinstance(result, PrimitiveType)", "result.python_type is primitive_type"],
                                   note="used by contract here; the same two clauses are proved on the real classmethod in props/C07.py (verify_primitive_build)"))

    # PrimitiveType.__eq__(bare python type): `self.python_type is other`; dataclass __eq__ of the other wrappers
    # returns NotImplemented for a bare type, i.e. `==` is False.  (Modelled, cross-checked natively, not proved.)
    def eq_pytype(self, ex, x, tname, identity):
        ty = x.ty.inner if isinstance(x.ty, OptT) else x.ty
        if isinstance(ty, ObjT) and ty.name == "PyType":
            return x.term == self.pytype_consts[tname]
        if identity:
            return z3.BoolVal(False)
        if isinstance(ty, ObjT) and (self.is_subclass(ty.name, "AnyType") or ty.name == "AnyType"):
            pt = fn("PrimitiveType.python_type", Ref, Ref)(x.term)
            return z3.And(x.term != NONE, self.instance_of(x, "PrimitiveType"), pt == self.pytype_consts[tname])
        raise Unsupported(f"comparison of {x!r} with bare type {tname}")

    def eq(self, ex, a, b, identity=False):
        r = super().eq(ex, a, b, identity)
        if r is not None or identity:
            return r
        fam = lambda v: isinstance(v.ty.inner if isinstance(v.ty, OptT) else v.ty, ObjT) and \
            ((v.ty.inner if isinstance(v.ty, OptT) else v.ty).name in ("AnyType", "MessageType", "EnumType", "PrimitiveType"))
        if fam(a) and fam(b):
            # PythonType.__eq__ compares `meta`; PrimitiveType.build(t).meta is a function of t alone.  Equality between two
            # non-primitive wrappers is structural in Python and is left uninterpreted here (reflexive).
            pa, pb = self.instance_of(a, "PrimitiveType"), self.instance_of(b, "PrimitiveType")
            pt = fn("PrimitiveType.python_type", Ref, Ref)
            weq = fn("wrapper.eq", Ref, Ref, z3.BoolSort())
            return z3.If(z3.Or(pa, pb), z3.And(pa, pb, pt(a.term) == pt(b.term)), z3.Or(a.term == b.term, weq(a.term, b.term)))
        return None

    def global_name(self, ex, name, st):
        v = super().global_name(ex, name, st)
        if v is not None:
            return v
        if name in ("utils", "keyword", "metadata", "descriptor_pb2", "field_behavior_pb2", "dataclasses", "collections", "wrappers"):
            return pyv(("module", name))
        natives = {"annotations_pb2": "google.api.annotations_pb2", "client_pb2": "google.api.client_pb2", "routing_pb2": "google.api.routing_pb2",
                   "resource_pb2": "google.api.resource_pb2", "field_info_pb2": "google.api.field_info_pb2", "re": "re"}
        if name in natives:
            import importlib
            from .model import Native
            return pyv(Native(importlib.import_module(natives[name])))
        if name == "yaml":
            import yaml
            from .model import Native
            return pyv(Native(yaml))
        if name in ("MethodSettingsError", "ClientLibrarySettingsError", "TypeError", "ValueError", "KeyError"):
            return pyv(("excclass", name))
        return None

    def subscript(self, ex, base, idx, st, node):
        from .model import Native
        if isinstance(base.ty, ObjT) and base.ty.name == "ExtMap" and idx.ty is PY and isinstance(idx.py, Native):
            full = getattr(idx.py.obj, "full_name", None)
            if full in self.extensions:
                ty = parse_type(self.extensions[full])
                # base.term is `<Class>.Extensions(options)`: key the accessor on the options object itself
                opts = base.term.arg(0) if z3.is_app(base.term) and base.term.num_args() == 1 else base.term
                v = V(fn("ext." + full, Ref, ty.sort())(opts), ty)
                self.type_facts(ex, v, st)
                return v
            raise Unsupported(f"extension {full} not in the schema table")
        return super().subscript(ex, base, idx, st, node)

    def obj_getattr(self, ex, base, attr, st, node):
        if base.ty.name == "PrimitiveType" and attr == "python_type":
            return V(fn("PrimitiveType.python_type", Ref, Ref)(base.term), ObjT("PyType"))
        return super().obj_getattr(ex, base, attr, st, node)
