"""Python regular expressions (as parsed by the stdlib's own sre parser) -> z3 regular-language terms.
Used for *ground* obligations: language inclusion / equivalence of two concrete regexes, decided by z3.
Semantics modelled: `.` excludes newline (no DOTALL); anchors ^/$ are handled by the caller (fullmatch semantics; `$` before a
final newline is NOT modelled and is reported as an assumption where it matters)."""
import z3
try:
    import re._parser as sre_parse
except ImportError:      # pragma: no cover
    import sre_parse

SS = z3.StringSort()
RS = z3.ReSort(SS)
ANYCHAR = z3.AllChar(RS)


def chars(cs):
    cs = list(cs)
    if len(cs) == 1:
        return z3.Re(cs[0])
    return z3.Union(*[z3.Re(c) for c in cs])


def notchars(cs):
    return z3.Intersect(ANYCHAR, z3.Complement(chars(cs)))


CATEGORY = {
    "CATEGORY_DIGIT": z3.Range("0", "9"),
    "CATEGORY_WORD": z3.Union(z3.Range("a", "z"), z3.Range("A", "Z"), z3.Range("0", "9"), z3.Re("_")),
    "CATEGORY_SPACE": chars([" ", "\t", "\n", "\r", "\x0b", "\x0c"]),
}


def _in(items):
    neg = str(items[0][0]) == "NEGATE"
    if neg:
        items = items[1:]
    parts = []
    for op, av in items:
        op = str(op)
        if op == "LITERAL":
            parts.append(z3.Re(chr(av)))
        elif op == "RANGE":
            parts.append(z3.Range(chr(av[0]), chr(av[1])))
        elif op == "CATEGORY":
            name = str(av)
            if name.startswith("CATEGORY_NOT_"):
                parts.append(z3.Intersect(ANYCHAR, z3.Complement(CATEGORY["CATEGORY_" + name[len("CATEGORY_NOT_"):]])))
            else:
                parts.append(CATEGORY[name])
        else:
            raise NotImplementedError(f"class item {op}")
    r = parts[0] if len(parts) == 1 else z3.Union(*parts)
    return z3.Intersect(ANYCHAR, z3.Complement(r)) if neg else r


def tr(seq):
    parts = []
    for op, av in seq:
        op = str(op)
        if op == "LITERAL":
            parts.append(z3.Re(chr(av)))
        elif op == "ANY":
            parts.append(notchars(["\n"]))
        elif op == "NOT_LITERAL":
            parts.append(notchars([chr(av)]))
        elif op == "IN":
            parts.append(_in(av))
        elif op in ("MAX_REPEAT", "MIN_REPEAT"):
            lo, hi, sub = av
            s = tr(sub)
            if str(hi) == "MAXREPEAT":
                parts.append(z3.Star(s) if lo == 0 else (z3.Plus(s) if lo == 1 else z3.Concat(*([s] * lo + [z3.Star(s)]))))
            elif lo == 0 and hi == 1:
                parts.append(z3.Option(s))
            else:
                parts.append(z3.Loop(s, lo, hi))
        elif op == "SUBPATTERN":
            parts.append(tr(av[3]))
        elif op == "BRANCH":
            parts.append(z3.Union(*[tr(b) for b in av[1]]))
        elif op == "AT":
            pass
        elif op == "CATEGORY":
            parts.append(CATEGORY[str(av)])
        else:
            raise NotImplementedError(op)
    if not parts:
        return z3.Re("")
    return parts[0] if len(parts) == 1 else z3.Concat(*parts)


def language(pattern):
    """Language of strings the pattern matches *entirely* (anchors dropped)."""
    return tr(sre_parse.parse(pattern))


def match_language(pattern):
    """Language of the strings s for which `re.compile(pattern).match(s)` succeeds: anchored at the start by `match` itself; anchored at the
    end only if the pattern says so (`$` / `\\Z` as its last item) - otherwise any continuation is accepted.  (`$` before a trailing newline
    is not modelled: callers intersect with newline-free strings.)"""
    items = list(sre_parse.parse(pattern))
    end_anchored = bool(items) and str(items[-1][0]) == "AT" and str(items[-1][1]) in ("AT_END", "AT_END_STRING")
    core = tr(items)
    return core if end_anchored else z3.Concat(core, z3.Full(z3.ReSort(z3.StringSort())))


def _check(sol, timeout_ms):
    """check() under the hard wall-clock guard; a sat verdict is re-run here for the witness."""
    from .smt import guarded_check
    r, _ = guarded_check(sol, timeout_ms)
    if r == z3.sat:
        r = sol.check()
    return r


def equivalent(a, b, timeout_ms=20000):
    """-> ('unsat' = equivalent | 'sat' | 'unknown', witness string or None)"""
    s = z3.String("w")
    sol = z3.Solver()
    sol.set(timeout=timeout_ms)
    sol.add(z3.InRe(s, a) != z3.InRe(s, b))
    r = _check(sol, timeout_ms)
    if r == z3.sat:
        return "sat", sol.model()[s].as_string()
    return ("unsat" if r == z3.unsat else "unknown"), None


def included(a, b, timeout_ms=20000):
    """L(a) subset of L(b)?"""
    s = z3.String("w")
    sol = z3.Solver()
    sol.set(timeout=timeout_ms)
    sol.add(z3.InRe(s, a), z3.Not(z3.InRe(s, b)))
    r = _check(sol, timeout_ms)
    if r == z3.sat:
        return "sat", sol.model()[s].as_string()
    return ("unsat" if r == z3.unsat else "unknown"), None
