"""E-j2: symbolic rendering of the real Jinja templates with the generator's own environment.

`Sym(path)` proxies stand for schema objects; `str()` of a proxy is a hole token (identifier-shaped); every question jinja
asks of a proxy (truthiness, ==, in, len, iteration) is answered by a decision oracle and the driver enumerates all
decision vectors depth-first.  Each rendering yields a Variant (decisions, emitted text, hole table).  Fragments are
addressed structurally: a macro by name, or a region of a macro/template body cut out of the Jinja AST.
"""
import os, re
import jinja2
from jinja2 import nodes

from .core import REPO


class Oracle:
    def __init__(self, script, maxlen=2):
        self.script = list(script)
        self.i = 0
        self.log = []          # (key, value, options)
        self.memo = {}
        self.maxlen = maxlen

    def decide(self, key, options):
        if key in self.memo:
            return self.memo[key]
        v = self.script[self.i] if self.i < len(self.script) else options[0]
        self.i += 1
        self.log.append((key, v, tuple(options)))
        self.memo[key] = v
        return v


class Ctx:
    oracle = None
    holes = None       # token -> path
    rev = None         # path -> token
    maxlen = 2
    fixed = None       # dict: decision key -> forced value (invariants / scenario)


def hole(path):
    tok = Ctx.rev.get(path)
    if tok is None:
        tok = "H%d_" % len(Ctx.holes)
        Ctx.holes[tok] = path
        Ctx.rev[path] = tok
    return tok


def _decide(key, options):
    if Ctx.fixed and key in Ctx.fixed:
        return Ctx.fixed[key]
    return Ctx.oracle.decide(key, options)


def _p(x):
    return x._p if isinstance(x, Sym) else repr(x)


class HoleStr(str):
    """Hole token as a str subclass: comparisons and tests on it are decisions, derived strings remember provenance."""
    _p = ""

    def __new__(cls, path):
        s = super().__new__(cls, hole(path))
        s._p = path
        return s

    def __eq__(self, o):
        if isinstance(o, HoleStr) and o._p == self._p:
            return True
        return _decide(("eq", self._p, _p(o) if isinstance(o, (Sym, HoleStr)) else repr(o)), [False, True])

    def __ne__(self, o):
        return not self.__eq__(o)

    def __hash__(self):
        return hash(self._p)

    def startswith(self, x, *a):
        return _decide(("startswith", self._p, repr(x)), [False, True])

    def endswith(self, x, *a):
        return _decide(("endswith", self._p, repr(x)), [False, True])

    def __contains__(self, x):
        return _decide(("in", repr(x), self._p), [False, True])

    def replace(self, a, b, *c):
        return HoleStr(f"{self._p}.replace({a!r},{b!r})")

    def lower(self):
        return HoleStr(f"{self._p}.lower()")

    def split(self, *a):
        return Sym(f"{self._p}.split({','.join(map(repr, a))})")


class Sym:
    def __init__(self, path):
        object.__setattr__(self, "_p", path)

    def __getattr__(self, name):
        if name.startswith("__") and name != "__name__":
            raise AttributeError(name)
        if name in JOINED_ATTRS:
            return JoinedSeq(f"{self._p}.{name}")
        return Sym(f"{self._p}.{name}")

    def __call__(self, *a, **k):
        args = ",".join([_p(x) for x in a] + [f"{n}={_p(v)}" for n, v in k.items()])
        return Sym(f"{self._p}({args})")

    def __getitem__(self, k):
        return Sym(f"{self._p}[{_p(k)}]")

    def __str__(self):
        return hole(self._p)

    def __html__(self):
        return str(self)

    def __bool__(self):
        return _decide(("bool", self._p), [False, True])

    def __eq__(self, o):
        if isinstance(o, Sym) and o._p == self._p:
            return True
        return _decide(("eq", self._p, _p(o)), [False, True])

    def __ne__(self, o):
        return not self.__eq__(o)

    def __hash__(self):
        return hash(self._p)

    def __contains__(self, o):
        return _decide(("in", _p(o), self._p), [False, True])

    def __len__(self):
        return _decide(("len", self._p), list(range(Ctx.maxlen + 1)))

    def __iter__(self):
        n = _decide(("len", self._p), list(range(Ctx.maxlen + 1)))
        for i in range(n):
            if self._p.endswith(".items()") or "|dictsort" in self._p.rsplit(".", 1)[-1]:
                yield (Sym(f"{self._p}[{i}].k"), Sym(f"{self._p}[{i}].v"))
            else:
                yield Sym(f"{self._p}[{i}]")

    def __add__(self, o):
        return Sym(f"({self._p}+{_p(o)})")

    def __radd__(self, o):
        return Sym(f"({_p(o)}+{self._p})")

    def __lt__(self, o):
        return _decide(("lt", self._p, _p(o)), [False, True])

    def __gt__(self, o):
        return _decide(("gt", self._p, _p(o)), [False, True])

    def __or__(self, o):
        return Sym(f"({self._p}|{_p(o)})")


JOINED_ATTRS = {"package"}      # tuple-of-str attributes that templates only ever use as sep.join(x)


class JoinedSeq(Sym):
    """A tuple of strings that is only consumed by `sep.join(...)`: iterating yields ONE hole standing for the joined text."""

    def __iter__(self):
        yield HoleStr(self._p + "|joined")

    def __len__(self):
        return 1


class MappedSeq(Sym):
    """`seq|map(attribute="a.b")` over a proxy sequence: the elements are the attributes of the elements (same provenance as `x.a.b` in a loop)."""

    def __init__(self, base, attr):
        super().__init__(f"{base._p}|map(attribute={attr!r})")
        object.__setattr__(self, "_base", base)
        object.__setattr__(self, "_attr", attr)

    def __iter__(self):
        for item in self._base:
            cur = item
            for part in self._attr.split("."):
                cur = getattr(cur, part)
            yield cur

    def __len__(self):
        return len(self._base)


def _map_filter(f):
    pass_arg = getattr(f, "jinja_pass_arg", None)

    def g(*args, **k):
        idx = 1 if pass_arg is not None else 0
        x = args[idx] if len(args) > idx else None
        if isinstance(x, Sym) and len(args) == idx + 1 and set(k) == {"attribute"} and isinstance(k["attribute"], str):
            return MappedSeq(x, k["attribute"])
        return generic(*args, **k)
    generic = _generic_filter("map", f)
    if pass_arg is not None:
        g.jinja_pass_arg = pass_arg
    return g


def wrap_filter(name, f):
    def g(x, *a, **k):
        if isinstance(x, (Sym, HoleStr)):
            suffix = ""
            if a or k:
                suffix = "(" + ",".join([_p(v) if isinstance(v, (Sym, HoleStr)) else repr(v) for v in a] +
                                        [f"{n}={_p(v) if isinstance(v, (Sym, HoleStr)) else repr(v)}" for n, v in sorted(k.items())]) + ")"
            return Sym(f"{x._p}|{name}{suffix}")
        return f(x, *a, **k)
    g.__wrapped__ = f
    return g


PASS_ENV_FILTERS = {"join", "sort", "map", "selectattr", "rejectattr", "dictsort", "first", "last", "list", "unique", "length", "count",
                    "string", "replace", "trim", "indent", "lower", "upper", "title", "capitalize", "select", "reject", "sum", "int",
                    "default", "d", "batch", "reverse"}


def make_env(template_dir=None):
    """The environment `Generator(Options.build(""))` constructs, with filters/tests wrapped for proxies."""
    from gapic.generator.generator import Generator
    from gapic.utils import Options
    g = Generator(Options.build(f"python-gapic-templates={template_dir}" if template_dir else ""))
    env = g._env
    for name in list(env.filters):
        f = env.filters[name]
        if name in ("indent", "trim"):
            env.filters[name] = _text_filter(name, f)
        elif name in ("string",):
            env.filters[name] = lambda x, _f=f: HoleStr(x._p) if isinstance(x, Sym) else _f(x)
        elif name == "join":
            env.filters[name] = _join_filter(f)
        elif name in ("length", "count"):
            env.filters[name] = lambda x, _f=f: len(x) if isinstance(x, Sym) else _f(x)
        elif name == "list":
            env.filters[name] = lambda x, _f=f: x if isinstance(x, Sym) else _f(x)
        elif name == "first":
            env.filters[name] = _first_filter(f)
        elif name == "map":
            env.filters[name] = _map_filter(f)
        else:
            env.filters[name] = _generic_filter(name, f)
    for name in ("none", "defined", "undefined", "string", "mapping", "iterable", "sequence"):
        t = env.tests[name]
        env.tests[name] = (lambda x, _t=t, _n=name: _decide(("test", _n, x._p), [False, True]) if isinstance(x, Sym) else _t(x))
    return env


def _generic_filter(name, f):
    pass_env = getattr(f, "jinja_pass_arg", None)

    def g(*args, **k):
        # jinja passes the environment/context first for pass_environment/pass_context filters
        idx = 1 if pass_env is not None else 0
        x = args[idx] if len(args) > idx else None
        if isinstance(x, (Sym, HoleStr)):
            a = args[idx + 1:]
            suffix = ""
            if a or k:
                suffix = "(" + ",".join([_p(v) if isinstance(v, (Sym, HoleStr)) else repr(v) for v in a] +
                                        [f"{n}={_p(v) if isinstance(v, (Sym, HoleStr)) else repr(v)}" for n, v in sorted(k.items())]) + ")"
            if name in ("lower", "upper", "capitalize") and not suffix:
                return Sym(f"{x._p}.{name}()")          # the filter is the str method: one provenance for both spellings
            return Sym(f"{x._p}|{name}{suffix}")
        return f(*args, **k)
    if pass_env is not None:
        g.jinja_pass_arg = pass_env
    return g


def _text_filter(name, f):
    pass_env = getattr(f, "jinja_pass_arg", None)

    def g(*args, **k):
        idx = 1 if pass_env is not None else 0
        x = args[idx]
        if isinstance(x, Sym):
            args = list(args)
            args[idx] = str(x)
        return f(*args, **k)
    if pass_env is not None:
        g.jinja_pass_arg = pass_env
    return g


def _join_filter(f):
    pass_env = getattr(f, "jinja_pass_arg", None)

    def g(*args, **k):
        idx = 1 if pass_env is not None else 0
        x = args[idx]
        if isinstance(x, Sym):
            sep = args[idx + 1] if len(args) > idx + 1 else k.get("d", "")
            attr = k.get("attribute")
            items = list(x)
            return str(sep).join(str(getattr(i, attr) if attr else i) for i in items)
        return f(*args, **k)
    if pass_env is not None:
        g.jinja_pass_arg = pass_env
    return g


def _first_filter(f):
    pass_env = getattr(f, "jinja_pass_arg", None)

    def g(*args, **k):
        idx = 1 if pass_env is not None else 0
        x = args[idx]
        if isinstance(x, Sym):
            n = len(x)
            if n == 0:
                return args[0].undefined("No first item, sequence was empty.") if pass_env is not None else None
            return Sym(f"{x._p}[0]")
        return f(*args, **k)
    if pass_env is not None:
        g.jinja_pass_arg = pass_env
    return g


class Variant:
    def __init__(self, decisions, text, holes, error=None):
        self.decisions = decisions      # list of (key, value)
        self.text = text
        self.holes = holes              # token -> path
        self.error = error

    def d(self, key, default=None):
        for k, v in self.decisions:
            if k == key:
                return v
        return default

    def hole_for(self, path):
        for t, p in self.holes.items():
            if p == path:
                return t
        return None


def explore(render, maxlen=2, maxruns=20000, fixed=None, prune=None):
    """Depth-first enumeration of decision vectors. `prune(decisions)` may veto infeasible vectors (schema invariants)."""
    results = []
    stack = [[]]
    runs = 0
    while stack:
        script = stack.pop()
        runs += 1
        if runs > maxruns:
            raise RuntimeError(f"more than {maxruns} renderings")
        Ctx.oracle = Oracle(script, maxlen)
        Ctx.holes, Ctx.rev = {}, {}
        Ctx.maxlen = maxlen
        Ctx.fixed = fixed
        err = None
        try:
            out = render()
        except Exception as e:         # a rendering that raises is a variant too (render-safety)
            out, err = "", f"{type(e).__name__}: {e}"
        log = list(Ctx.oracle.log)
        decisions = [(k, v) for k, v, _ in log]
        for j in range(len(script), len(log)):
            key, v, options = log[j]
            for alt in options:
                if alt != v:
                    stack.append([d[1] for d in log[:j]] + [alt])
        if prune is not None and not prune(dict(decisions)):
            continue
        results.append(Variant(decisions, out, dict(Ctx.holes), err))
    return results


# ---------------------------------------------------------------------------------------------------------------
def template_source(env, name):
    return env.loader.get_source(env, name)[0]


def parse(env, name, mutate=None):
    src = template_source(env, name)
    if mutate:
        src = mutate(src)
    return env.parse(src, name, name)


def find_macro(tree, name):
    for m in tree.find_all(nodes.Macro):
        if m.name == name:
            return m
    raise LookupError(f"macro {name} not found")


def has_data(node, text):
    return any(text in d.data for d in node.find_all(nodes.TemplateData))


def compile_macro(env, tree, macro_args, body, name="region", tname="<region>"):
    """Compile a list of Jinja body nodes as a stand-alone macro of a fresh template (imports of the source kept)."""
    imports = [n for n in tree.body if isinstance(n, (nodes.Import, nodes.FromImport))]
    imports += [n for n in tree.body if isinstance(n, nodes.Macro) and n.name != name]      # sibling macros stay callable
    args = [nodes.Name(a, "param") for a in macro_args]
    macro = nodes.Macro(name, args, [], list(body), lineno=1)
    new_tree = nodes.Template(imports + [macro], lineno=1)
    new_tree.set_environment(env)
    code = env.compile(new_tree, tname, tname)
    tmpl = jinja2.Template.from_code(env, code, env.make_globals(None), None)
    return getattr(tmpl.module, name)


def macro_callable(env, template_name, macro_name):
    return getattr(env.get_template(template_name).module, macro_name)


SERVICE_DIR = "%namespace/%name_%version/%sub/services/%service/"


def expr_path(node):
    """Dotted source of a Jinja Name/Getattr chain (None for anything else)."""
    if isinstance(node, nodes.Name):
        return node.name
    if isinstance(node, nodes.Getattr):
        base = expr_path(node.node)
        return None if base is None else f"{base}.{node.attr}"
    return None


def if_branches(if_node):
    """[(test path or 'else', body)] of an if/elif/else chain."""
    out = [(expr_path(if_node.test), if_node.body)]
    for e in if_node.elif_:
        out.append((expr_path(e.test), e.body))
    if if_node.else_:
        out.append(("else", if_node.else_))
    return out


def find_branch(root, test_path):
    """Body of the first if/elif branch under `root` whose test is exactly the attribute chain `test_path`."""
    for n in root.find_all(nodes.If):
        for t, body in if_branches(n):
            if t == test_path:
                return body
    return None


def container_consistent(d):
    """Schema invariant that follows from Python's container semantics alone: a mapping/sequence is truthy iff it is non-empty,
    and its items()/values()/keys() views have its length."""
    lens = {}
    for k, v in d.items():
        if k[0] == "len":
            base = k[1]
            for suf in (".items()", ".values()", ".keys()"):
                if base.endswith(suf):
                    base = base[:-len(suf)]
            if base in lens and lens[base] != v:
                return False
            lens[base] = v
    for k, v in d.items():
        if k[0] == "bool" and k[1] in lens and bool(v) != (lens[k[1]] > 0):
            return False
    return True


def render_nodes(env, tree, body, params, maxlen=2, fixed=None, prune=container_consistent):
    """Render a list of Jinja nodes as a region with the given parameter names bound to Sym proxies of the same name."""
    body = with_enclosing_sets(tree, body, params)
    mac = compile_macro(env, tree, params, body)
    return explore(lambda: str(mac(*[Sym(p) for p in params])), maxlen=maxlen, fixed=fixed, prune=prune)


def with_enclosing_sets(tree, body, params):
    """A region cut out of a template may read variables bound by `{% set x = ... %}` statements that precede it in an enclosing scope: those
    statements (transitively) are put in front of the region, in template order.  Names that are bound nowhere stay undefined."""
    body = list(body)
    if not body:
        return body
    first = min((getattr(n, "lineno", 10 ** 9) for n in body), default=10 ** 9)
    inside = {id(x) for n in body for x in n.find_all(nodes.Node)} | {id(n) for n in body}

    def loads(ns):
        return {x.name for n in ns for x in ([n] if isinstance(n, nodes.Name) else []) + list(n.find_all(nodes.Name)) if x.ctx == "load"}

    def stores(ns):
        return {x.name for n in ns for x in n.find_all(nodes.Name) if x.ctx in ("store", "param")}
    have = set(params) | stores(body)
    want = loads(body) - have
    chosen = []
    assigns = [a for a in tree.find_all(nodes.Assign) if isinstance(a.target, nodes.Name) and id(a) not in inside and getattr(a, "lineno", 0) <= first]
    changed = True
    while changed:
        changed = False
        for a in assigns:
            if a.target.name in want and a not in chosen:
                chosen.append(a)
                have.add(a.target.name)
                want |= loads([a.node]) - have
                changed = True
        want -= have
    chosen.sort(key=lambda a: getattr(a, "lineno", 0))
    return chosen + body


def split_output(out_node, predicate):
    """Split an Output node's children at the first TemplateData child for which predicate(text) holds; returns
    (children before, children from that child on, with the TemplateData itself cut at the matching position)."""
    for i, ch in enumerate(out_node.nodes):
        if isinstance(ch, nodes.TemplateData):
            pos = predicate(ch.data)
            if pos is not None and pos >= 0:
                before = list(out_node.nodes[:i]) + [nodes.TemplateData(ch.data[:pos], lineno=ch.lineno)]
                after = [nodes.TemplateData(ch.data[pos:], lineno=ch.lineno)] + list(out_node.nodes[i + 1:])
                return before, after
    return None, None


def drop_macro_calls(children, module_name="shared_macros"):
    """Remove `{{ shared_macros.xxx(...) }}` expression children (their effect is covered by their own contracts)."""
    out = []
    for ch in children:
        if isinstance(ch, nodes.Call) and isinstance(ch.node, nodes.Getattr) and isinstance(ch.node.node, nodes.Name) \
                and ch.node.node.name == module_name:
            continue
        if isinstance(ch, nodes.Filter):
            inner = ch.node
            if isinstance(inner, nodes.Call) and isinstance(inner.node, nodes.Getattr) and isinstance(inner.node.node, nodes.Name) \
                    and inner.node.node.name == module_name:
                continue
        out.append(ch)
    return out
