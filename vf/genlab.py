"""genlab - concrete APIs for replay: hand-assembled descriptors (no protoc here), the real generator run in-process,
materialisation + import of the emitted package, loopback fakes for the gRPC channel.  Used by falsifiers/replays and by
the native cross-check of contracts; never by a proof."""
import importlib, os, shutil, sys, tempfile, contextlib
from google.protobuf import descriptor_pb2 as dpb
from google.protobuf.compiler import plugin_pb2

T = dpb.FieldDescriptorProto
OPTIONAL, REQUIRED_LABEL, REPEATED = 1, 2, 3


def dep_files(extra_modules=()):
    from google.api import annotations_pb2, client_pb2, resource_pb2, field_behavior_pb2, field_info_pb2, routing_pb2, http_pb2
    from google.protobuf import empty_pb2, wrappers_pb2, struct_pb2, any_pb2, timestamp_pb2, duration_pb2, field_mask_pb2
    from google.longrunning import operations_pb2
    from google.cloud import extended_operations_pb2
    out, seen = [], set()

    def add(fdesc):
        if fdesc.name in seen:
            return
        for dep in fdesc.dependencies:
            add(dep)
        seen.add(fdesc.name)
        fp = dpb.FileDescriptorProto()
        fdesc.CopyToProto(fp)
        out.append(fp)
    for m in (annotations_pb2, client_pb2, resource_pb2, field_behavior_pb2, empty_pb2, operations_pb2, field_info_pb2, routing_pb2,
              wrappers_pb2, struct_pb2, any_pb2, timestamp_pb2, duration_pb2, field_mask_pb2, extended_operations_pb2) + tuple(extra_modules):
        add(m.DESCRIPTOR)
    return out


STD_DEPS = ["google/api/client.proto", "google/api/annotations.proto", "google/api/resource.proto", "google/api/field_behavior.proto",
            "google/api/field_info.proto", "google/api/routing.proto", "google/protobuf/empty.proto", "google/protobuf/wrappers.proto",
            "google/longrunning/operations.proto", "google/protobuf/struct.proto", "google/protobuf/field_mask.proto",
            "google/protobuf/duration.proto", "google/protobuf/timestamp.proto", "google/protobuf/any.proto",
            "google/cloud/extended_operations.proto"]


def F(name, number, type_, label=OPTIONAL, type_name="", required=False, uuid4=False, resource_ref=None, **kw):
    f = T(name=name, number=number, type=type_, label=label, json_name=_json_name(name), **kw)
    if type_name:
        f.type_name = type_name
    if required:
        from google.api import field_behavior_pb2
        f.options.Extensions[field_behavior_pb2.field_behavior].append(field_behavior_pb2.FieldBehavior.Value("REQUIRED"))
    if uuid4:
        from google.api import field_info_pb2
        f.options.Extensions[field_info_pb2.field_info].format = field_info_pb2.FieldInfo.Format.Value("UUID4")
    if resource_ref:
        from google.api import resource_pb2
        f.options.Extensions[resource_pb2.resource_reference].type = resource_ref
    return f


def _json_name(name):
    parts = name.split("_")
    return parts[0] + "".join(p.capitalize() for p in parts[1:])


def new_file(name, package, deps=None):
    return dpb.FileDescriptorProto(name=name, package=package, syntax="proto3", dependency=list(deps if deps is not None else STD_DEPS))


def add_message(parent, name, fields=(), resource=None):
    m = (parent.message_type if isinstance(parent, dpb.FileDescriptorProto) else parent.nested_type).add(name=name)
    for f in fields:
        m.field.append(f)
    if resource:
        from google.api import resource_pb2
        r = m.options.Extensions[resource_pb2.resource]
        r.type = resource[0]
        r.pattern.extend(resource[1:])
    return m


def add_service(fd, name, host="lab.googleapis.com"):
    from google.api import client_pb2
    s = fd.service.add(name=name)
    s.options.Extensions[client_pb2.default_host] = host
    return s


def add_method(svc, name, input_type, output_type, http=None, signatures=(), client_streaming=False, server_streaming=False,
               body=None, routing=None, lro=None):
    from google.api import annotations_pb2, client_pb2, routing_pb2
    m = svc.method.add(name=name, input_type=input_type, output_type=output_type,
                       client_streaming=client_streaming, server_streaming=server_streaming)
    if http:
        verb, uri = http
        setattr(m.options.Extensions[annotations_pb2.http], verb, uri)
        if body:
            m.options.Extensions[annotations_pb2.http].body = body
    for s in signatures:
        m.options.Extensions[client_pb2.method_signature].append(s)
    if routing:
        for field, tmpl in routing:
            p = m.options.Extensions[routing_pb2.routing].routing_parameters.add()
            p.field = field
            p.path_template = tmpl
    if lro:
        from google.longrunning import operations_pb2
        m.options.Extensions[operations_pb2.operation_info].response_type = lro[0]
        m.options.Extensions[operations_pb2.operation_info].metadata_type = lro[1]
    return m


def _with_option_files(params, service_yaml, retry_config, tmpfiles):
    import json
    for key, content in (("service-yaml", service_yaml), ("retry-config", retry_config)):
        if content is None:
            continue
        f = tempfile.NamedTemporaryFile("w", suffix=".yaml" if key == "service-yaml" else ".json", prefix="genlab_", delete=False)
        json.dump(content, f)        # JSON is YAML
        f.close()
        tmpfiles.append(f.name)
        params = (params + "," if params else "") + f"{key}={f.name}"
    return params


def stub_pandoc_if_absent():
    """The sandbox has no pandoc binary; docstrings that need it (markup such as :class:) would abort generation.  The stand-in returns
    the text unchanged - only documentation text is affected, never code.  Returns True when the stub was installed."""
    import pypandoc
    try:
        pypandoc.get_pandoc_path()
        return False
    except OSError:
        pypandoc.convert_text = lambda source, to, format=None, extra_args=(), **kw: source
        return True


def build_api(files, params="", to_generate=None, extra_dep_modules=(), service_yaml=None, retry_config=None):
    """The same sequence as gapic.cli.generate.generate, in process."""
    from gapic.utils import Options
    from gapic.schema import api
    tmpfiles = []
    try:
        params = _with_option_files(params, service_yaml, retry_config, tmpfiles)
        return _build_api(files, params, to_generate, extra_dep_modules)
    finally:
        for t in tmpfiles:
            os.unlink(t)


def _build_api(files, params, to_generate, extra_dep_modules):
    from gapic.utils import Options
    from gapic.schema import api
    req = plugin_pb2.CodeGeneratorRequest(parameter=params)
    req.proto_file.extend(dep_files(extra_dep_modules))
    req.proto_file.extend(files)
    req.file_to_generate.extend(to_generate or [f.name for f in files])
    opts = Options.build(req.parameter)
    package = os.path.commonprefix([p.package for p in req.proto_file if p.name in req.file_to_generate]).rstrip(".")
    return api.API.build(req.proto_file, opts=opts, package=package), opts


def generate(files, params="", to_generate=None, extra_dep_modules=(), service_yaml=None, retry_config=None):
    from gapic import generator
    api_schema, opts = build_api(files, params, to_generate, extra_dep_modules, service_yaml, retry_config)
    res = generator.Generator(opts).get_response(api_schema, opts)
    return api_schema, res


@contextlib.contextmanager
def materialised(res):
    """Write the response files into a scratch dir (outside /repo and /verif), put it on sys.path, clean up afterwards."""
    root = tempfile.mkdtemp(prefix="genlab_")
    before = set(sys.modules)
    try:
        for x in res.file:
            p = os.path.join(root, x.name)
            os.makedirs(os.path.dirname(p), exist_ok=True)
            with open(p, "w") as f:
                f.write(x.content)
        sys.path.insert(0, root)
        importlib.invalidate_caches()
        yield root
    finally:
        if root in sys.path:
            sys.path.remove(root)
        tops = {k.split(".")[0] for k in before}
        for k in set(sys.modules) - before:
            mod = sys.modules.get(k)
            f = getattr(mod, "__file__", None)
            if (f and str(f).startswith(root)) or k.split(".")[0] not in tops:
                del sys.modules[k]
        shutil.rmtree(root, ignore_errors=True)


def fake_channel(handler):
    """grpc.Channel whose multicallables call handler(kind, path, request_bytes_or_iter, metadata, deser) -> reply message(s)."""
    import grpc

    class Multi:
        def __init__(self, kind, path, ser, deser):
            self.kind, self.path, self.ser, self.deser = kind, path, ser, deser

        def __call__(self, request, timeout=None, metadata=None, **kw):
            raw = self.ser(request) if self.kind.startswith("unary") else [self.ser(r) for r in request]
            return handler(self.kind, self.path, raw, tuple(metadata or ()), self.deser, timeout)

        def with_call(self, request, timeout=None, metadata=None, **kw):
            return self(request, timeout=timeout, metadata=metadata), None

    class Chan(grpc.Channel):
        def unary_unary(self, path, request_serializer=None, response_deserializer=None, *a, **kw):
            return Multi("unary_unary", path, request_serializer, response_deserializer)

        def unary_stream(self, path, request_serializer=None, response_deserializer=None, *a, **kw):
            return Multi("unary_stream", path, request_serializer, response_deserializer)

        def stream_unary(self, path, request_serializer=None, response_deserializer=None, *a, **kw):
            return Multi("stream_unary", path, request_serializer, response_deserializer)

        def stream_stream(self, path, request_serializer=None, response_deserializer=None, *a, **kw):
            return Multi("stream_stream", path, request_serializer, response_deserializer)

        def subscribe(self, *a, **k):
            pass

        def unsubscribe(self, *a, **k):
            pass

        def close(self):
            pass
    return Chan()


_ISO_CACHE = {}


def run_isolated(module, func, timeout=600):
    """Run `module.func()` (returning JSON-able data) in a fresh interpreter: a generated package can be imported only once
    per process (protobuf's descriptor pool), and replays must not depend on what the checker already imported."""
    import json, subprocess
    key = (module, func)
    if key in _ISO_CACHE:
        return _ISO_CACHE[key]
    code = (f"import json, sys\nfrom {module} import {func} as f\nr = f()\nprint('\\n@@RESULT@@' + json.dumps(r, default=str))")
    p = subprocess.run([sys.executable, "-c", code], capture_output=True, text=True, timeout=timeout, env=dict(os.environ))
    out = p.stdout
    if "@@RESULT@@" not in out:
        raise RuntimeError(f"isolated run of {module}.{func} failed: rc={p.returncode}\n{p.stderr[-2500:]}")
    res = json.loads(out.rsplit("@@RESULT@@", 1)[1])
    _ISO_CACHE[key] = res
    return res


def fake_aio_channel(handler):
    """grpc.aio.Channel stand-in for the generated asyncio transport: handler(kind, path, raw, metadata, deser, timeout) -> reply."""
    import grpc

    class AMulti:
        def __init__(self, kind, path, ser, deser):
            self.kind, self.path, self.ser, self.deser = kind, path, ser, deser

        def __call__(self, request, timeout=None, metadata=None, **kw):
            if self.kind.startswith("stream_"):
                # request streaming: the requests are an (async) iterator; they are drained when the call is driven
                return AStreamCall(self, request, timeout, metadata) if self.kind.endswith("_stream") else AStreamCall(self, request, timeout, metadata, unary_reply=True)
            raw = self.ser(request)
            r = handler(self.kind, self.path, raw, tuple(metadata or ()), self.deser, timeout)
            if self.kind.endswith("_stream"):
                return AStreamCall(self, None, timeout, metadata, replies=list(r))

            async def coro():
                completed.append((self.kind, self.path))       # the call object was awaited (the reply / status reached the caller)
                return r
            return coro()

    class AStreamCall:
        """Stand-in for grpc.aio's streaming call objects: an async iterator over the replies (server streaming) and / or awaitable for the single
        reply (client streaming); api-core's async wrappers call wait_for_connection() before handing it to the caller."""

        def __init__(self, multi, requests, timeout, metadata, replies=None, unary_reply=False):
            self.multi, self.requests, self.timeout, self.metadata, self.replies, self.unary_reply = multi, requests, timeout, metadata, replies, unary_reply

        async def _drive(self):
            if self.replies is None:
                raws = []
                if hasattr(self.requests, "__aiter__"):
                    async for rq in self.requests:
                        raws.append(self.multi.ser(rq))
                else:
                    for rq in (self.requests or ()):
                        raws.append(self.multi.ser(rq))
                r = handler(self.multi.kind, self.multi.path, raws, tuple(self.metadata or ()), self.multi.deser, self.timeout)
                self.replies = [r] if self.unary_reply else list(r)
            completed.append((self.multi.kind, self.multi.path))

        async def wait_for_connection(self):
            return None

        def __await__(self):
            async def one():
                await self._drive()
                return self.replies[0]
            return one().__await__()

        def __aiter__(self):
            async def gen():
                await self._drive()
                for x in self.replies:
                    yield x
            return gen()

        async def read(self):
            if self.replies is None:
                await self._drive()
            return self.replies.pop(0) if self.replies else grpc.aio.EOF

        def cancel(self):
            return False

        def add_done_callback(self, cb):
            pass

        async def initial_metadata(self):
            return ()

        async def trailing_metadata(self):
            return ()

        async def code(self):
            return grpc.StatusCode.OK

        async def details(self):
            return ""

    completed = []

    class AChan(grpc.aio.Channel):
        def __init__(self):
            self._unary_unary_interceptors = []
            self.completed = completed

        # (api-core picks its async wrapper by the multi-callable's grpc.aio base class)
        def unary_unary(self, path, request_serializer=None, response_deserializer=None, *a, **kw):
            return type("AMultiUU", (AMulti, grpc.aio.UnaryUnaryMultiCallable), {})("unary_unary", path, request_serializer, response_deserializer)

        def unary_stream(self, path, request_serializer=None, response_deserializer=None, *a, **kw):
            return type("AMultiUS", (AMulti, grpc.aio.UnaryStreamMultiCallable), {})("unary_stream", path, request_serializer, response_deserializer)

        def stream_unary(self, path, request_serializer=None, response_deserializer=None, *a, **kw):
            return type("AMultiSU", (AMulti, grpc.aio.StreamUnaryMultiCallable), {})("stream_unary", path, request_serializer, response_deserializer)

        def stream_stream(self, path, request_serializer=None, response_deserializer=None, *a, **kw):
            return type("AMultiSS", (AMulti, grpc.aio.StreamStreamMultiCallable), {})("stream_stream", path, request_serializer, response_deserializer)

        async def close(self, grace=None):
            pass

        async def __aenter__(self):
            return self

        async def __aexit__(self, *a):
            pass

        def get_state(self, try_to_connect=False):
            return grpc.ChannelConnectivity.READY

        async def wait_for_state_change(self, s):
            pass

        async def channel_ready(self):
            pass
    return AChan()
