"""Determinism discipline (ghost predicate `det`): no value whose iteration order depends on hashing reaches an order-sensitive consumer.

A small abstract interpretation of Python `ast` with two abstract values, ORDERED and UNORDERED (a set/frozenset, or a dict/list whose
insertion order was produced by iterating a set).  `sorted(x)` restores ORDERED (with `key=` only if the key is declared injective on the
elements); `len`, `in`, `any`, `all`, `set`, `frozenset`, `sum`, `min`, `max`, set algebra and `.add/.update` on sets are order-insensitive.
Everything else that consumes an UNORDERED value in an order-sensitive way is reported.  The same discipline is applied to the Jinja
AST of every template for paths whose stage-1 type is a set."""
import ast

ORDER_INSENSITIVE_CALLS = {"len", "any", "all", "set", "frozenset", "sum", "min", "max", "bool", "isinstance", "sorted"}
SET_BUILDERS = {"set", "frozenset"}
SET_METHODS_RETURNING_SET = {"union", "intersection", "difference", "symmetric_difference", "copy"}
SET_MUTATORS = {"add", "update", "discard", "remove", "clear", "difference_update", "intersection_update"}


class Finding:
    def __init__(self, where, lineno, what, code):
        self.where, self.lineno, self.what, self.code = where, lineno, what, code

    def key(self):
        return f"{self.where}:{self.what}:{self.code}"

    def as_json(self):
        return {"where": self.where, "line": self.lineno, "what": self.what, "code": self.code}


class FnAnalysis(ast.NodeVisitor):
    def __init__(self, where, set_attrs, set_params=(), injective_keys=()):
        self.where = where
        self.set_attrs = set(set_attrs)
        self.env = {p: True for p in set_params}        # name -> unordered?
        self.findings = []
        self.injective_keys = set(injective_keys)
        self.sequence_names = set()                     # names known to hold an ordered container (list / dict), as opposed to a set

    def flag(self, node, what):
        self.findings.append(Finding(self.where, getattr(node, "lineno", 0), what, ast.unparse(node)[:120]))

    # ---- classification --------------------------------------------------------------------------------------
    def unordered(self, e):
        if isinstance(e, (ast.Set, ast.SetComp)):
            return True
        if isinstance(e, ast.Name):
            return self.env.get(e.id, False)
        if isinstance(e, ast.Attribute):
            return e.attr in self.set_attrs
        if isinstance(e, ast.BinOp) and isinstance(e.op, (ast.BitOr, ast.BitAnd, ast.Sub, ast.BitXor)):
            # set algebra on dict views (d.keys() & e.keys(), d.items() - ...) returns a set
            if any(isinstance(x, ast.Call) and isinstance(x.func, ast.Attribute) and x.func.attr in ("keys", "items") and not x.args for x in (e.left, e.right)):
                return True
            return self.unordered(e.left) or self.unordered(e.right)
        if isinstance(e, ast.IfExp):
            return self.unordered(e.body) or self.unordered(e.orelse)
        if isinstance(e, ast.BoolOp):
            return any(self.unordered(v) for v in e.values)
        if isinstance(e, ast.Call):
            f = e.func
            name = f.id if isinstance(f, ast.Name) else (f.attr if isinstance(f, ast.Attribute) else None)
            if name in SET_BUILDERS:
                return True
            if name == "sorted":
                return False
            if isinstance(f, ast.Attribute) and name in SET_METHODS_RETURNING_SET and self.unordered(f.value):
                return True
            if isinstance(f, ast.Attribute) and name in ("values", "keys", "items") and self.unordered(f.value):
                return True
            if name in ("iter", "reversed", "enumerate", "filter", "map", "chain", "tuple", "list", "OrderedDict", "dict", "zip") and e.args \
                    and any(self.unordered(a) for a in e.args):
                return True           # the hash order is materialised: the result is an order-tainted sequence / mapping
            if name in self.set_attrs:            # method returning a set
                return True
            if name and name[:1].isupper() and name not in ("OrderedDict",) and \
                    any(self._tainted_sequence(a) for a in list(e.args) + [k.value for k in e.keywords]):
                return True           # an object built from a hash-ordered sequence / mapping carries that order (e.g. a response message)
        if isinstance(e, ast.Dict):
            # {**a, **b}: insertion order follows the merged mappings
            return any(k is None and self.unordered(v) for k, v in zip(e.keys, e.values))
        if isinstance(e, ast.DictComp):
            return any(self.unordered(g.iter) for g in e.generators)       # insertion order follows the set
        if isinstance(e, (ast.GeneratorExp, ast.ListComp)):
            # iterating a hash-ordered value, or producing elements that are themselves hash-ordered (an ordered container of unordered
            # things is tainted too: whoever picks an element gets a hash-ordered value)
            return any(self.unordered(g.iter) for g in e.generators) or self.unordered(e.elt)
        return False

    def _tainted_sequence(self, e):
        """An ordered container (list / tuple / dict / generator) whose order was produced by hashing - as opposed to a plain set."""
        if isinstance(e, (ast.ListComp, ast.GeneratorExp, ast.DictComp, ast.Dict)):
            return self.unordered(e)
        if isinstance(e, ast.Call):
            f = e.func
            name = f.id if isinstance(f, ast.Name) else (f.attr if isinstance(f, ast.Attribute) else None)
            return name in ("list", "tuple", "dict", "OrderedDict", "values", "keys", "items", "chain") and self.unordered(e)
        if isinstance(e, ast.Name):
            return self.env.get(e.id, False) and e.id in self.sequence_names
        return False

    # ---- consumers -------------------------------------------------------------------------------------------------
    def visit_Call(self, node):
        f = node.func
        name = f.id if isinstance(f, ast.Name) else (f.attr if isinstance(f, ast.Attribute) else None)
        if name == "sorted" and node.args and self.unordered(node.args[0]):
            key = next((k.value for k in node.keywords if k.arg == "key"), None)
            if key is not None and ast.unparse(key) not in self.injective_keys:
                self.flag(node, "sorted() of an unordered value with a key that is not declared injective (ties keep hash order)")
        elif name in ("min", "max") and node.args and self.unordered(node.args[0]) and any(k.arg == "key" for k in node.keywords):
            key = next(k.value for k in node.keywords if k.arg == "key")
            if ast.unparse(key) not in self.injective_keys:
                self.flag(node, f"{name}() of an unordered value with a key that is not declared injective (a tie is broken by hash order)")
        elif name == "next" and node.args and any(self.unordered(a) for a in node.args):
            self.flag(node, "next() picks an element of an unordered value")
        elif isinstance(f, ast.Attribute) and name in ("extend", "append", "insert", "update", "setdefault") and isinstance(f.value, ast.Name) and node.args \
                and (self.unordered(node.args[-1]) or self.in_unordered_loop):
            self.env[f.value.id] = True       # the list / dict now carries hash order (for a set receiver this changes nothing)
            self.sequence_names.add(f.value.id)
        elif name == "join" and node.args and self.unordered(node.args[0]):
            self.flag(node, "join() over an unordered value")
        self.generic_visit(node)

    def visit_ListComp(self, node):
        self.generic_visit(node)

    def visit_Subscript(self, node):
        if self.unordered(node.value) and not isinstance(node.slice, ast.Slice) and isinstance(node.ctx, ast.Load) and \
                isinstance(node.slice, ast.Constant) and isinstance(node.slice.value, int):
            self.flag(node, "positional element of an order-tainted value")
        self.generic_visit(node)

    def visit_JoinedStr(self, node):
        for v in node.values:
            if isinstance(v, ast.FormattedValue) and self.unordered(v.value):
                self.flag(node, "string formatting of an unordered value")
        self.generic_visit(node)

    def visit_Yield(self, node):
        if self.in_unordered_loop or (node.value is not None and self.unordered(node.value)):
            self.returns_unordered = True
        self.generic_visit(node)

    in_unordered_loop = False

    def visit_For(self, node):
        u = self.unordered(node.iter)
        saved = self.in_unordered_loop
        if u:
            self.in_unordered_loop = True
            self.body_is_order_insensitive(node.body)      # taints dicts filled inside the loop
            for n in ast.walk(node):
                if isinstance(n, ast.Return) and n.value is not None and not isinstance(n.value, ast.Constant):
                    self.flag(n, "returns an element picked while iterating an unordered value")
        self.generic_visit(node)
        self.in_unordered_loop = saved

    def body_is_order_insensitive(self, body):
        for s in body:
            for n in ast.walk(s):
                if isinstance(n, (ast.Yield, ast.YieldFrom)):
                    return False
                if isinstance(n, ast.Call) and isinstance(n.func, ast.Attribute) and n.func.attr in ("append", "extend", "insert", "write"):
                    return False
                if isinstance(n, ast.Assign) and any(isinstance(t, ast.Subscript) for t in n.targets):
                    # d[k] = v : the dict's insertion order now follows the set -> taint the dict
                    for t in n.targets:
                        if isinstance(t, ast.Subscript) and isinstance(t.value, ast.Name):
                            self.env[t.value.id] = True
                            self.sequence_names.add(t.value.id)
                if isinstance(n, ast.Return) and n.value is not None and not (isinstance(n.value, ast.Constant)):
                    return False
                if isinstance(n, ast.Break):
                    return False
        return True

    def visit_Assign(self, node):
        self.generic_visit(node)
        u = self.unordered(node.value)
        for t in node.targets:
            if isinstance(t, ast.Name):
                self.env[t.id] = u

    def visit_AnnAssign(self, node):
        self.generic_visit(node)
        if isinstance(node.target, ast.Name) and node.value is not None:
            ann = ast.unparse(node.annotation)
            self.env[node.target.id] = self.unordered(node.value) or ann.startswith(("Set[", "FrozenSet[", "set", "frozenset"))

    def visit_AugAssign(self, node):
        self.generic_visit(node)
        if isinstance(node.target, ast.Name) and self.unordered(node.value):
            self.env[node.target.id] = True

    def visit_Return(self, node):
        self.generic_visit(node)
        self.returns_unordered = getattr(self, "returns_unordered", False) or (node.value is not None and self.unordered(node.value))


def analyse_module(rel, tree, set_attrs, injective_keys):
    """Analyse every function of a module; returns (findings, functions returning an unordered value, n functions)."""
    findings, returns_set, n = [], set(), 0
    for cls in [None] + [c for c in ast.walk(tree) if isinstance(c, ast.ClassDef)]:
        body = tree.body if cls is None else cls.body
        for f in body:
            if isinstance(f, (ast.FunctionDef, ast.AsyncFunctionDef)):
                n += 1
                q = (cls.name + "." if cls else "") + f.name
                set_params = [a.arg for a in f.args.args + f.args.kwonlyargs
                              if a.annotation is not None and ast.unparse(a.annotation).replace("typing.", "").startswith(("Set[", "FrozenSet[", "Optional[Set[", "set", "frozenset"))]
                an = FnAnalysis(f"{rel}:{q}", set_attrs, set_params, injective_keys)
                for s in f.body:
                    an.visit(s)
                findings += an.findings
                ann = ast.unparse(f.returns) if f.returns is not None else ""
                if getattr(an, "returns_unordered", False) or ann.replace("typing.", "").startswith(("Set[", "FrozenSet[")):
                    returns_set.add(f.name)
    return findings, returns_set, n
