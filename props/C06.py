"""C06 - x-goog-request-params routing header (AIP-4222).

Stage 2, explicit routing: every variant of macro create_metadata (k <= 2 routing parameters, with/without path template) executed with
pyvc over a dict/regex algebra:  header = fold over the parameters in order (later wins) of { key_i : capture_i } for the parameters whose
field matches with a non-empty capture (or, without template, whose field is non-empty); the header is attached iff that fold is non-empty;
metadata = tuple(metadata) + (to_grpc_metadata(header),).
Stage 2, implicit routing: one (raw name, request.<disambiguated path>) pair per field header, in order (provenance).
Stage 1: FieldHeader.disambiguated (pyvc); regex *language* of RoutingParameter.to_regex against the path-template language by ground
regex equivalence in z3 over a template grammar (bounded stand-in: a proof per template, a bound on template size).
"""
import ast, itertools
import z3
from jinja2 import nodes
from vf.core import Run, Result
from vf.pyvc import Contract
from vf.schema import SchemaModel
from vf.smt import Ref, NONE, fn
from vf.types import *          # noqa
from vf import j2sym as J
from vf.dyn import DynModel, ANY, dget, truthy_, strlit, item_, EMPTYDICT, S
from vf.emit import parse_variant, exec_emitted, prove_all, frag_info

SHARED = J.SERVICE_DIR + "_shared_macros.j2"
W = "gapic/schema/wrappers.py"
re_match = fn("re.match", Ref, Ref, Ref)
re_group = fn("re.group", Ref, Ref, Ref)
to_md = fn("api.routing_header.to_grpc_metadata", Ref, Ref)
py_tuple = fn("py.tuple", Ref, Ref)
py_add = fn("py.add", Ref, Ref, Ref)
py_tuple1 = fn("py.tuple1", Ref, Ref)


def model():
    m = DynModel()
    m.known_callables[".match"] = lambda ex, args, kw, st, node: V(re_match(args[0].term, m.dyn(ex, args[1]).term), ANY)
    m.known_callables[".group"] = lambda ex, args, kw, st, node: V(re_group(args[0].term, m.dyn(ex, args[1]).term), ANY)
    m.known_callables["tuple"] = lambda ex, args, kw, st, node: V(py_tuple(m.dyn(ex, args[0]).term), ANY)

    def to_grpc(ex, args, kw, st, node):
        x = m.dyn(ex, args[0])
        st.ghost["routing_args"] = st.ghost.get("routing_args", []) + [x.term]
        return V(to_md(x.term), ANY)
    m.known_callables["gapic_v1.routing_header.to_grpc_metadata"] = to_grpc
    orig_binop = m.binop

    def binop(ex, op, a, b, st):
        if isinstance(op, ast.Add) and (a.ty == ANY or b.ty == ANY):
            bb = b
            if b.ty is TUPLE and len(b.py) == 1:
                bb = V(py_tuple1(m.dyn(ex, b.py[0]).term), ANY)
            return V(py_add(m.dyn(ex, a).term, m.dyn(ex, bb).term), ANY)
        return orig_binop(ex, op, a, b, st)
    m.binop = binop
    orig_dyn = m.dyn

    def dyn(ex, v):
        if v.ty is PY and isinstance(v.py, tuple) and v.py and v.py[0] == "emptydict":
            return V(EMPTYDICT, ANY)
        return orig_dyn(ex, v)
    m.dyn = dyn
    m.assumptions += ["stdlib re: pattern.match(s) is truthy iff s matches; match.group(name) is the text captured by the named group",
                      "api-core: routing_header.to_grpc_metadata(params) URL-encodes the pairs and joins them with '&' under the x-goog-request-params key",
                      "dict: d[k] = v overrides an earlier entry for the same key; an empty dict is falsy"]
    return m


def explicit(run: Run, env):
    mac = J.macro_callable(env, SHARED, "create_metadata")
    variants = J.explore(lambda: str(mac(J.Sym("method"))), maxlen=2, fixed={("bool", "method.explicit_routing"): True}, prune=J.container_consistent)
    run.fragments.append(frag_info(SHARED, "macro create_metadata (explicit routing)", variants))
    base = "method.routing_rule.routing_parameters"
    n_checked = 0
    for vi, var in enumerate(variants):
        tag = f"routing.explicit:v{vi}"
        if var.error:
            run.table(f"{tag}:render-safe", False, detail=var.error, group="routing.explicit:render-safe")
            continue
        d = dict(var.decisions)
        cs = bool(d.get(("bool", "method.client_streaming")))
        n = 0 if cs else d.get(("len", base), 0)
        try:
            tree_py, _ = parse_variant(var.text)
        except SyntaxError as e:
            run.table(f"{tag}:parses", False, detail=str(e), group="routing.explicit:parses")
            continue
        run.table(f"{tag}:parses", True, group="routing.explicit:parses")
        params = []
        for i in range(n):
            templ = bool(d.get(("bool", f"{base}[{i}].path_template")))
            params.append(dict(field=var.hole_for(f"{base}[{i}].disambiguated_field") or var.hole_for(f"{base}[{i}].field"),
                               disamb=var.hole_for(f"{base}[{i}].disambiguated_field") is not None and var.hole_for(f"{base}[{i}].field") is None,
                               key=var.hole_for(f"{base}[{i}].key"),
                               regex=var.hole_for(f"{base}[{i}].to_regex()"), templ=templ))
        shape_ok = all(p["field"] and p["key"] and (p["regex"] or not p["templ"]) for p in params)
        run.table(f"{tag}:holes-present", shape_ok, detail=str(params), group="routing.explicit:holes")
        if not shape_ok:
            continue
        # "reserved-word fields read from their suffixed attribute but sent under the original name": the attribute read on the request
        # is the disambiguated path, the header key is the routing key
        run.table(f"{tag}:reads-the-disambiguated-attribute", all(p["disamb"] for p in params), detail=str([var.holes.get(p["field"]) for p in params]),
                  group="routing.explicit:reads-the-disambiguated-attribute")
        m = model()
        m.hole_strings = {p["field"] for p in params}
        req0, md0 = z3.Const("request0", Ref), z3.Const("metadata0", Ref)
        try:
            ex, outs = exec_emitted(m, tree_py.body, {"request": V(req0, ANY), "metadata": V(md0, ANY)}, fname=tag)
        except Unsupported as e:
            run.unsupported.append(f"{tag}: {e}")
            continue
        n_checked += 1
        # specification, from the statement
        contributes, values, keys = [], [], []
        for p in params:
            v = dget(req0, m.attr_term(p["field"]))
            k = strlit(z3.Const("str." + p["key"], S))
            if p["templ"]:
                mt = re_match(z3.Const("g." + p["regex"], Ref), v)
                contributes.append(z3.And(truthy_(mt), truthy_(re_group(mt, k))))
                values.append(re_group(mt, k))
            else:
                contributes.append(truthy_(v))
                values.append(v)
            keys.append(k)
        any_c = z3.Or(contributes) if contributes else z3.BoolVal(False)
        Q = strlit(z3.Const("any_key", S))
        expected = item_(EMPTYDICT, Q)
        for c, v, k in zip(contributes, values, keys):
            expected = z3.If(z3.And(c, k == Q), v, expected)
        sub = [(z3.StringVal(p["key"]), z3.Const("str." + p["key"], S)) for p in params]
        obs = []
        for pi, o in enumerate(outs):
            hyp = [z3.substitute(h, *sub) for h in o.state.pc] if sub else list(o.state.pc)
            if o.kind != "fall":
                obs.append((f"{tag}:no-raise:path{pi}", hyp, z3.BoolVal(False)))
                continue
            sent = o.state.ghost.get("routing_args", [])
            obs.append((f"{tag}:header-sent-iff-some-parameter-contributes:path{pi}", hyp, z3.BoolVal(len(sent) == 1) == any_c if len(sent) <= 1 else z3.BoolVal(False)))
            md = o.state.env["metadata"].term
            if len(sent) == 1:
                h = z3.substitute(sent[0], *sub) if sub else sent[0]
                obs.append((f"{tag}:header-is-the-fold-of-the-parameters-later-wins:path{pi}", hyp, item_(h, Q) == expected))
                want = py_add(py_tuple(md0), py_tuple1(to_md(sent[0])))
                obs.append((f"{tag}:metadata-extended-by-exactly-the-header:path{pi}", hyp, md == want))
            elif len(sent) == 0:
                obs.append((f"{tag}:metadata-unchanged-when-nothing-matches:path{pi}", hyp, md == md0))
            obs.append((f"{tag}:request-not-modified:path{pi}", hyp, o.state.env["request"].term == req0))
        rs = prove_all(run, m, obs)
        for r in rs:
            r.group = "routing.explicit:" + ":".join(p for p in r.name.split(":")[2:] if not p.startswith("path"))
        if len(run.samples) < 4 and n == 2:
            run.samples.append({"fragment": tag, "decisions": [str(x) for x in var.decisions], "emitted": var.text, "obligations": [r.as_json() for r in rs][:3]})
        run.assume(*m.assumptions)
    run.table("routing.explicit:some-variant-checked", n_checked > 0, group="routing.explicit:cover")


def implicit(run: Run, env):
    mac = J.macro_callable(env, SHARED, "create_metadata")
    variants = J.explore(lambda: str(mac(J.Sym("method"))), maxlen=3, fixed={("bool", "method.explicit_routing"): False}, prune=J.container_consistent)
    run.fragments.append(frag_info(SHARED, "macro create_metadata (implicit routing)", variants))
    for vi, var in enumerate(variants):
        tag = f"routing.implicit:v{vi}"
        if var.error:
            run.table(f"{tag}:render-safe", False, detail=var.error, group="routing.implicit:render-safe")
            continue
        d = dict(var.decisions)
        n = d.get(("len", "method.field_headers"), 0)
        has = d.get(("bool", "method.field_headers"))
        if not has:
            run.table(f"{tag}:nothing-emitted-without-annotation-or-http-rule", var.text.strip() == "", group="routing.implicit:nothing-without-rule")
            continue
        cs = bool(d.get(("bool", "method.client_streaming")))
        try:
            tree_py, _ = parse_variant(var.text)
        except SyntaxError as e:
            run.table(f"{tag}:parses", False, detail=str(e), group="routing.implicit:parses")
            continue
        st = [s for s in tree_py.body if isinstance(s, ast.Assign)]
        ok = len(st) == 1 and ast.unparse(st[0].targets[0]) == "metadata" and isinstance(st[0].value, ast.BinOp) \
            and ast.unparse(st[0].value.left) == "tuple(metadata)" and isinstance(st[0].value.right, ast.Tuple) and len(st[0].value.right.elts) == 1
        run.table(f"{tag}:metadata-extended-by-one-header", ok, group="routing.implicit:metadata-extended")
        if not ok:
            continue
        call = st[0].value.right.elts[0]
        ok = isinstance(call, ast.Call) and ast.unparse(call.func) == "gapic_v1.routing_header.to_grpc_metadata" and len(call.args) == 1 \
            and isinstance(call.args[0], ast.Tuple)
        run.table(f"{tag}:header-built-by-api-core", ok, group="routing.implicit:to-grpc-metadata")
        if not ok:
            continue
        pairs = call.args[0].elts
        want_n = 0 if cs else n
        good = len(pairs) == want_n
        for i, p in enumerate(pairs):
            good = good and isinstance(p, ast.Tuple) and len(p.elts) == 2 and isinstance(p.elts[0], ast.Constant) \
                and var.holes.get(p.elts[0].value) == f"method.field_headers[{i}].raw" \
                and isinstance(p.elts[1], ast.Attribute) and ast.unparse(p.elts[1].value) == "request" \
                and var.holes.get(p.elts[1].attr) == f"method.field_headers[{i}].disambiguated"
        run.table(f"{tag}:one-pair-per-path-variable-raw-name-and-disambiguated-attribute", good, detail=ast.unparse(call.args[0])[:200],
                  group="routing.implicit:pairs")


def call_sites(run: Run, env):
    """sync, asyncio (and REST, which shares the sync client method) all invoke the same macro with `method`."""
    for tname in (J.SERVICE_DIR + "_client_macros.j2", J.SERVICE_DIR + "async_client.py.j2"):
        tree = J.parse(env, tname)
        calls = [c for c in tree.find_all(nodes.Call) if isinstance(c.node, nodes.Getattr) and c.node.attr == "create_metadata"]
        ok = len(calls) == 1 and [getattr(a, "name", None) for a in calls[0].args] == ["method"]
        run.table(f"routing.callsite:{tname}:create_metadata(method)", ok, group="routing.callsite:same-macro")


def stage1(run: Run):
    m = SchemaModel()
    from vf.model import Native
    import gapic.utils as utils
    m.globals["utils"] = pyv(Native(utils))
    m.add_class("FieldHeader", {"raw": "Str", "disambiguated": "Str"})
    m.globals["RESERVED"] = pyv(frozenset(utils.RESERVED_NAMES))
    m.add_spec("py_name", ["n"], "n + '_' if n in RESERVED else n")
    c = Contract("FieldHeader.disambiguated", source=(W, "FieldHeader.disambiguated"), params={"self": "FieldHeader"}, result="Str",
                 # "dotted paths read from the nested message, reserved-word fields read from their suffixed attribute":
                 # py_name applied to every segment of the path
                 ensures=["result == '.'.join(py_name(s) for s in self.raw.split('.'))"])
    m.add_contract(c)
    run.verify(m, c)
    m.add_class("RoutingParameter", {"field": "Str", "path_template": "Str", "disambiguated_field": "Str"})
    m.classes["FieldHeader"].update({"_fields": ["raw"], "_value_class": True})
    cr = Contract("RoutingParameter.disambiguated_field", source=(W, "RoutingParameter.disambiguated_field"), params={"self": "RoutingParameter"}, result="Str",
                  ensures=["result == '.'.join(py_name(s) for s in self.field.split('.'))"])
    m.add_contract(cr)
    run.verify(m, cr)
    # implicit routing source: "one pair for every variable of the method's primary HTTP path template"
    m.classes["FieldHeader"].update({"_fields": ["raw"], "_value_class": True})
    m.classes["Method"]["options"] = "MethodOptions"
    m.classes["Method"]["field_headers"] = "Seq[FieldHeader]"
    m.add_spec("primary_path", ["h"],
               "h.get if h.get != '' else (h.put if h.put != '' else (h.post if h.post != '' else (h.delete if h.delete != '' else "
               "(h.patch if h.patch != '' else h.custom.path))))")
    m.add_spec("path_vars", ["s"], "re.compile('{(.*?)[=}]').findall(s)")
    m.add_spec("b2i", ["s"], "1 if s != '' else 0")
    m.add_spec("oneof_pattern", ["h"], "b2i(h.get) + b2i(h.put) + b2i(h.post) + b2i(h.delete) + b2i(h.patch) + b2i(h.custom.path) <= 1")
    c2 = Contract("Method.field_headers", source=(W, "Method.field_headers"), params={"self": "Method"}, result="Seq[FieldHeader]",
                  requires=["oneof_pattern(self.options.Extensions[annotations_pb2.http])"],      # `pattern` is a protobuf oneof
                  ensures=["implies(primary_path(self.options.Extensions[annotations_pb2.http]) == '', len(result) == 0)",
                           "implies(primary_path(self.options.Extensions[annotations_pb2.http]) != '', "
                           "len(result) == len(path_vars(primary_path(self.options.Extensions[annotations_pb2.http]))) and "
                           "forall(lambda i: result[i].raw == path_vars(primary_path(self.options.Extensions[annotations_pb2.http]))[i], 0, len(result)))"])
    m.add_contract(c2)
    run.verify(m, c2)
    run.assume("the variables of a path template are what the regular expression {(.*?)[=}] finds (uninterpreted here; bounded native replay)")


# ---- bounded stand-in: the regex language of RoutingParameter.to_regex ------------------------------------------------------
def spec_language(template):
    """Path-template language: literals literal, `*` = one non-empty segment, `**` = any suffix incl. empty (the '/' before it is
    optional when it matches nothing), one named segment = its sub-template."""
    from vf import regex2z3 as R
    segs = []
    depth, cur = 0, ""
    for ch in template:
        if ch == "{":
            depth += 1
        if ch == "}":
            depth -= 1
        if ch == "/" and depth == 0:
            segs.append(cur)
            cur = ""
        else:
            cur += ch
    segs.append(cur)
    flat = []
    for s in segs:
        if s.startswith("{"):
            inner = s[1:-1]
            sub = inner.split("=", 1)[1] if "=" in inner else "*"
            # a named segment that is `**` as a whole keeps the '/' that separates it from its prefix (the captured value may be
            # empty, the separator may not): the reading the code implements; the statement does not decide this corner
            flat += ["**named"] if sub == "**" else sub.split("/")
        else:
            flat.append(s)
    NOSL = z3.Plus(R.notchars(["/", "\n"]))
    ANYS = z3.Star(R.notchars(["\n"]))
    out = None
    for i, s in enumerate(flat):
        if s == "**named":
            piece = ANYS if out is None else z3.Concat(z3.Re("/"), ANYS)
            out = piece if out is None else z3.Concat(out, piece)
            continue
        if s == "**":
            piece = ANYS if out is None else z3.Option(z3.Concat(z3.Re("/"), ANYS))
            out = piece if out is None else z3.Concat(out, piece)
            continue
        piece = NOSL if s == "*" else z3.Re(s)
        out = piece if out is None else z3.Concat(out, z3.Re("/"), piece)
    return out


def regex_language(run: Run):
    from vf import regex2z3 as R
    from gapic.schema.wrappers import RoutingParameter
    atoms = ["a", "bb", "*", "**", "{k}", "{k=*}", "{k=**}", "{k=a/*}", "{k=a/*/**}"]
    maxseg = 3 if run.tier == "quick" else 4
    n = bad = unk = 0
    samples = []
    for L in range(1, maxseg + 1):
        for combo in itertools.product(atoms, repeat=L):
            if sum(1 for c in combo if c.startswith("{")) > 1:
                continue
            if any(c == "**" or c.endswith("**}") for c in combo[:-1]):
                continue                                  # `**` only makes sense as the last segment (AIP-4222)
            t = "/".join(combo)
            try:
                pat = RoutingParameter("f", t).to_regex().pattern
            except Exception as e:     # noqa
                bad += 1
                samples.append({"template": t, "error": repr(e)[:100]})
                continue
            n += 1
            NONL = z3.Star(R.notchars(["\n"]))        # assumption: routed values contain no newline (Python's `.` excludes it)
            res, w = R.equivalent(z3.Intersect(R.match_language(pat), NONL), z3.Intersect(spec_language(t), NONL), 5000)      # the emitted code calls .match()
            if res == "sat":
                bad += 1
                samples.append({"template": t, "regex": pat, "distinguishing_string": w})
            elif res != "unsat":
                unk += 1
    run.bounded.append({"what": "language of RoutingParameter.to_regex == path-template language (ground regex equivalence decided by z3, one proof per template)",
                        "bound": f"templates of <= {maxseg} segments over {atoms}, at most one named segment, `**` last", "cases": n,
                        "not_equivalent": bad, "undecided": unk, "samples": samples[:5]})
    if bad:
        run.table("routing.regex:language-equivalence", False, detail=str(samples[:3]), group="routing.regex:language-equivalence")


def witness_still_fails(k):
    from vf.genlab import run_isolated
    f = run_isolated("props.C06_native", "scenarios")
    return any(x.get("known") == k["witness"] for x in f["failures"])


def run(run: Run):
    run.witness_check = witness_still_fails
    env = J.make_env()
    explicit(run, env)
    implicit(run, env)
    call_sites(run, env)
    stage1(run)
    regex_language(run)
    run.not_decided.append("URL-encoding of values (api-core); Method.field_headers' regex extraction of path variables (bounded native replay only)")
    run.native_standin("props.C06_native", "scenarios")



def falsify(run, group, info):
    from vf.genlab import run_isolated
    f = run_isolated("props.C06_native", "scenarios")
    run.bounded.append({"what": "falsifier: generated library, routing headers observed on a loopback channel (explicit rules, implicit templates, sync + asyncio)", "cases": f["cases"]})
    fails = [x for x in f["failures"] if not x.get("known")]
    return ({"kind": "routing", "failures": fails[:6]}, True) if fails else (None, False)


def replay(path):
    import json
    from vf.genlab import run_isolated
    f = run_isolated("props.C06_native", "scenarios")
    fails = [x for x in f["failures"] if not x.get("known")]
    print("routing scenarios ->", json.dumps(fails[:4]) if fails else "conform (known findings aside)")
    return 1 if fails else 0
