"""C03 replay: generated library over loopback channels: all four arities, keyword-named, void and own-Empty RPCs, request forms."""
import asyncio


def files():
    from vf import genlab as G
    fd = G.new_file("acme/lab/v1/lab.proto", "acme.lab.v1")
    G.add_message(fd, "Req", [G.F("name", 1, G.T.TYPE_STRING), G.F("n", 2, G.T.TYPE_INT32)])
    G.add_message(fd, "Resp", [G.F("note", 1, G.T.TYPE_STRING)])
    G.add_message(fd, "Empty", [G.F("marker", 1, G.T.TYPE_STRING)])
    svc = G.add_service(fd, "Lab")
    G.add_method(svc, "Fetch", ".acme.lab.v1.Req", ".acme.lab.v1.Resp", http=("get", "/v1/{name=p/*}"))
    G.add_method(svc, "Import", ".acme.lab.v1.Req", ".acme.lab.v1.Resp", http=("post", "/v1/{name=p/*}:import"), body="*")
    G.add_method(svc, "CreateChannel", ".acme.lab.v1.Req", ".acme.lab.v1.Resp", http=("post", "/v1/{name=p/*}:cc"), body="*")
    G.add_method(svc, "Drop", ".acme.lab.v1.Req", ".google.protobuf.Empty", http=("delete", "/v1/{name=p/*}"))
    G.add_method(svc, "Purge", ".acme.lab.v1.Req", ".google.protobuf.Empty", http=("delete", "/v1/{name=p/*}:purge"))      # void, no retry policy
    G.add_method(svc, "Ping", ".acme.lab.v1.Req", ".acme.lab.v1.Empty", http=("post", "/v1/{name=p/*}:ping"), body="*")
    G.add_method(svc, "Watch", ".acme.lab.v1.Req", ".acme.lab.v1.Resp", http=("get", "/v1/{name=p/*}:watch"), server_streaming=True)
    G.add_method(svc, "Upload", ".acme.lab.v1.Req", ".acme.lab.v1.Resp", client_streaming=True)
    G.add_method(svc, "Chat", ".acme.lab.v1.Req", ".acme.lab.v1.Resp", client_streaming=True, server_streaming=True)
    G.add_method(svc, "Policy", ".google.iam.v1.GetIamPolicyRequest", ".google.iam.v1.Policy", http=("post", "/v1/{resource=p/*}:pol"), body="*")
    # a plain-protobuf request from a dependency package with a response of the API's own package
    G.add_method(svc, "PolicyNote", ".google.iam.v1.GetIamPolicyRequest", ".acme.lab.v1.Resp", http=("post", "/v1/{resource=p/*}:note"), body="*")
    fd.dependency.append("google/iam/v1/iam_policy.proto")
    # a long-running rpc one of whose flattened parameters is called like the api-core module that wraps its reply (`operation`)
    G.add_message(fd, "OpReq", [G.F("name", 1, G.T.TYPE_STRING), G.F("operation", 2, G.T.TYPE_STRING)])
    G.add_message(fd, "OpMeta", [G.F("pct", 1, G.T.TYPE_INT32)])
    G.add_method(svc, "RunOperation", ".acme.lab.v1.OpReq", ".google.longrunning.Operation", http=("post", "/v1/{name=p/*}:run"), body="*",
                 signatures=["name,operation"], lro=("Resp", "OpMeta"))
    return [fd]


def scenarios():
    from vf import genlab as G
    from google.auth.credentials import AnonymousCredentials
    from google.iam.v1 import iam_policy_pb2, policy_pb2
    from google.protobuf import empty_pb2
    G.stub_pandoc_if_absent()
    failures, cases = [], 0
    # Drop (void) and Fetch carry a default retry policy: the asyncio stub is then wrapped in AsyncRetry's coroutine function
    retry_cfg = {"methodConfig": [{"name": [{"service": "acme.lab.v1.Lab", "method": "Drop"}, {"service": "acme.lab.v1.Lab", "method": "Fetch"}], "timeout": "30s",
                                   "retryPolicy": {"maxAttempts": 3, "initialBackoff": "0.01s", "maxBackoff": "0.02s", "backoffMultiplier": 2, "retryableStatusCodes": ["UNAVAILABLE"]}}]}
    api, res = G.generate(files(), "autogen-snippets=false", extra_dep_modules=(iam_policy_pb2,), retry_config=retry_cfg)
    with G.materialised(res):
        from acme import lab_v1
        from acme.lab_v1.services.lab.transports import LabGrpcTransport, LabGrpcAsyncIOTransport
        log = []
        replies = {"Drop": empty_pb2.Empty(), "Purge": empty_pb2.Empty(), "Ping": lab_v1.Empty(marker="pong"), "Policy": policy_pb2.Policy(version=3)}

        def ser(x):
            return type(x).serialize(x) if hasattr(type(x), "serialize") else x.SerializeToString()

        def handler(kind, path, raw, md, deser, timeout):
            log.append((kind, path, raw))
            name = path.rsplit("/", 1)[1]
            r = replies.get(name, lab_v1.Resp(note="re:" + name))
            if kind.endswith("stream"):
                return iter([deser(ser(r)), deser(ser(r))])
            return deser(ser(r))
        client = lab_v1.LabClient(transport=LabGrpcTransport(channel=G.fake_channel(handler), credentials=AnonymousCredentials()))
        achan = G.fake_aio_channel(handler)
        aclient = lab_v1.LabAsyncClient(transport=LabGrpcAsyncIOTransport(channel=achan, credentials=AnonymousCredentials()))
        unary = [("fetch", "Fetch"), ("import_", "Import"), ("create_channel", "CreateChannel"), ("drop", "Drop"), ("purge", "Purge"), ("ping", "Ping")]
        for pyname, rpc in unary:
            for form, req in (("message", lab_v1.Req(name="p/1", n=7)), ("dict", {"name": "p/1", "n": 7}), ("omitted", None)):
                for which, cl in (("sync", client), ("async", aclient)):
                    cases += 1
                    log.clear()
                    del achan.completed[:]
                    try:
                        out = getattr(cl, pyname)(request=req) if req is not None else getattr(cl, pyname)()
                        if which == "async":
                            out = asyncio.run(_await(out))
                    except Exception as e:      # noqa
                        failures.append({"case": f"{which} {pyname}({form})", "error": repr(e)[:200]})
                        continue
                    if which == "async" and achan.completed != [("unary_unary", f"/acme.lab.v1.Lab/{rpc}")]:
                        failures.append({"case": f"{which} {pyname}({form})", "what": "the call was not awaited exactly once before the client method returned "
                                         "(its reply / status never reaches the caller)", "awaited_calls": repr(achan.completed)})
                    want_req = lab_v1.Req(name="p/1", n=7) if req is not None else lab_v1.Req()
                    if len(log) != 1 or log[0][0] != "unary_unary" or log[0][1] != f"/acme.lab.v1.Lab/{rpc}" or log[0][2] != lab_v1.Req.serialize(want_req):
                        failures.append({"case": f"{which} {pyname}({form})", "channel_log": repr(log)[:300], "expected_path": f"/acme.lab.v1.Lab/{rpc}"})
                    exp = None if rpc in ("Drop", "Purge") else replies.get(rpc, lab_v1.Resp(note="re:" + rpc))
                    if (out is None) != (exp is None) or (exp is not None and out != exp):
                        failures.append({"case": f"{which} {pyname}({form})", "returned": repr(out)[:100], "server_sent": repr(exp)[:100]})
        # pb2 request/response from a dependency package
        log.clear()
        cases += 1
        out = client.policy(request={"resource": "p/9"})
        if len(log) != 1 or log[0][1] != "/acme.lab.v1.Lab/Policy" or iam_policy_pb2.GetIamPolicyRequest.FromString(log[0][2]).resource != "p/9" or out.version != 3:
            failures.append({"case": "sync policy(dict)", "channel_log": repr(log)[:200], "returned": repr(out)})
        # dependency-package request, own-package response: message / dict / omitted on both clients
        for pyname, rpc, own_reply in (("policy", "Policy", False), ("policy_note", "PolicyNote", True)):
            for form, req in (("message", iam_policy_pb2.GetIamPolicyRequest(resource="p/9")), ("dict", {"resource": "p/9"}), ("omitted", None)):
                for which, cl in (("sync", client), ("async", aclient)):
                    cases += 1
                    log.clear()
                    try:
                        out = getattr(cl, pyname)(request=req) if req is not None else getattr(cl, pyname)()
                        if which == "async":
                            out = asyncio.run(_await(out))
                    except Exception as e:      # noqa
                        failures.append({"case": f"{which} {pyname}({form})", "error": repr(e)[:200]})
                        continue
                    want = iam_policy_pb2.GetIamPolicyRequest(resource="p/9" if req is not None else "")
                    if len(log) != 1 or log[0][1] != f"/acme.lab.v1.Lab/{rpc}" or log[0][2] != want.SerializeToString():
                        failures.append({"case": f"{which} {pyname}({form})", "channel_log": repr(log)[:200]})
                    exp = lab_v1.Resp(note="re:" + rpc) if own_reply else policy_pb2.Policy(version=3)
                    if out != exp:
                        failures.append({"case": f"{which} {pyname}({form})", "returned": repr(out)[:100], "server_sent": repr(exp)[:100]})
        # long-running rpc: the caller gets a future over the operation the server sent (sync and asyncio; request object and flattened arguments)
        from google.longrunning import operations_pb2
        for which, cl in (("sync", client), ("async", aclient)):
            for form, kwargs in (("message", {"request": lab_v1.OpReq(name="p/1", operation="compact")}), ("flattened", {"name": "p/1", "operation": "compact"})):
                cases += 1
                log.clear()
                replies["RunOperation"] = operations_pb2.Operation(name="operations/77", done=False)
                try:
                    out = cl.run_operation(**kwargs)
                    if which == "async":
                        out = asyncio.run(_await(out))
                except Exception as e:      # noqa
                    failures.append({"case": f"{which} run_operation({form})", "error": repr(e)[:200]})
                    continue
                if len(log) != 1 or log[0][1] != "/acme.lab.v1.Lab/RunOperation" or lab_v1.OpReq.deserialize(log[0][2]).operation != "compact":
                    failures.append({"case": f"{which} run_operation({form})", "channel_log": repr(log)[:200]})
                opname = getattr(getattr(out, "operation", None), "name", None)
                if opname != "operations/77":
                    failures.append({"case": f"{which} run_operation({form})", "returned": repr(out)[:120], "server_sent": "Operation operations/77"})
        # streaming arities (sync)
        for pyname, rpc, kind in (("watch", "Watch", "unary_stream"), ("upload", "Upload", "stream_unary"), ("chat", "Chat", "stream_stream")):
            cases += 1
            log.clear()
            try:
                if kind == "unary_stream":
                    out = list(getattr(client, pyname)(request=lab_v1.Req(name="p/1")))
                elif kind == "stream_unary":
                    out = getattr(client, pyname)(requests=iter([lab_v1.Req(name="a"), lab_v1.Req(name="b")]))
                else:
                    out = list(getattr(client, pyname)(requests=iter([lab_v1.Req(name="a")])))
            except Exception as e:      # noqa
                failures.append({"case": f"sync {pyname}", "error": repr(e)[:200]})
                continue
            if len(log) != 1 or log[0][0] != kind or log[0][1] != f"/acme.lab.v1.Lab/{rpc}":
                failures.append({"case": f"sync {pyname}", "channel_log": repr(log)[:200]})
            exp = lab_v1.Resp(note="re:" + rpc)
            if (out != [exp, exp]) if kind.endswith("stream") else (out != exp):
                failures.append({"case": f"sync {pyname}", "returned": repr(out)[:200]})
        # streaming arities (asyncio): `await client.m(...)` hands back the reply (client streaming) or an async iterator over the replies
        async def _collect(pyname, kind):
            if kind == "unary_stream":
                stream = await getattr(aclient, pyname)(request=lab_v1.Req(name="p/1"))
                return [r async for r in stream]
            if kind == "stream_unary":
                return await getattr(aclient, pyname)(requests=iter([lab_v1.Req(name="a"), lab_v1.Req(name="b")]))
            stream = await getattr(aclient, pyname)(requests=iter([lab_v1.Req(name="a")]))
            return [r async for r in stream]
        for pyname, rpc, kind in (("watch", "Watch", "unary_stream"), ("upload", "Upload", "stream_unary"), ("chat", "Chat", "stream_stream")):
            cases += 1
            log.clear()
            try:
                out = asyncio.run(_collect(pyname, kind))
                if kind == "stream_unary" and hasattr(out, "__await__"):
                    out = asyncio.run(_await(out))            # (api-core hands the awaitable call object through; awaiting it yields the reply)
            except Exception as e:      # noqa
                failures.append({"case": f"async {pyname}", "error": repr(e)[:200]})
                continue
            if len(log) != 1 or log[0][0] != kind or log[0][1] != f"/acme.lab.v1.Lab/{rpc}":
                failures.append({"case": f"async {pyname}", "channel_log": repr(log)[:200]})
            exp = lab_v1.Resp(note="re:" + rpc)
            if (out != [exp, exp]) if kind.endswith("stream") else (out != exp):
                failures.append({"case": f"async {pyname}", "returned": repr(out)[:200]})
    mc = G.run_isolated("props.C03_native", "module_collision_in_one_method")
    return {"cases": cases + mc["cases"], "failures": failures + mc["failures"]}


def module_collision_in_one_method():
    """One rpc whose request and reply come from two proto-plus dependency packages with same-named files (identity/common.proto,
    billing/common.proto): the service modules import both under distinct names and refer to each through its own name."""
    import ast
    from vf import genlab as G
    from props.C12_native import import_bindings_unique
    from props.C01_native import undefined_names
    G.stub_pandoc_if_absent()
    T = G.T
    ident = G.new_file("acme/identity/v1/common.proto", "acme.identity.v1")
    G.add_message(ident, "Account", [G.F("name", 1, T.TYPE_STRING)])
    bill = G.new_file("acme/billing/v1/common.proto", "acme.billing.v1")
    G.add_message(bill, "Invoice", [G.F("total", 1, T.TYPE_INT32)])
    fd = G.new_file("acme/desk/v1/desk.proto", "acme.desk.v1", deps=G.STD_DEPS + ["acme/identity/v1/common.proto", "acme/billing/v1/common.proto"])
    G.add_method(G.add_service(fd, "Desk"), "Charge", ".acme.identity.v1.Account", ".acme.billing.v1.Invoice", http=("post", "/v1/{name=a/*}:charge"), body="*")
    failures, cases = [], 0
    try:
        api, res = G.generate([ident, bill, fd], "autogen-snippets=false,proto-plus-deps=acme.identity.v1+acme.billing.v1", to_generate=["acme/desk/v1/desk.proto"])
    except Exception as e:      # noqa
        return {"cases": 1, "failures": [{"case": "same-named modules of two packages in one method: generation failed", "error": repr(e)[:200]}]}
    cases += import_bindings_unique(res, failures, "same-named modules of two packages in one method")
    for f in res.file:
        if f.name.endswith(".py") and "/services/" in f.name:
            und = undefined_names(ast.parse(f.content))
            if und:
                failures.append({"case": "same-named modules of two packages in one method: names used but bound nowhere", "file": f.name, "names": und[:5]})
    return {"cases": cases, "failures": failures}


async def _await(x):
    return await x
