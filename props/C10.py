"""C10 - generation is a pure, deterministic function of the request.

Ghost predicate det(x) ("x, including the iteration order of every container in it, is a function of the request and option files only"),
decided as a discipline over the real sources on every run (vf/det.py):
  stage 1: every function of gapic/{schema,generator,utils,samplegen*,cli}: a value that carries hash order (a set/frozenset, or a
           sequence/dict filled while iterating one) may only flow into order-insensitive consumers or through sorted() with an injective
           key; the functions whose *result* carries hash order are computed as a fixpoint (TAINTED);
  stage 2: every use of a TAINTED attribute in every template of both template sets must be order-insensitive (tests, `in`), sorted by an
           injective key, or inside a `{% filter sort_lines %}` block; environment reads (time, random, os.environ, cwd) are forbidden in
           code that reaches the response.
Cover (bounded, exploration): the real generator is run under several PYTHONHASHSEED values in separate processes on an API built to
provoke ties (several resources, retryable codes, required query parameters, case-variant names) and the responses are compared bytewise.
"""
import ast, os, re
from jinja2 import nodes
from vf.core import Run, Result, REPO
from vf import det
from vf import j2sym as J

DIRS = ("gapic/schema", "gapic/generator", "gapic/utils", "gapic/samplegen_utils", "gapic/samplegen", "gapic/cli")
# sorted(key=...) keys that are injective on the collection they sort (justification in DESIGN.md section 5/C10)
INJECTIVE_PY_KEYS = {"lambda s: s.name", "lambda m: m.name"}
# python findings that do not reach the response
ALLOW_PY = {
    "gapic/schema/naming.py:Naming.build:join() over an unordered value": "text of a ValueError raised before any response is produced",
    "gapic/samplegen/samplegen.py:Validator.validate_and_transform_request:join() over an unordered value": "text of an exception message (InvalidRequestSetup); no response is produced",
}
# template sort keys: injective on the sorted collection?
SORT_KEYS = {"__name__": True,        # exception classes of one api-core table
             "name": True,            # services of one API / methods of one service / messages of one scope
             "type_name": True,       # common resources (dict keyed by it)
             "resource_type": False}  # NOT injective: 'a.example.com/Thing' and 'b.example.com/Thing' share the short type


def python_side(run: Run):
    files = []
    for d in DIRS:
        for f in sorted(os.listdir(os.path.join(REPO, d))):
            if f.endswith(".py") and not f.endswith("_pb2.py"):
                files.append(d + "/" + f)
    trees = {f: ast.parse(open(os.path.join(REPO, f)).read()) for f in files}
    tainted = set()
    for _ in range(4):
        for f, t in trees.items():
            _, rs, _ = det.analyse_module(f, t, tainted, INJECTIVE_PY_KEYS)
            tainted |= rs
    nfun = 0
    findings = []
    for f, t in trees.items():
        fs, _, n = det.analyse_module(f, t, tainted, INJECTIVE_PY_KEYS)
        nfun += n
        findings += fs
    run.functions.append({"qualname": f"{nfun} functions in {len(files)} modules", "source": ", ".join(DIRS), "obligations": "det discipline per function",
                          "hash_order_carrying_results": sorted(tainted)})
    for x in findings:
        key = f"{x.where}:{x.what}"
        allowed = ALLOW_PY.get(key)
        run.results.append(Result(f"det.py:{x.where}@L{x.lineno}", "discharged" if allowed else "open", "det-walk", 0, "structural",
                                  detail=(f"allowed: {allowed}" if allowed else f"{x.what}: {x.code}"), group=f"det.py:{x.where}"))
    # the plugin's entry point hands back the response: it must not be among the functions whose result carries hash order
    run.table("det.py:entry-point-result-carries-no-hash-order", not ({"get_response", "generate"} & tainted), detail=str(sorted({"get_response", "generate"} & tainted)),
              group="det.py:entry-point")
    run.table("det.py:functions-analysed", nfun > 250, detail=str(nfun), group="det.py:cover")
    # environment reads
    env_hits = []
    for f, t in trees.items():
        for n in ast.walk(t):
            if isinstance(n, ast.Attribute):
                src = ast.unparse(n)
                if re.match(r"(time\.(time|strftime|localtime)|datetime\.(datetime\.)?(now|today|utcnow)|random\.\w+|os\.environ|os\.getcwd|uuid\.uuid[14])\b", src):
                    env_hits.append(f"{f}:{n.lineno}:{src}")
    # generate_with_pandoc.py only points pypandoc at the bundled pandoc binary (PYPANDOC_PANDOC) before delegating to generate()
    allowed_env = [h for h in env_hits if "cli/generate_with_pandoc.py" in h and "os.environ" in h]
    run.table("det.py:no-environment-reads-in-the-generator", set(env_hits) <= set(allowed_env), detail=str(env_hits[:6]), group="det.py:environment")
    return tainted


def _parents(tree):
    par = {}
    for n in tree.find_all(nodes.Node):
        for c in n.iter_child_nodes():
            par[id(c)] = n
    return par


def template_side(run: Run, tainted):
    """Every use of a hash-order-carrying attribute in every template."""
    n_uses = 0
    import jinja2
    for tdir in ("gapic/templates", "gapic/ads-templates"):
        root = os.path.join(REPO, tdir)
        env = jinja2.Environment(extensions=["jinja2.ext.do"])
        for dp, _, fs in os.walk(root):
            for f in sorted(fs):
                if not f.endswith(".j2"):
                    continue
                rel = os.path.relpath(os.path.join(dp, f), REPO)
                try:
                    tree = env.parse(open(os.path.join(dp, f)).read())
                except Exception as e:       # noqa
                    run.unsupported.append(f"{rel}: {e}")
                    continue
                par = _parents(tree)
                for n in tree.find_all((nodes.Getattr, nodes.Call)):
                    attr = n.attr if isinstance(n, nodes.Getattr) else (n.node.attr if isinstance(n.node, nodes.Getattr) else None)
                    if attr not in tainted:
                        continue
                    if isinstance(n, nodes.Getattr) and isinstance(par.get(id(n)), nodes.Call) and par[id(n)].node is n:
                        continue       # counted at the Call node
                    n_uses += 1
                    verdict, why = classify_use(n, par)
                    run.results.append(Result(f"det.j2:{rel}@L{n.lineno}:{attr}", "discharged" if verdict else "open", "det-walk", 0, "structural",
                                              detail=why, group=f"det.j2:{attr}:{why.split(':')[0]}"))
    run.table("det.j2:uses-of-hash-ordered-attributes-found", n_uses > 5, detail=str(n_uses), group="det.j2:cover")


def classify_use(n, par):
    """-> (ok, reason)"""
    filters = []
    cur = n
    while True:
        p = par.get(id(cur))
        if p is None:
            return False, "unclassified: no consumer"
        if isinstance(p, nodes.Filter) and p.node is cur:
            filters.append((p.name, {k.key: getattr(k.value, "value", None) for k in p.kwargs}, [getattr(a, "value", None) for a in p.args]))
            cur = p
            continue
        if isinstance(p, (nodes.Getattr, nodes.Getitem)) and p.node is cur:      # .values() / .items() / [k]
            if isinstance(p, nodes.Getitem):
                return True, "keyed-lookup: order-insensitive"
            cur = p
            continue
        if isinstance(p, nodes.Call) and p.node is cur:
            cur = p
            continue
        break
    names = [f[0] for f in filters]
    sorted_ok = None
    for name, kw, args in filters:
        if name in ("sort", "dictsort"):
            key = kw.get("attribute")
            if key is None:
                sorted_ok = True
            else:
                sorted_ok = SORT_KEYS.get(key)
                if sorted_ok is None:
                    return False, f"sort-key-not-in-the-injectivity-table: {key}"
                if not sorted_ok:
                    return False, f"sort-key-not-injective: attribute={key} (ties keep hash order)"
    # inside a sort_lines filter block?
    q = p
    in_sort_lines = False
    while q is not None:
        if isinstance(q, nodes.FilterBlock) and q.filter.name == "sort_lines":
            in_sort_lines = True
        q = par.get(id(q))
    if isinstance(p, nodes.Compare) or isinstance(p, nodes.Operand):
        return True, "membership-test: order-insensitive"
    if isinstance(p, (nodes.If, nodes.Not, nodes.And, nodes.Or, nodes.Test, nodes.CondExpr)) or "length" in names:
        return True, "truthiness-or-length: order-insensitive"
    if isinstance(p, nodes.For) and p.iter is cur:
        if sorted_ok:
            return True, "for-loop: sorted by an injective key"
        if in_sort_lines:
            return True, "for-loop: inside a sort_lines block (emitted lines are sorted and de-duplicated)"
        return False, "for-loop-in-hash-order: neither sorted nor inside sort_lines"
    if sorted_ok and isinstance(p, (nodes.Output, nodes.Assign, nodes.Call, nodes.Filter)):
        return True, "sorted by an injective key"
    if in_sort_lines:
        return True, "inside a sort_lines block"
    return False, f"unclassified-consumer: {type(p).__name__} filters={names}"


def run(run: Run):
    run.witness_check = witness_still_fails
    tainted = python_side(run)
    template_side(run, tainted)
    run.native_standin("props.C10_native", "scenarios", "byte comparison of the real plugin's responses across PYTHONHASHSEED values, working directories and processes")
    run.assume("dict preserves insertion order; jinja2.FileSystemLoader.list_templates() is sorted; protobuf map iteration is a function of the contents",
               "sort_lines (sorted, de-duplicated lines) restores determinism of the text inside it - proved for the unkeyed sorted() it uses by the det discipline")


def witness_still_fails(k):
    from vf.genlab import run_isolated
    f = run_isolated("props.C10_native", "scenarios")
    return any(x.get("known") == k["witness"] for x in f["failures"])


def falsify(run, group, info):
    from vf.genlab import run_isolated
    f = run_isolated("props.C10_native", "scenarios")
    fails = [x for x in f["failures"] if not x.get("known")]
    return ({"kind": "hashseed", "failures": fails[:4]}, True) if fails else (None, False)


def replay(path):
    import json
    from vf.genlab import run_isolated
    f = run_isolated("props.C10_native", "scenarios")
    fails = [x for x in f["failures"] if not x.get("known")]
    print("hash-seed comparison ->", json.dumps(fails[:3])[:1500] if fails else "byte-identical (known findings aside)")
    return 1 if fails else 0
