"""C16 - selective generation keeps exactly the listed RPCs and a closed set of types.

The allow-list traversal (add_to_address_allowlist of EnumType / Field / MessageType / OperationInfo / ExtendedOperationInfo /
Method) is proved against the graph lemma with a ghost in-progress set S:

    requires  Closed(A, S)          every allow-listed node outside S has all its successors allow-listed
    ensures   Closed(A', S),  self in A',  A subset A',  A' subset A + Reach(self)        (closure, progress, monotonicity, minimality)

`succ` is the successor relation of the property statement (field types, nested types, resource references; for a method its
input, output, LRO response/metadata, extended-LRO request/operation types).  Recursion is by contract; termination is not proved.
"""
import z3
from vf.core import Run
from vf.pyvc import Contract
from vf.schema import SchemaModel
from vf.smt import Ref, fn
from vf.types import *        # noqa

W = "gapic/schema/wrappers.py"
succ = fn("spec.succ", Ref, Ref, z3.BoolSort())
reach = fn("spec.reach", Ref, Ref, z3.BoolSort())

CLOSED = "forall(lambda x: implies(x in {A} and x not in {S}, forall(lambda y: implies(succ(x, y), y in {A}), Address)), Address)"
SUBSET = "forall(lambda x: implies(x in {A}, x in {B}), Address)"
MINIMAL = "forall(lambda z: implies(z in address_allowlist, z in old_address_allowlist or ({R})), Address)"


def closed(A, S):
    return CLOSED.format(A=A, S=S)


def schema_model():
    m = SchemaModel()
    m.classes["Field"].update({"add_to_address_allowlist": "method"})
    m.classes["MessageType"].update({"add_to_address_allowlist": "method"})
    m.classes["EnumType"].update({"add_to_address_allowlist": "method"})
    m.classes["OperationInfo"].update({"add_to_address_allowlist": "method"})
    m.classes["ExtendedOperationInfo"].update({"add_to_address_allowlist": "method"})
    m.classes["Method"].update({"add_to_address_allowlist": "method", "operation_service": "Str", "with_internal_methods": "method", "is_operation_polling_method": "Bool",
                                "_fields": ["method_pb", "input", "output", "is_internal", "lro", "extended_lro", "meta"]})
    m.classes["Service"].update({"add_to_address_allowlist": "method", "operation_polling_method": "Opt[Method]", "is_internal": "Bool",
                                 "client_name": "Str", "async_client_name": "Str", "prune_messages_for_selective_generation": "method",
                                 "with_internal_methods": "method", "_fields": ["service_pb", "methods", "visible_resources", "meta"],
                                 "visible_resources": "Opaque"})
    m.add_class("Proto", {"services": "Map[Str,Service]", "all_messages": "Map[Str,MessageType]", "all_enums": "Map[Str,EnumType]",
                          "file_pb2": "Opaque", "file_to_generate": "Bool", "meta": "Metadata",
                          "_fields": ["file_pb2", "services", "all_messages", "all_enums", "file_to_generate", "meta"]})
    from vf.model import Native
    from google.cloud import extended_operations_pb2 as ex_ops_pb2
    m.globals["ex_ops_pb2"] = pyv(Native(ex_ops_pb2))
    m.extensions["google.cloud.operation_service"] = "Str"
    m.classes["Method"]["options"] = "MethodOptions"
    m.classes["MessageType"]["is_extended_operation"] = "Bool"
    m.classes["API"].update({"naming": "Naming", "get_custom_operation_service": "method", "get_extended_operations_services": "method"})
    m.add_spec("op_service_name", ["api", "meth"], "api.naming.proto_package + '.' + meth.options.Extensions[ex_ops_pb2.operation_service]")
    m.globals["utils.make_private"] = pyv(__import__("vf.model", fromlist=["FuncV"]).FuncV("contract", "make_private"))
    m.specs["succ"] = lambda ex, args, st: V(succ(args[0].term, args[1].term), BOOL)
    m.specs["reach"] = lambda ex, args, st: V(reach(args[0].term, args[1].term), BOOL)
    x, y, z = z3.Consts("rx ry rz", Ref)
    m.add_axiom(z3.ForAll([x], reach(x, x), patterns=[reach(x, x)]))
    m.add_axiom(z3.ForAll([x, y, z], z3.Implies(z3.And(succ(x, y), reach(y, z)), reach(x, z)), patterns=[z3.MultiPattern(succ(x, y), reach(y, z))]))
    # successor relation of the statement, per wrapper kind (definitional; one wrapper per address)
    m.add_spec("field_target", ["f", "y", "rm"],
               "(f.message is not None and y is f.message.ident) or (f.enum is not None and y is f.enum.ident) or "
               "(f.resource_reference is not None and f.resource_reference != '' and f.resource_reference in rm and y is rm[f.resource_reference].ident)")
    m.add_spec("msg_succ", ["m", "y", "rm"],
               "exists(lambda f: field_target(f, y, rm), m.fields.values()) or exists(lambda e: y is e.ident, m.nested_enums.values()) or "
               "exists(lambda n: y is n.ident, m.nested_messages.values()) or "
               # 'so that it imports and the kept RPCs behave as in the full library': a nested class is emitted only inside its
               # enclosing message, so the enclosing message of a kept nested type must be kept too
               "(len(m.ident.parent) > 0 and y is enclosing_ident(m))")
    m.specs["enclosing_ident"] = lambda ex, args, st: V(fn("spec.enclosing_ident", Ref, Ref)(args[0].term), parse_type("Address"))
    m.add_spec("defines_succ_msg", ["m", "rm"], "forall(lambda y: succ(m.ident, y) == msg_succ(m, y, rm), Address)")
    m.globals["RM"] = V(z3.Const("RM", Ref), parse_type("Map[Str,MessageType]"))     # the API-wide resource table (never modified)
    m.add_spec("method_succ", ["m", "y", "sp"],
               "y is m.input.ident or y is m.output.ident or "
               "(m.lro is not None and (y is m.lro.response_type.ident or y is m.lro.metadata_type.ident)) or "
               "(m.extended_lro is not None and m.operation_service != '' and m.operation_service in sp and "
               " (y is sp[m.operation_service].meta.address or y is sp[m.operation_service].operation_polling_method.ident or "
               "  y is m.extended_lro.request_type.ident or y is m.extended_lro.operation_type.ident))")
    m.add_spec("wf_method", ["mm", "sp"],
               "implies(mm.extended_lro is not None and mm.operation_service != '', mm.operation_service in sp and "
               "sp[mm.operation_service].operation_polling_method is not None)")
    m.add_spec("wf_sp", ["sp"],
               "forall(lambda s: implies(s.operation_polling_method is not None, wf_method(s.operation_polling_method, sp)), sp.values())")
    m.add_spec("exists_key", ["p", "A"],
               "exists(lambda k: k in p.services and p.services[k].meta.address in A, str) or "
               "exists(lambda k: k in p.all_messages and p.all_messages[k].ident in A, str) or "
               "exists(lambda k: k in p.all_enums and p.all_enums[k].ident in A, str)")
    m.add_spec("no_succ", ["a"], "forall(lambda y: not succ(a, y), Address)")
    return m


def contracts(m):
    P = {"address_allowlist": "Set[Address]", "resource_messages": "Map[Str,MessageType]"}
    G = {"S": "Set[Address]"}
    pre = [closed("address_allowlist", "S")]
    post = [closed("address_allowlist", "S"), SUBSET.format(A="old_address_allowlist", B="address_allowlist")]
    cs = []
    cs.append(Contract("EnumType.add_to_address_allowlist", source=(W, "EnumType.add_to_address_allowlist"),
                       params={"self": "EnumType", "address_allowlist": "Set[Address]"}, ghost=G, modifies=("address_allowlist",), pure=False,
                       requires=pre, definitional=["no_succ(self.ident)"],
                       ensures=post + ["self.ident in address_allowlist", MINIMAL.format(R="z is self.ident")]))
    cs.append(Contract("MessageType.add_to_address_allowlist", source=(W, "MessageType.add_to_address_allowlist"),
                       params={"self": "MessageType", **P}, ghost=G, modifies=("address_allowlist",), pure=False,
                       requires=pre + ["resource_messages is RM"], definitional=["defines_succ_msg(self, RM)"],
                       ensures=post + ["self.ident in address_allowlist", MINIMAL.format(R="reach(self.ident, z)")],
                       ghost_code={"after:address_allowlist.add(self.ident)": "S0 = S\nS = S | {self.ident}",
                                   # lemmas (each is an obligation of its own): what the loop variable denotes is a successor of self
                                   "after:field.add_to_address_allowlist(address_allowlist=address_allowlist, resource_messages=resource_messages)":
                                       "assert forall(lambda t: implies(field_target(field, t, RM), succ(self.ident, t)), Address)\n"
                                       "assert implies(field.message is not None, succ(self.ident, field.message.ident))\n"
                                       "assert implies(field.enum is not None, succ(self.ident, field.enum.ident))\n"
                                       "assert implies(field.resource_reference is not None and field.resource_reference != '' and field.resource_reference in RM, succ(self.ident, RM[field.resource_reference].ident))\n"
                                       "assert forall(lambda z: implies(field.message is not None and reach(field.message.ident, z), reach(self.ident, z)), Address)\n"
                                       "assert forall(lambda z: implies(field.enum is not None and reach(field.enum.ident, z), reach(self.ident, z)), Address)\n"
                                       "assert forall(lambda z: implies(field.resource_reference is not None and field.resource_reference != '' and field.resource_reference in RM and reach(RM[field.resource_reference].ident, z), reach(self.ident, z)), Address)",
                                   "after:enum.add_to_address_allowlist(address_allowlist=address_allowlist)":
                                       "assert succ(self.ident, enum.ident)\nassert forall(lambda z: implies(reach(enum.ident, z), reach(self.ident, z)), Address)",
                                   "after:message.add_to_address_allowlist(address_allowlist=address_allowlist, resource_messages=resource_messages)":
                                       "assert succ(self.ident, message.ident)\nassert forall(lambda z: implies(reach(message.ident, z), reach(self.ident, z)), Address)"},
                       invariants={
                           "for#1": [closed("address_allowlist", "S"), SUBSET.format(A="old_address_allowlist", B="address_allowlist"),
                                     "self.ident in address_allowlist",
                                     "forall(lambda j: forall(lambda y: implies(field_target(self.fields.values()[j], y, resource_messages), y in address_allowlist), Address), 0, _k)",
                                     MINIMAL.format(R="reach(self.ident, z)")],
                           "for#2": [closed("address_allowlist", "S"), SUBSET.format(A="old_address_allowlist", B="address_allowlist"),
                                     "self.ident in address_allowlist",
                                     "forall(lambda f: forall(lambda y: implies(field_target(f, y, resource_messages), y in address_allowlist), Address), self.fields.values())",
                                     "forall(lambda j: self.nested_enums.values()[j].ident in address_allowlist, 0, _k)",
                                     MINIMAL.format(R="reach(self.ident, z)")],
                           "for#3": [closed("address_allowlist", "S"), SUBSET.format(A="old_address_allowlist", B="address_allowlist"),
                                     "self.ident in address_allowlist",
                                     "forall(lambda f: forall(lambda y: implies(field_target(f, y, resource_messages), y in address_allowlist), Address), self.fields.values())",
                                     "forall(lambda e: e.ident in address_allowlist, self.nested_enums.values())",
                                     "forall(lambda j: self.nested_messages.values()[j].ident in address_allowlist, 0, _k)",
                                     MINIMAL.format(R="reach(self.ident, z)")],
                       }))
    cs.append(Contract("Field.add_to_address_allowlist", source=(W, "Field.add_to_address_allowlist"),
                       params={"self": "Field", **P}, ghost=G, modifies=("address_allowlist",), pure=False,
                       requires=pre + ["resource_messages is RM"],
                       ensures=post + ["forall(lambda y: implies(field_target(self, y, resource_messages), y in address_allowlist), Address)",
                                       MINIMAL.format(R="(self.message is not None and reach(self.message.ident, z)) or (self.enum is not None and reach(self.enum.ident, z)) or "
                                                        "(self.resource_reference is not None and self.resource_reference != '' and self.resource_reference in resource_messages "
                                                        "and reach(resource_messages[self.resource_reference].ident, z))")]))
    # ---- LRO helpers and methods ---------------------------------------------------------------------------------------
    for cls, a, b in (("OperationInfo", "response_type", "metadata_type"), ("ExtendedOperationInfo", "request_type", "operation_type")):
        cs.append(Contract(f"{cls}.add_to_address_allowlist", source=(W, f"{cls}.add_to_address_allowlist"),
                           params={"self": cls, **P}, ghost=G, modifies=("address_allowlist",), pure=False,
                           requires=pre + ["resource_messages is RM"],
                           ensures=post + [f"self.{a}.ident in address_allowlist", f"self.{b}.ident in address_allowlist",
                                           MINIMAL.format(R=f"reach(self.{a}.ident, z) or reach(self.{b}.ident, z)")]))
    cs.append(Contract("Method.add_to_address_allowlist", source=(W, "Method.add_to_address_allowlist"),
                       params={"self": "Method", **P, "services_in_proto": "Map[Str,Service]"}, ghost=G, modifies=("address_allowlist",), pure=False,
                       requires=pre + ["resource_messages is RM",
                                       # well-formedness established by API.build (extended-LRO checks): the operation service exists and polls
                                       "wf_method(self, services_in_proto)", "wf_sp(services_in_proto)"],
                       definitional=["forall(lambda y: succ(self.ident, y) == method_succ(self, y, services_in_proto), Address)",
                                     "implies(self.extended_lro is not None and self.operation_service != '' and self.operation_service in services_in_proto, "
                                     "no_succ(services_in_proto[self.operation_service].meta.address))"],
                       ensures=post + ["self.ident in address_allowlist", MINIMAL.format(R="reach(self.ident, z)")],
                       ghost_code={"after:address_allowlist.add(self.ident)": "S = S | {self.ident}",
                                   "after:self.output.add_to_address_allowlist(address_allowlist=address_allowlist, resource_messages=resource_messages)":
                                       "assert succ(self.ident, self.input.ident) and succ(self.ident, self.output.ident)\n"
                                       "assert forall(lambda z: implies(reach(self.input.ident, z) or reach(self.output.ident, z), reach(self.ident, z)), Address)\n"
                                       "assert implies(self.lro is not None, succ(self.ident, self.lro.response_type.ident) and succ(self.ident, self.lro.metadata_type.ident))\n"
                                       "assert forall(lambda z: implies(self.lro is not None and (reach(self.lro.response_type.ident, z) or reach(self.lro.metadata_type.ident, z)), reach(self.ident, z)), Address)\n"
                                       "assert implies(self.extended_lro is not None and self.operation_service != '', "
                                       "succ(self.ident, services_in_proto[self.operation_service].meta.address) and "
                                       "succ(self.ident, services_in_proto[self.operation_service].operation_polling_method.ident) and "
                                       "succ(self.ident, self.extended_lro.request_type.ident) and succ(self.ident, self.extended_lro.operation_type.ident))\n"
                                       "assert implies(self.extended_lro is not None and self.operation_service != '', reach(services_in_proto[self.operation_service].meta.address, services_in_proto[self.operation_service].meta.address))\n"
                                       "assert implies(self.extended_lro is not None and self.operation_service != '', reach(self.ident, services_in_proto[self.operation_service].meta.address))\n"
                                       "assert forall(lambda z: implies(self.extended_lro is not None and self.operation_service != '' and reach(services_in_proto[self.operation_service].operation_polling_method.ident, z), reach(self.ident, z)), Address)\n"
                                       "assert forall(lambda z: implies(self.extended_lro is not None and self.operation_service != '' and reach(self.extended_lro.request_type.ident, z), reach(self.ident, z)), Address)\n"
                                       "assert forall(lambda z: implies(self.extended_lro is not None and self.operation_service != '' and reach(self.extended_lro.operation_type.ident, z), reach(self.ident, z)), Address)"}))
    cs.append(Contract("Service.add_to_address_allowlist", source=(W, "Service.add_to_address_allowlist"),
                       params={"self": "Service", "address_allowlist": "Set[Address]", "method_allowlist": "Set[Str]",
                               "resource_messages": "Map[Str,MessageType]", "services_in_proto": "Map[Str,Service]"},
                       ghost=G, modifies=("address_allowlist",), pure=False,
                       requires=pre + ["resource_messages is RM", "wf_sp(services_in_proto)",
                                       "forall(lambda mm: wf_method(mm, services_in_proto), self.methods.values())"],
                       definitional=["no_succ(self.meta.address)"],
                       ensures=post + ["forall(lambda m: implies(m.ident.proto in method_allowlist, m.ident in address_allowlist and self.meta.address in address_allowlist), self.methods.values())",
                                       MINIMAL.format(R="exists(lambda m: m.ident.proto in method_allowlist and (z is self.meta.address or reach(m.ident, z)), self.methods.values())")],
                       invariants={"for#1": [closed("address_allowlist", "S"), SUBSET.format(A="old_address_allowlist", B="address_allowlist"),
                                             "forall(lambda j: implies(self.methods.values()[j].ident.proto in method_allowlist, self.methods.values()[j].ident in address_allowlist and self.meta.address in address_allowlist), 0, _k)",
                                             MINIMAL.format(R="exists(lambda j: self.methods.values()[j].ident.proto in method_allowlist and (z is self.meta.address or reach(self.methods.values()[j].ident, z)), 0, _k)")]}))
    # the polling method an operation service contributes ("plus an extended-operation polling method they need"): one of the service's own rpcs,
    # flagged as polling method, None iff there is none
    cs.append(Contract("Service.operation_polling_method", source=(W, "Service.operation_polling_method"), params={"self": "Service"}, result="Opt[Method]",
                       ensures=["(result is None) == (not exists(lambda x: x.is_operation_polling_method, self.methods.values()))",
                                "implies(result is not None, result.is_operation_polling_method and exists(lambda x: x is result, self.methods.values()))"]))
    # which operation service an extended-operation rpc polls: `<proto package>.<operation_service annotation>`, an existing service with a polling method
    # (ValueError otherwise); a service uses exactly the operation services of its annotated rpcs
    A_ = "gapic/schema/api.py"
    bad = ("not {x}.output.is_extended_operation or op_service_name(self, {x}) not in self.services or "
           "self.services[op_service_name(self, {x})].operation_polling_method is None")
    cs.append(Contract("Method.operation_service", source=(W, "Method.operation_service"), params={"self": "Method"}, result="Str",
                       ensures=["result == self.options.Extensions[ex_ops_pb2.operation_service]"]))
    cs.append(Contract("API.get_custom_operation_service", source=(A_, "API.get_custom_operation_service"), params={"self": "API", "method": "Method"}, result="Service",
                       ensures=["result is self.services[op_service_name(self, method)]", "result.operation_polling_method is not None", "method.output.is_extended_operation"],
                       raises={"ValueError": bad.format(x="method")}))
    cs.append(Contract("API.get_extended_operations_services", source=(A_, "API.get_extended_operations_services"), params={"self": "API", "service": "Service"},
                       result="Set[Service]",
                       ensures=["forall(lambda x: implies(x.operation_service != '', self.services[op_service_name(self, x)] in result), service.methods.values())",
                                "forall(lambda s: implies(s in result, exists(lambda x: x.operation_service != '' and s is self.services[op_service_name(self, x)], "
                                "service.methods.values())), Service)"],
                       raises={"ValueError": "exists(lambda x: x.operation_service != '' and (" + bad.format(x="x") + "), service.methods.values())"}))
    # ---- internal mode ------------------------------------------------------------------------------------------------------
    cs.append(Contract("Method.with_internal_methods", source=(W, "Method.with_internal_methods"),
                       params={"self": "Method", "public_methods": "Set[Str]"}, result="Method",
                       requires=["not self.is_internal"],
                       ensures=["result.is_internal == (self.ident.proto not in public_methods)", "result.method_pb is self.method_pb",
                                "result.input is self.input and result.output is self.output"]))
    cs.append(Contract("Service.is_internal", source=(W, "Service.is_internal"), params={"self": "Service"}, result="Bool",
                       ensures=["result == exists(lambda m: m.is_internal, self.methods.values())"]))
    cs.append(Contract("Service.client_name", source=(W, "Service.client_name"), params={"self": "Service"}, result="Str",
                       ensures=["result == ('Base' if exists(lambda m: m.is_internal, self.methods.values()) else '') + self.name + 'Client'"]))
    cs.append(Contract("Service.async_client_name", source=(W, "Service.async_client_name"), params={"self": "Service"}, result="Str",
                       ensures=["result == ('Base' if exists(lambda m: m.is_internal, self.methods.values()) else '') + self.name + 'AsyncClient'"]))
    cs.append(Contract("Service.with_internal_methods", source=(W, "Service.with_internal_methods"),
                       params={"self": "Service", "public_methods": "Set[Str]"}, result="Service",
                       requires=["forall(lambda m: not m.is_internal, self.methods.values())"],
                       ensures=["forall(lambda k: (k in result.methods) == (k in self.methods), str)",        # nothing is omitted
                                "forall(lambda k: implies(k in self.methods, result.methods[k].is_internal == (self.methods[k].ident.proto not in public_methods) "
                                "and result.methods[k].method_pb is self.methods[k].method_pb), str)",
                                "result.service_pb is self.service_pb"]))
    # the file level: every service of the file is kept, each with the marking of Service.with_internal_methods (read by contract); nothing else changes
    cs.append(Contract("Proto.with_internal_methods", source=("gapic/schema/api.py", "Proto.with_internal_methods"),
                       params={"self": "Proto", "public_methods": "Set[Str]"}, result="Proto",
                       requires=["forall(lambda s: forall(lambda m: not m.is_internal, s.methods.values()), self.services.values())"],
                       ensures=["forall(lambda k: (k in result.services) == (k in self.services), str)",
                                "forall(lambda k: implies(k in self.services, result.services[k].service_pb is self.services[k].service_pb and "
                                "forall(lambda q: (q in result.services[k].methods) == (q in self.services[k].methods), str) and "
                                "forall(lambda q: implies(q in self.services[k].methods, result.services[k].methods[q].is_internal == "
                                "(self.services[k].methods[q].ident.proto not in public_methods)), str)), str)",
                                "result.all_messages is self.all_messages and result.all_enums is self.all_enums and result.file_to_generate == self.file_to_generate "
                                "and result.meta is self.meta and result.file_pb2 is self.file_pb2"]))
    cs.append(Contract("make_private", source=("gapic/utils/code.py", "make_private"), params={"object_name": "Str"}, result="Str",
                       ensures=["result == (object_name if object_name.startswith('_') else '_' + object_name)"]))
    # ---- pruning --------------------------------------------------------------------------------------------------------------
    cs.append(Contract("Service.prune_messages_for_selective_generation", source=(W, "Service.prune_messages_for_selective_generation"),
                       params={"self": "Service", "address_allowlist": "Set[Address]"}, result="Service",
                       ensures=["forall(lambda k: (k in result.methods) == (k in self.methods and self.methods[k].ident in address_allowlist), str)",
                                "forall(lambda k: implies(k in result.methods, result.methods[k] is self.methods[k]), str)",
                                "result.service_pb is self.service_pb and result.meta is self.meta"]))
    cs.append(Contract("Proto.prune_messages_for_selective_generation", source=("gapic/schema/api.py", "Proto.prune_messages_for_selective_generation"),
                       params={"self": "Proto", "address_allowlist": "Set[Address]"}, result="Opt[Proto]",
                       ensures=["(result is None) == (not exists_key(self, address_allowlist))",
                                "implies(result is not None, forall(lambda k: (k in result.all_messages) == (k in self.all_messages and self.all_messages[k].ident in address_allowlist), str))",
                                "implies(result is not None, forall(lambda k: implies(k in result.all_messages, result.all_messages[k] is self.all_messages[k]), str))",
                                "implies(result is not None, forall(lambda k: (k in result.all_enums) == (k in self.all_enums and self.all_enums[k].ident in address_allowlist), str))",
                                "implies(result is not None, forall(lambda k: (k in result.services) == (k in self.services and self.services[k].meta.address in address_allowlist), str))",
                                "implies(result is not None, forall(lambda k: implies(k in result.services, "
                                "forall(lambda q: (q in result.services[k].methods) == (q in self.services[k].methods and self.services[k].methods[q].ident in address_allowlist), str)), str))"]))
    return cs


def witness_still_fails(k):
    from vf.genlab import run_isolated
    f = run_isolated("props.C16_native", "scenarios")
    _g = run_isolated("props.C16_native", "extended_scenarios")
    f = {"cases": f.get("cases", 0) + _g.get("cases", 0), "failures": list(f["failures"]) + list(_g["failures"])}
    return any(x.get("known") == k["witness"] for x in f["failures"])


def falsify(run, group, info):
    from vf.genlab import run_isolated
    f = run_isolated("props.C16_native", "scenarios")
    _g = run_isolated("props.C16_native", "extended_scenarios")
    f = {"cases": f.get("cases", 0) + _g.get("cases", 0), "failures": list(f["failures"]) + list(_g["failures"])}
    run.bounded.append({"what": "falsifier: selective generation of a concrete type graph through the real API.build (closure, minimality, method set, dependencies, internal mode, validation)", "cases": f["cases"]})
    fails = [x for x in f["failures"] if not x.get("known")]
    return ({"kind": "selective", "failures": fails[:6]}, True) if fails else (None, False)


def replay(path):
    import json
    from vf.genlab import run_isolated
    f = run_isolated("props.C16_native", "scenarios")
    _g = run_isolated("props.C16_native", "extended_scenarios")
    f = {"cases": f.get("cases", 0) + _g.get("cases", 0), "failures": list(f["failures"]) + list(_g["failures"])}
    fails = [x for x in f["failures"] if not x.get("known")]
    print("selective-generation scenarios ->", json.dumps(fails[:4]) if fails else "conform (known findings aside)")
    return 1 if fails else 0


def api_views(run: Run):
    """What the templates see of the (pruned) API: API.services / API.messages / API.enums hold exactly the keys of the kept files' services /
    all_messages / all_enums, each value taken from a file that holds the key - so an entry pruned from every file is gone from the API's views,
    and nothing else is.  (A model of their own: the big traversal model keeps reading these three as plain accessors.)"""
    m = SchemaModel()
    m.add_class("Proto", {"services": "Map[Str,Service]", "all_messages": "Map[Str,MessageType]", "all_enums": "Map[Str,EnumType]"})
    m.classes["API"].update({"protos": "Map[Str,Proto]"})
    m.globals["collections"] = pyv(("module", "collections"))
    for attr, pattr, ty in (("services", "services", "Service"), ("messages", "all_messages", "MessageType"), ("enums", "all_enums", "EnumType")):
        c = Contract(f"API.{attr}", source=("gapic/schema/api.py", f"API.{attr}"), params={"self": "API"}, result=f"Map[Str,{ty}]",
                     ensures=[f"forall(lambda k: (k in result) == exists(lambda p: k in p.{pattr}, self.protos.values()), str)",
                              f"forall(lambda k: implies(k in result, exists(lambda p: k in p.{pattr} and result[k] is p.{pattr}[k], self.protos.values())), str)"])
        m.add_contract(c)
        run.verify(m, c)
    run.assume(*m.assumptions)
    run.assume("collections.ChainMap: a lookup returns the value of the first map holding the key (least-number principle supplied as a fact about the naturals)")


def run(run: Run):
    run.witness_check = witness_still_fails
    m = schema_model()
    cs = contracts(m)
    for c in cs:
        m.add_contract(c)
    for c in cs:
        run.verify(m, c)
    api_views(run)
    # the caller (third pass of API.build) hands the traversal the resources of the *whole* API and starts it from every target proto
    import ast as _ast
    from vf.core import find_def
    fdef, h = find_def("gapic/schema/api.py", "API.build")
    src = _ast.unparse(fdef)
    run.functions.append({"qualname": "API.build (selective-generation pass)", "source": "gapic/schema/api.py", "sha256_16": h, "obligations": "AST patterns"})
    g = "selective.build:third-pass"
    run.table("selective.build:resource-map-spans-all-protos", "all_resource_messages = collections.ChainMap(*(proto.resource_messages for proto in protos.values()))" in src and
              "resource_messages=all_resource_messages" in src, group=g)
    run.table("selective.build:allowlist-built-from-every-target-proto-before-pruning",
              "for proto in api.protos.values():\n                    proto.add_to_address_allowlist(address_allowlist=address_allowlist, method_allowlist=selective_gapic_methods" in src
              and src.index("proto.add_to_address_allowlist(") < src.index("proto.prune_messages_for_selective_generation("), group=g)
    run.table("selective.build:dependencies-copied-unchanged", "new_all_protos = {k: v for k, v in api.all_protos.items() if k not in api.protos}" in src, group=g)
    run.not_decided.append("termination of the traversal (finite-graph argument over the visited set)")
    run.assume("Address objects are compared by value; the model identifies equal addresses (one wrapper per address)",
               "the successor relation is *defined* from the schema (defines_succ_* preconditions are definitional, not checked against a caller)")
    run.native_standin("props.C16_native", "subpackage_selective",
                       "BOUNDED: a listed rpc of a service declared in a sub-package: kept rpcs / types in pruning mode, internal marking in internal mode",
                       group="native.C16:subpackage-service")
    run.native_standin("props.C16_native", "extended_scenarios",
                       "BOUNDED: Compute-style extended operations (operation service declared before / after the initiating service) x 5 method lists: exposed RPCs = listed "
                       "plus the polling method they need; REST library generated, service modules compile", group="native.C16:extended-operations")
    run.native_standin("props.C16_native", "scenarios")
