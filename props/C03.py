"""C03 - gRPC calls reach the right RPC with the caller's request and return the reply.

Stage 1 (pyvc, real functions): Method.grpc_stub_type, Method.transport_safe_name, Method.void, Method.client_method_name.
Stage 2:
  * per-method stub property of grpc.py.j2 / grpc_asyncio.py.j2: path literal, channel constructor, (de)serialisers, stub cache key
    (provenance obligations on every variant);
  * `_prep_wrapped_messages` table key (base.py.j2 and the asyncio macro);
  * the "send" tail of the sync and asyncio client method (macro calls removed - their frame is C06/C18's obligation), executed with
    pyvc: exactly one call of the wrapped stub looked up under the transport-safe name, with the caller's request/retry/timeout and the
    local metadata, result returned unless void.
"""
import ast, re
import z3
from jinja2 import nodes
from vf.core import Run, Result
from vf.pyvc import Contract
from vf.schema import SchemaModel
from vf.smt import Ref, NONE, fn
from vf.types import *          # noqa
from vf import j2sym as J
from vf.dyn import DynModel, ANY, dget, get_, item_, call_callee, call_arg, call_kw, call_nargs, call_result, call_haskw, S
from vf.emit import parse_variant, exec_emitted, prove_all, frag_info, cover

W = "gapic/schema/wrappers.py"
TR = J.SERVICE_DIR + "transports/"


# ------------------------------------------------------------------------------------------------------ stage 1
def stage1(run: Run):
    m = SchemaModel()
    import keyword
    from vf.model import Native
    m.globals["keyword"] = pyv(Native(keyword))
    from vf.model import FuncV
    m.globals["chain"] = pyv(FuncV("spec", "chain"))
    m.classes["Method"].update({"grpc_stub_type": "Str", "name_lower": "Str"})
    m.classes["MethodPb"]["name"] = "Str"
    unsafe = sorted({"createchannel", "grpcchannel", "operationsclient"} | set(keyword.kwlist))
    m.add_spec("stub_kind", ["b"], "'stream' if b else 'unary'")
    cs = [
        Contract("Method.grpc_stub_type", source=(W, "Method.grpc_stub_type"), params={"self": "Method"}, result="Str",
                 ensures=["result == stub_kind(self.client_streaming) + '_' + stub_kind(self.server_streaming)"]),
        Contract("Method.void", source=(W, "Method.void"), params={"self": "Method"}, result="Bool",
                 ensures=["result == (self.output.ident.proto == 'google.protobuf.Empty')"]),
        Contract("Method.transport_safe_name", source=(W, "Method.transport_safe_name"), params={"self": "Method"}, result="Str",
                 ensures=["result == (self.name + '_' if self.name.lower() in UNSAFE else self.name)"]),
        Contract("Method.client_method_name", source=(W, "Method.client_method_name"), params={"self": "Method"}, result="Str",
                 ensures=["implies(not self.is_internal, result == (self.name + '_' if self.name.lower() in KWLIST else self.name))",
                          "implies(self.is_internal, result == make_private(self.name + '_' if self.name.lower() in KWLIST else self.name))"]),
    ]
    m.globals["UNSAFE"] = pyv(frozenset(unsafe))
    m.globals["KWLIST"] = pyv(frozenset(keyword.kwlist))
    mp = fn("utils.make_private", z3.StringSort(), z3.StringSort())
    m.specs["make_private"] = lambda ex, args, st: V(mp(args[0].term), STR)
    m.specs["chain"] = lambda ex, args, st: _chain(args)
    for c in cs:
        m.add_contract(c)
    for c in cs:
        run.verify(m, c)
    run.assume("utils.make_private is an uninterpreted function here (its own behaviour belongs to C16)")


def _chain(args):
    items = set()
    for a in args:
        if a.ty is PY and isinstance(a.py, frozenset):
            items |= set(a.py)
        elif a.ty is TUPLE:
            items |= {x.term.as_string() for x in a.py}
        else:
            raise Unsupported("chain() of a symbolic iterable")
    return pyv(frozenset(items))


# ------------------------------------------------------------------------------------------------------ stub region
def stub_region(run: Run, env, tname, what):
    tree = J.parse(env, tname)
    loops = [f for f in tree.find_all(nodes.For) if J.expr_path(getattr(f.iter, "node", None)) == "service.methods.values"
             and J.has_data(f, "_stubs[")]
    run.table(f"grpc.stub:{what}:loop-present", len(loops) == 1, group="grpc.stub:loop-present")
    if not loops:
        return
    vs = J.render_nodes(env, tree, [loops[0]], ["service", "api", "opts"], maxlen=1)
    run.fragments.append(frag_info(tname, "for method in service.methods.values() (stub property)", vs))
    mp = "service.methods.values()[0]"
    n_checked = 0
    for vi, var in enumerate(vs):
        tag = f"grpc.stub:{what}:v{vi}"
        if var.error:
            run.table(f"{tag}:render-safe", False, detail=var.error, group="grpc.stub:render-safe")
            continue
        if not var.d(("len", "service.methods.values()")):
            continue
        try:
            tree_py, src = parse_variant(var.text, wrap_def="class _T:")
        except SyntaxError as e:
            run.table(f"{tag}:parses", False, detail=str(e), group="grpc.stub:parses")
            continue
        run.table(f"{tag}:parses", True, group="grpc.stub:parses")
        n_checked += 1
        H = lambda path: var.hole_for(path)
        key = H(f"{mp}.transport_safe_name|snake_case")
        cls = tree_py.body[0]
        fns = [n for n in cls.body if isinstance(n, ast.FunctionDef)]
        ok = len(fns) == 1
        run.table(f"{tag}:one-stub-property-per-method", ok, group="grpc.stub:one-property")
        if not ok:
            continue
        f = fns[0]
        run.table(f"{tag}:property-named-by-transport-safe-name", f.name == key and key is not None, detail=f"{f.name} vs {key}",
                  group="grpc.stub:property-name")
        subs = [ast.unparse(n.slice) for n in ast.walk(f) if isinstance(n, ast.Subscript) and ast.unparse(n.value) == "self._stubs"]
        tests = [ast.unparse(n.left) for n in ast.walk(f) if isinstance(n, ast.Compare) and ast.unparse(n.comparators[0]) == "self._stubs"]
        run.table(f"{tag}:stub-cached-and-returned-under-one-key", len(subs) == 2 and len(tests) == 1 and set(subs + tests) == {repr(key)},
                  detail=str(subs + tests), group="grpc.stub:cache-key")
        calls = [n for n in ast.walk(f) if isinstance(n, ast.Call) and isinstance(n.func, ast.Attribute)
                 and ast.unparse(n.func.value) == "self._logged_channel"]
        ok = len(calls) == 1
        run.table(f"{tag}:exactly-one-channel-constructor", ok, group="grpc.stub:one-constructor")
        if not ok:
            continue
        c = calls[0]
        run.table(f"{tag}:arity-from-descriptor", var.holes.get(c.func.attr) == f"{mp}.grpc_stub_type", detail=str(var.holes.get(c.func.attr)),
                  group="grpc.stub:arity")
        path_ok = False
        if c.args and isinstance(c.args[0], ast.Constant) and isinstance(c.args[0].value, str):
            mt = re.fullmatch(r"/(H\d+_)\.(H\d+_)/(H\d+_)", c.args[0].value)
            if mt:
                got = [var.holes.get(g) for g in mt.groups()]
                path_ok = got == [f"{mp}.meta.address.package|joined", "service.name", f"{mp}.name"]
        run.table(f"{tag}:path-is-/package.Service/Method", path_ok, detail=ast.unparse(c.args[0]) if c.args else "", group="grpc.stub:rpc-path")
        kws = {k.arg: k.value for k in c.keywords}
        for kwname, side, pb2m, ppm in (("request_serializer", "input", "SerializeToString", "serialize"),
                                        ("response_deserializer", "output", "FromString", "deserialize")):
            node = kws.get(kwname)
            pb2 = var.d(("endswith", f"{mp}.{side}.ident.python_import.module", "'_pb2'"))
            if pb2 is None:
                pb2 = var.d(("bool", f"{mp}.{side}.ident.python_import.module.endswith('_pb2')"))
            ok = (isinstance(node, ast.Attribute) and var.holes.get(ast.unparse(node.value)) == f"{mp}.{side}.ident"
                  and pb2 is not None and node.attr == (pb2m if pb2 else ppm))
            run.table(f"{tag}:{kwname}-of-declared-{side}-type", ok, detail=ast.unparse(node) if node else "missing", group=f"grpc.stub:{kwname}")
        run.table(f"{tag}:no-other-arguments", len(c.args) == 1 and set(kws) == {"request_serializer", "response_deserializer"},
                  group="grpc.stub:arguments")
        if vi < 2:
            run.samples.append({"fragment": tag, "emitted": ast.unparse(f)[-700:], "holes": {k: v for k, v in var.holes.items() if k in ast.unparse(f)}})
    run.table(f"grpc.stub:{what}:some-variant-checked", n_checked > 0, group="grpc.stub:cover")


# ------------------------------------------------------------------------------------------------------ wrapped-method table
def wrapped_table(run: Run, env):
    for tname, what, anchor in ((TR + "base.py.j2", "sync", None), (J.SERVICE_DIR + "_shared_macros.j2", "async", "prep_wrapped_messages_async_method")):
        tree = J.parse(env, tname)
        root = J.find_macro(tree, anchor) if anchor else tree
        loops = [f for f in root.find_all(nodes.For) if J.expr_path(getattr(f.iter, "node", None)) == "service.methods.values"
                 and J.has_data(f, "wrap_method(")]
        run.table(f"grpc.table:{what}:loop-present", len(loops) == 1, group="grpc.table:loop-present")
        if not loops:
            continue
        vs = J.render_nodes(env, tree, [loops[0]], ["service", "api", "opts"], maxlen=1, fixed={("bool", "service.methods.values()[0].retry"): False})
        for vi, var in enumerate(vs):
            if var.error or not var.d(("len", "service.methods.values()")):
                if var.error:
                    run.table(f"grpc.table:{what}:v{vi}:render-safe", False, detail=var.error, group="grpc.table:render-safe")
                continue
            key = var.hole_for("service.methods.values()[0].transport_safe_name|snake_case")
            try:
                tree_py, _ = parse_variant("{\n" + var.text + "\n}")
            except SyntaxError as e:
                run.table(f"grpc.table:{what}:v{vi}:parses", False, detail=str(e), group="grpc.table:parses")
                continue
            d = tree_py.body[0].value
            ok = isinstance(d, ast.Dict) and len(d.keys) == 1 and ast.unparse(d.keys[0]) == f"self.{key}" \
                and isinstance(d.values[0], ast.Call) and d.values[0].args and ast.unparse(d.values[0].args[0]) == f"self.{key}"
            run.table(f"grpc.table:{what}:v{vi}:entry-keyed-by-and-wrapping-the-stub-property", ok, detail=ast.unparse(d)[:200],
                      group="grpc.table:key-and-wrapped-stub")


# ------------------------------------------------------------------------------------------------------ send tail
def send_tail(run: Run, env, tname, what, container):
    tree = J.parse(env, tname)
    body = container(tree)
    idx = next((i for i, n in enumerate(body) if isinstance(n, nodes.Output) and J.has_data(n, "_wrapped_methods[")), None)
    run.table(f"grpc.send:{what}:region-present", idx is not None, group="grpc.send:region-present")
    if idx is None:
        return
    before, after = J.split_output(body[idx], lambda t: t.find("# Wrap the RPC method"))
    first = nodes.Output(J.drop_macro_calls(after), lineno=body[idx].lineno)
    rest = []
    for n in body[idx + 1:]:
        if isinstance(n, nodes.Output):
            rest.append(nodes.Output(J.drop_macro_calls(n.nodes), lineno=n.lineno))
        else:
            rest.append(n)
    region = [first] + rest
    params = ["method", "api", "service", "name", "snippet_index", "full_extended_lro"]
    vs = J.render_nodes(env, tree, region, params, maxlen=1)
    run.fragments.append(frag_info(tname, f"send tail of the {what} client method (shared macro calls removed)", vs))
    n_checked = 0
    for vi, var in enumerate(vs):
        tag = f"grpc.send:{what}:v{vi}"
        if var.error:
            run.table(f"{tag}:render-safe", False, detail=var.error, group="grpc.send:render-safe")
            continue
        d = dict(var.decisions)
        void = bool(d.get(("bool", "method.void")))
        cstream = bool(d.get(("bool", "method.client_streaming")))
        lro = bool(d.get(("bool", "method.lro")))
        paged = bool(d.get(("bool", "method.paged_result_field")))
        xlro = bool(d.get(("bool", "method.extended_lro")))
        # schema invariants: a void method is neither LRO nor paged nor extended LRO (its output is google.protobuf.Empty)
        if void and (lro or paged or xlro):
            continue
        try:
            tree_py, src = parse_variant(var.text, wrap_def=("async def _m(self, request, requests, retry, timeout, metadata):" if what == "async"
                                                            else "def _m(self, request, requests, retry, timeout, metadata):"))
        except SyntaxError as e:
            run.table(f"{tag}:parses", False, detail=str(e), group="grpc.send:parses")
            continue
        run.table(f"{tag}:parses", True, group="grpc.send:parses")
        fdef = tree_py.body[0]
        key = var.hole_for("method.transport_safe_name|snake_case")
        m = DynModel()
        init = {n: V(z3.Const("arg." + n, Ref), ANY) for n in ("self", "request", "requests", "retry", "timeout", "metadata")}
        try:
            ex, outs = exec_emitted(m, fdef.body, init, fname=tag)
        except Unsupported as e:
            if xlro or lro or paged:
                # LRO / pager / extended-operation wrapping belongs to C08 / C07; only the plain arm is C03's
                continue
            run.unsupported.append(f"{tag}: {e}")
            continue
        n_checked += 1
        transport = dget(init["self"].term, "_transport") if what == "sync" else dget(dget(init["self"].term, "_client"), "_transport")
        rpc = item_(dget(transport, "_wrapped_methods"), dget(transport, z3.StringVal(key or "?")))
        obs = []
        for pi, o in enumerate(outs):
            hyp = o.state.pc
            calls = o.state.ghost.get("calls")
            recs = [c.term for c in (calls.py if calls is not None else [])]
            rpc_calls = [r for r in recs if any(z3.eq(f.arg(1), rpc) for f in hyp if z3.is_eq(f) and z3.eq(f.arg(0), call_callee(r)))]
            obs.append((f"{tag}:exactly-one-call-of-the-wrapped-stub:path{pi}", hyp, z3.BoolVal(len(rpc_calls) == 1 and key is not None)))
            if len(rpc_calls) != 1:
                continue
            r = rpc_calls[0]
            want_req = init["requests" if cstream else "request"].term
            obs.append((f"{tag}:sends-the-caller's-request:path{pi}", hyp, z3.And(call_nargs(r) == 1, call_arg(r, 0) == want_req)))
            obs.append((f"{tag}:call-options-passed-through:path{pi}", hyp,
                        z3.And(call_kw(r, z3.StringVal("retry")) == init["retry"].term, call_kw(r, z3.StringVal("timeout")) == init["timeout"].term,
                               call_kw(r, z3.StringVal("metadata")) == init["metadata"].term,
                               z3.Not(call_haskw(r, z3.StringVal("request"))))))
            if o.kind == "return" and not (lro or paged or xlro):
                rv = m.dyn(ex, o.value).term
                obs.append((f"{tag}:returns-the-reply-unless-void:path{pi}", hyp, z3.BoolVal(not void) if void else rv == call_result(r)))
            elif o.kind == "fall":
                obs.append((f"{tag}:returns-the-reply-unless-void:path{pi}", hyp, z3.BoolVal(void)))
            elif o.kind == "raise":
                obs.append((f"{tag}:no-raise:path{pi}", hyp, z3.BoolVal(False)))
        rs = prove_all(run, m, obs)
        for r_ in rs:
            r_.group = "grpc.send:" + ":".join(p for p in r_.name.split(":")[3:] if not p.startswith("path"))
        # await discipline of the asyncio arm: the stub call is awaited iff the method is not server-streaming
        if what == "async":
            ss = d.get(("bool", "method.server_streaming"))
            rcalls = [n for n in ast.walk(fdef) if isinstance(n, ast.Call) and ast.unparse(n.func) == "rpc"]
            awaited = [n for n in ast.walk(fdef) if isinstance(n, ast.Await) and isinstance(n.value, ast.Call) and ast.unparse(n.value.func) == "rpc"]
            # a variant that never consulted method.server_streaming stands for both values of it: no await discipline can be right for both
            run.table(f"{tag}:awaited-iff-not-server-streaming", ss is not None and len(rcalls) == 1 and (len(awaited) == 1) == (not ss),
                      detail=f"server_streaming={ss} calls={len(rcalls)} awaited={len(awaited)}", group="grpc.send:await")
        if len(run.samples) < 10 and vi % 5 == 0:
            run.samples.append({"fragment": tag, "decisions": [str(x) for x in var.decisions][:8], "emitted": var.text[-600:]})
    run.table(f"grpc.send:{what}:some-variant-checked", n_checked > 0, group="grpc.send:cover")


def sync_container(tree):
    return J.find_macro(tree, "client_method").body


def async_container(tree):
    for f in tree.find_all(nodes.For):
        if any(isinstance(n, nodes.Output) and J.has_data(n, "_wrapped_methods[") for n in f.body):
            return f.body
    return []


def run(run: Run):
    stage1(run)
    env = J.make_env()
    stub_region(run, env, TR + "grpc.py.j2", "grpc")
    stub_region(run, env, TR + "grpc_asyncio.py.j2", "grpc_asyncio")
    wrapped_table(run, env)
    send_tail(run, env, J.SERVICE_DIR + "_client_macros.j2", "sync", sync_container)
    send_tail(run, env, J.SERVICE_DIR + "async_client.py.j2", "async", async_container)
    # which coercion arm a request goes through is decided by the *request* type's package (pb2 requests of a dependency package are built by
    # keyword expansion, proto-plus requests by T(request)); the arms themselves are C05's obligations
    for tname, what in ((J.SERVICE_DIR + "_client_macros.j2", "sync"), (J.SERVICE_DIR + "async_client.py.j2", "async")):
        tree = J.parse(env, tname)
        hits = [n for n in tree.find_all(nodes.If) if J.has_data(n, "so it must be constructed via keyword expansion")
                and isinstance(n.test, nodes.Compare)]
        inner = [n for n in hits if not any(n is not o and any(x is n for x in o.find_all(nodes.If)) and J.has_data(o, "so it must be constructed via keyword expansion") and isinstance(o.test, nodes.Compare) for o in hits)]
        ok = bool(hits) and all(J.expr_path(n.test.expr) == "method.input.ident.package" and len(n.test.ops) == 1 and n.test.ops[0].op == "ne"
                                and J.expr_path(n.test.ops[0].expr) == "method.ident.package" for n in hits)
        run.table(f"grpc.coercion:{what}:arm-selected-by-the-request-type's-package", ok,
                  detail="; ".join(f"{J.expr_path(n.test.expr)} {n.test.ops[0].op} {J.expr_path(n.test.ops[0].expr)}" for n in hits)[:200], group="grpc.coercion:arm-selection")
    run.assume("grpc: channel.<arity>(path, request_serializer, response_deserializer) returns a callable that frames one RPC on that path",
               "api-core: gapic_v1.method.wrap_method(f) calls f once with the given request, the merged metadata and the effective retry/timeout",
               "the shared macros invoked between the stub lookup and the send (create_metadata, add_api_version_header, auto_populate_uuid4_fields) "
               "assign only `metadata`, `header_params` and request fields (their own contracts: C06, C18); _validate_universe_domain has no effect on the call")
    run.not_decided.append("that grpc frames the bytes correctly; that the coerced request equals the caller's (C05); LRO / pager wrapping of the reply (C08 / C07)")
    run.native_standin("props.C03_native", "scenarios")



def falsify(run, group, info):
    from vf.genlab import run_isolated
    f = run_isolated("props.C03_native", "scenarios")
    run.bounded.append({"what": "falsifier: generated library over loopback channels, all four arities, keyword-named and void RPCs", "cases": f.get("cases", 0)})
    return ({"kind": "grpc", "failures": f["failures"][:6]}, True) if f["failures"] else (None, False)


def replay(path):
    import json
    from vf.genlab import run_isolated
    f = run_isolated("props.C03_native", "scenarios")
    print("grpc scenarios ->", json.dumps(f["failures"][:4]) if f["failures"] else "conform")
    return 1 if f["failures"] else 0
