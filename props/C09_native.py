"""C09 replay: service-config corpus -> real API.build -> Method.retry/timeout vs an independent spec; generated transport's wrapped
defaults (Retry objects of api-core) inspected.  Bounded; never counted as proof."""


def files(paged=False):
    from vf import genlab as G
    fd = G.new_file("acme/lab/v1/lab.proto", "acme.lab.v1")
    G.add_message(fd, "Req", [G.F("name", 1, G.T.TYPE_STRING)])
    G.add_message(fd, "Resp", [G.F("x", 1, G.T.TYPE_STRING)])
    if paged:
        G.add_message(fd, "ListReq", [G.F("parent", 1, G.T.TYPE_STRING), G.F("page_size", 2, G.T.TYPE_INT32), G.F("page_token", 3, G.T.TYPE_STRING)])
        G.add_message(fd, "ListResp", [G.F("items", 1, G.T.TYPE_MESSAGE, label=G.REPEATED, type_name=".acme.lab.v1.Resp"), G.F("next_page_token", 2, G.T.TYPE_STRING)])
    for sname in ("Lab", "Other"):
        svc = G.add_service(fd, sname)
        for mname in ("Alpha", "Beta", "Gamma", "Delta"):
            G.add_method(svc, mname, ".acme.lab.v1.Req", ".acme.lab.v1.Resp", http=("get", "/v1/{name=%s/%s/*}" % (sname.lower(), mname.lower())))
        if paged and sname == "Lab":
            G.add_method(svc, "ListAlphas", ".acme.lab.v1.ListReq", ".acme.lab.v1.ListResp", http=("get", "/v1/{parent=lab/*}/alphas"))
    return [fd]


def N(svc, m=None):
    d = {"service": f"acme.lab.v1.{svc}"}
    if m:
        d["method"] = m
    return d


RP1 = {"maxAttempts": 5, "initialBackoff": "0.1s", "maxBackoff": "60s", "backoffMultiplier": 1.3, "retryableStatusCodes": ["UNAVAILABLE", "DEADLINE_EXCEEDED"]}
RP2 = {"maxAttempts": 3, "initialBackoff": "1.5s", "maxBackoff": "45s", "backoffMultiplier": 2.5, "retryableStatusCodes": ["ABORTED"]}
ALL = ["CANCELLED", "UNKNOWN", "INVALID_ARGUMENT", "DEADLINE_EXCEEDED", "NOT_FOUND", "ALREADY_EXISTS", "PERMISSION_DENIED", "RESOURCE_EXHAUSTED",
       "FAILED_PRECONDITION", "ABORTED", "OUT_OF_RANGE", "UNIMPLEMENTED", "INTERNAL", "UNAVAILABLE", "DATA_LOSS", "UNAUTHENTICATED"]
CONFIGS = [
    {"methodConfig": [{"name": [N("Lab", "Alpha")], "timeout": "30s", "retryPolicy": RP1}]},
    {"methodConfig": [{"name": [N("Lab", "Alpha")], "retryPolicy": RP1}, {"name": [N("Lab", "Beta")], "timeout": "12.5s"}]},       # timeout-only after a retry entry
    {"methodConfig": [{"name": [N("Lab", "Beta")], "timeout": "7s"}, {"name": [N("Lab", "Alpha"), N("Lab", "Gamma")], "timeout": "0.250s", "retryPolicy": RP2},
                      {"name": [N("Lab", "Delta")], "timeout": "9s"}]},
    {"methodConfig": [{"name": [N("Lab", "Alpha")], "timeout": "1s", "retryPolicy": RP1}, {"name": [N("Lab", "Alpha")], "timeout": "2s", "retryPolicy": RP2}]},   # first wins
    {"methodConfig": [{"name": [N("Other", "Alpha")], "timeout": "3s", "retryPolicy": RP2}]},                                      # same method name, other service
    {"methodConfig": [{"name": [N("Lab", "Alpha")], "retryPolicy": dict(RP1, retryableStatusCodes=ALL)}]},
    {"methodConfig": []},
    # one entry naming methods of two services (Lab.Alpha, Other.Beta): Lab.Beta and Other.Alpha are named by nobody / by a later entry only
    {"methodConfig": [{"name": [N("Lab", "Alpha"), N("Other", "Beta")], "timeout": "12s", "retryPolicy": RP1}, {"name": [N("Other", "Alpha")], "timeout": "4s"}]},
    {"methodConfig": [{"name": [N("Lab", "Gamma"), N("Other", "Delta")], "timeout": "6s"}, {"name": [N("Lab", "Delta")], "timeout": "8s", "retryPolicy": RP2}]},
]


def spec(cfg, service, method):
    entry = next((e for e in cfg.get("methodConfig", []) if {"service": f"acme.lab.v1.{service}", "method": method} in e.get("name", [])), None)
    if entry is None:
        return None, None
    sec = lambda s: float(s[:-1])
    timeout = sec(entry["timeout"]) if entry.get("timeout") else None
    rp = entry.get("retryPolicy")
    retry = None if rp is None else {"initial": sec(rp["initialBackoff"]), "maximum": sec(rp["maxBackoff"]), "multiplier": rp["backoffMultiplier"],
                                     "codes": sorted(rp["retryableStatusCodes"])}
    return retry, timeout


def scenarios():
    import grpc
    from vf import genlab as G
    from google.api_core import exceptions
    failures, cases = [], 0
    for ci, cfg in enumerate(CONFIGS):
        api, opts = G.build_api(files(), "autogen-snippets=false", retry_config=cfg)
        for sname in ("Lab", "Other"):
            for mname in ("Alpha", "Beta", "Gamma", "Delta"):
                cases += 1
                m = api.services[f"acme.lab.v1.{sname}"].methods[mname]
                want_retry, want_timeout = spec(cfg, sname, mname)
                got_retry = None if m.retry is None else {"initial": m.retry.initial_backoff, "maximum": m.retry.max_backoff, "multiplier": m.retry.backoff_multiplier,
                                                           "codes": sorted(c.grpc_status_code.name for c in m.retry.retryable_exceptions)}
                if got_retry != want_retry or m.timeout != want_timeout:
                    failures.append({"config": ci, "method": f"{sname}.{mname}", "got": [got_retry, m.timeout], "want": [want_retry, want_timeout]})
    # services declared in packages below the API's root package (a types-only root file, services one and two levels down): the entry is found by the
    # service's own proto package
    for sub in ("services", "admin.internal"):
        pkg = "acme.lab.v1." + sub
        root = G.new_file("acme/lab/v1/common.proto", "acme.lab.v1")
        G.add_message(root, "Req", [G.F("name", 1, G.T.TYPE_STRING)])
        G.add_message(root, "Resp", [G.F("x", 1, G.T.TYPE_STRING)])
        deep = G.new_file("acme/lab/v1/%s/deep.proto" % sub.replace(".", "/"), pkg, deps=G.STD_DEPS + ["acme/lab/v1/common.proto"])
        svc = G.add_service(deep, "Deep")
        for mname in ("Alpha", "Beta"):
            G.add_method(svc, mname, ".acme.lab.v1.Req", ".acme.lab.v1.Resp", http=("get", "/v1/{name=deep/%s/*}" % mname.lower()))
        cfg = {"methodConfig": [{"name": [{"service": pkg + ".Deep", "method": "Alpha"}], "timeout": "7s", "retryPolicy": RP2},
                                {"name": [{"service": "acme.lab.v1.Deep", "method": "Beta"}], "timeout": "9s"}]}          # the second names no service of the API
        api, opts = G.build_api([root, deep], "autogen-snippets=false", retry_config=cfg)
        cases += 2
        ms = api.services[pkg + ".Deep"].methods
        a, b = ms["Alpha"], ms["Beta"]
        if a.timeout != 7.0 or a.retry is None or sorted(c.grpc_status_code.name for c in a.retry.retryable_exceptions) != ["ABORTED"] or a.retry.initial_backoff != 1.5:
            failures.append({"layout": pkg, "method": "Deep.Alpha", "got": [repr(a.retry), a.timeout], "want": "RP2 with timeout 7.0"})
        if b.timeout is not None or b.retry is not None:
            failures.append({"layout": pkg, "method": "Deep.Beta (named under another package)", "got": [repr(b.retry), b.timeout], "want": [None, None]})
    # the generated transport: defaults as api-core objects
    cfg = CONFIGS[2]
    cfg2 = CONFIGS[1]
    for cfg in (CONFIGS[2], CONFIGS[1]):
        import subprocess, sys, json, os
        code = ("import json,sys\nfrom props.C09_native import transport_defaults\nprint('@@'+json.dumps(transport_defaults(%d)))" % CONFIGS.index(cfg))
        p = subprocess.run([sys.executable, "-c", code], capture_output=True, text=True, env=dict(os.environ))
        if "@@" not in p.stdout:
            failures.append({"config": CONFIGS.index(cfg), "error": p.stderr[-400:]})
            continue
        failures += json.loads(p.stdout.rsplit("@@", 1)[1])
        cases += 8
    from vf.genlab import run_isolated
    failures += run_isolated("props.C09_native", "rest_deadlines")
    cases += 6
    failures += run_isolated("props.C09_native", "call_deadlines")
    cases += 12
    # a REST-only library reads the service configuration too
    failures += [dict(f, generated_with="transport=rest") for f in run_isolated("props.C09_native", "rest_only_deadlines")]
    cases += 6
    return {"cases": cases, "failures": failures}


def rest_deadlines():
    """REST transport: the entry's timeout (or the per-call one) is the timeout of the HTTP request, for a body-less and a body-carrying method."""
    import importlib
    from vf import genlab as G
    from google.auth.credentials import AnonymousCredentials
    fd = files()[0]
    G.add_message(fd, "Out", [G.F("x", 1, G.T.TYPE_STRING)])
    svc = fd.service[0]
    G.add_method(svc, "Post", ".acme.lab.v1.Req", ".acme.lab.v1.Resp", http=("post", "/v1/{name=lab/post/*}"), body="*")
    cfg = {"methodConfig": [{"name": [N("Lab", "Alpha"), N("Lab", "Post")], "timeout": "30s"}]}
    import os
    tr_opt = os.environ.get("VERIF_C09_REST_TRANSPORTS", "grpc+rest")
    api, res = G.generate([fd], "autogen-snippets=false,transport=" + tr_opt, retry_config=cfg)
    failures = []
    with G.materialised(res):
        lab_v1 = importlib.import_module("acme.lab_v1")
        tr_mod = importlib.import_module("acme.lab_v1.services.lab.transports.rest")
        seen = []

        class Reply:
            status_code = 200
            content = b"{}"
            headers = {}
            request = None

        class Session:
            def _do(self, verb, url, timeout=None, **kw):
                seen.append((verb, url, timeout))
                return Reply()

            def close(self):
                pass
        for v in ("get", "post", "put", "patch", "delete"):
            setattr(Session, v, (lambda vv: lambda self, url, **kw: self._do(vv, url, **kw))(v))
        tr_mod.AuthorizedSession = lambda *a, **k: Session()
        client = lab_v1.LabClient(transport=tr_mod.LabRestTransport(credentials=AnonymousCredentials()))
        for pyname, kwargs, want in (("alpha", {}, 30.0), ("post", {}, 30.0), ("alpha", {"timeout": 4.5}, 4.5), ("post", {"timeout": 4.5}, 4.5),
                                     ("beta", {}, None), ("beta", {"timeout": 2.0}, 2.0)):
            del seen[:]
            try:
                getattr(client, pyname)(request={"name": f"lab/{pyname}/1"}, **kwargs)
            except Exception as e:      # noqa
                failures.append({"transport": "rest", "call": f"{pyname}({kwargs})", "error": repr(e)[:200]})
                continue
            got = seen[0][2] if seen else "nothing sent"
            if got != want:
                failures.append({"transport": "rest", "call": f"{pyname}({kwargs})", "what": "timeout of the HTTP request", "got": got, "want": want})
    return failures


def call_deadlines():
    """Calls through the generated sync and asyncio clients: without an explicit timeout the stub is invoked with the entry's timeout, with one it is
    invoked with the caller's, and a method the configuration does not name carries none."""
    import asyncio, importlib
    from vf import genlab as G
    from google.auth.credentials import AnonymousCredentials
    cfg = {"methodConfig": [{"name": [N("Lab", "Alpha")], "timeout": "30s"},
                            {"name": [N("Lab", "Gamma")], "timeout": "12s", "retryPolicy": RP2},
                            {"name": [N("Lab", "ListAlphas")], "timeout": "20s"}]}
    api, res = G.generate(files(paged=True), "autogen-snippets=false", retry_config=cfg)
    failures = []
    with G.materialised(res):
        lab_v1 = importlib.import_module("acme.lab_v1")
        from acme.lab_v1.services.lab.transports import LabGrpcTransport, LabGrpcAsyncIOTransport
        seen = []

        def handler(kind, path, raw, md, deser, timeout):
            seen.append((path.rsplit("/", 1)[1], timeout))
            return deser(lab_v1.Resp.serialize(lab_v1.Resp(x="ok")))
        client = lab_v1.LabClient(transport=LabGrpcTransport(channel=G.fake_channel(handler), credentials=AnonymousCredentials()))
        aclient = lab_v1.LabAsyncClient(transport=LabGrpcAsyncIOTransport(channel=G.fake_aio_channel(handler), credentials=AnonymousCredentials()))

        async def _aw(c):
            return await c
        for which, cl in (("sync", client), ("async", aclient)):
            for pyname, kwargs, want in (("alpha", {}, 30.0), ("alpha", {"timeout": 4.5}, 4.5), ("beta", {}, None), ("beta", {"timeout": 2.0}, 2.0), ("gamma", {}, 12.0)):
                del seen[:]
                try:
                    r = getattr(cl, pyname)(request={"name": f"lab/{pyname}/1"}, **kwargs)
                    if which == "async":
                        asyncio.run(_aw(r))
                except Exception as e:      # noqa
                    failures.append({"client": which, "call": f"{pyname}({kwargs})", "error": repr(e)[:200]})
                    continue
                got = seen[0][1] if seen else "nothing sent"
                ok = (got is None) if want is None else (isinstance(got, (int, float)) and abs(got - want) < 0.5 and got <= want)
                if not ok:
                    failures.append({"client": which, "call": f"{pyname}({kwargs})", "what": "deadline of the call on the channel", "got": got, "want": want})
        # a paginated rpc: every page is fetched under the same deadline - the caller's if given, the entry's otherwise
        pages = []

        def phandler(kind, path, raw, md, deser, timeout):
            pages.append(timeout)
            r = lab_v1.ListResp(items=[lab_v1.Resp(x="i%d" % len(pages))], next_page_token="t" if len(pages) < 3 else "")
            return deser(lab_v1.ListResp.serialize(r))
        pclient = lab_v1.LabClient(transport=LabGrpcTransport(channel=G.fake_channel(phandler), credentials=AnonymousCredentials()))
        for kwargs, want in (({"timeout": 4.5}, 4.5), ({}, 20.0)):
            del pages[:]
            try:
                n_items = len(list(pclient.list_alphas(request={"parent": "lab/1"}, **kwargs)))
            except Exception as e:      # noqa
                failures.append({"client": "sync", "call": f"list_alphas({kwargs})", "error": repr(e)[:200]})
                continue
            if n_items != 3 or len(pages) != 3 or any(not (isinstance(t_, (int, float)) and abs(t_ - want) < 0.5 and t_ <= want) for t_ in pages):
                failures.append({"client": "sync", "call": f"list_alphas({kwargs})", "what": "deadlines of the page requests", "got": pages, "want": [want] * 3})
    return failures


def rest_only_deadlines():
    import os
    os.environ["VERIF_C09_REST_TRANSPORTS"] = "rest"
    return rest_deadlines()


def transport_defaults(ci):
    from vf import genlab as G
    from google.auth.credentials import AnonymousCredentials
    from google.api_core import exceptions
    cfg = CONFIGS[ci]
    failures = []
    api, res = G.generate(files(), "autogen-snippets=false", retry_config=cfg)
    with G.materialised(res):
        from acme import lab_v1
        for sname in ("Lab", "Other"):
            tmod = __import__(f"acme.lab_v1.services.{sname.lower()}.transports", fromlist=["x"])
            tr = getattr(tmod, f"{sname}GrpcTransport")(channel=G.fake_channel(lambda *a: None), credentials=AnonymousCredentials())
            for mname in ("Alpha", "Beta", "Gamma", "Delta"):
                want_retry, want_timeout = spec(cfg, sname, mname)
                wrapped = tr._wrapped_methods[getattr(tr, mname.lower())]
                # gapic_v1.method wraps: _GapicCallable with _retry and _timeout
                target = wrapped
                while hasattr(target, "__wrapped__") and not hasattr(target, "_retry"):
                    target = target.__wrapped__
                r, t = getattr(target, "_retry", "?"), getattr(target, "_timeout", "?")
                if t != want_timeout:
                    failures.append({"config": ci, "method": f"{sname}.{mname}", "what": "default timeout", "got": t, "want": want_timeout})
                if (r is None) != (want_retry is None):
                    failures.append({"config": ci, "method": f"{sname}.{mname}", "what": "default retry present", "got": repr(r), "want": want_retry})
                elif r is not None:
                    got = {"initial": r._initial, "maximum": r._maximum, "multiplier": r._multiplier}
                    if got != {k: want_retry[k] for k in got}:
                        failures.append({"config": ci, "method": f"{sname}.{mname}", "what": "backoff", "got": got, "want": want_retry})
                    dl = getattr(r, "_timeout", getattr(r, "_deadline", "?"))
                    if dl != want_timeout:
                        failures.append({"config": ci, "method": f"{sname}.{mname}", "what": "overall retry deadline", "got": dl, "want": want_timeout})
                    import grpc
                    for code in grpc.StatusCode:
                        if code == grpc.StatusCode.OK:
                            continue
                        exc = exceptions.exception_class_for_grpc_status(code)("x")
                        if bool(r._predicate(exc)) != (code.name in want_retry["codes"]):
                            failures.append({"config": ci, "method": f"{sname}.{mname}", "what": "retry predicate", "code": code.name})
    return failures
