"""C20 witnesses: comments that close or corrupt the docstring literal they are placed in; wrap() on tabs / leading whitespace."""


def _gen(msg_comment=None, svc_comment=None):
    from vf import genlab as G
    fd = G.new_file("acme/lab/v1/lab.proto", "acme.lab.v1")
    G.add_message(fd, "Req", [G.F("name", 1, G.T.TYPE_STRING)])
    G.add_message(fd, "Resp", [G.F("x", 1, G.T.TYPE_STRING)])
    svc = G.add_service(fd, "Lab")
    G.add_method(svc, "Get", ".acme.lab.v1.Req", ".acme.lab.v1.Resp", http=("get", "/v1/{name=a/*}"))
    if msg_comment is not None:
        fd.source_code_info.location.add(path=[4, 0], leading_comments=msg_comment)
    if svc_comment is not None:
        fd.source_code_info.location.add(path=[6, 0], leading_comments=svc_comment)
    api, res = G.generate([fd], "autogen-snippets=false")
    errs = []
    for f in res.file:
        if f.name.endswith(".py"):
            try:
                compile(f.content, f.name, "exec")
            except SyntaxError as e:
                errs.append({"file": f.name, "error": str(e)[:120]})
    return errs


def witnesses():
    out = []
    e = _gen(msg_comment=' A request. Use """triple quotes""" with care.\n')
    if e:
        out.append({"known": "docstring-triple-quote", "comment": 'message comment containing three double quotes', "errors": e[:2]})
    e = _gen(svc_comment=" Files live under C:\\Users\\name on Windows.\n")
    if e:
        out.append({"known": "docstring-backslash", "comment": "service comment containing a backslash escape (the client class docstring is not raw)", "errors": e[:2]})
    e = _gen(msg_comment=" The path separator is the backslash \\\n")
    if e:
        out.append({"known": "docstring-trailing-backslash", "comment": "message comment ending in a backslash", "errors": e[:2]})
    from gapic.utils.lines import wrap
    t = "a\tbb cc dd ee ff gg hh ii jj kk ll mm nn oo pp qq"
    o = wrap(t, 20)
    if o.split() != t.split():
        out.append({"known": "wrap-tab", "text": t, "out": o})
    try:
        o = wrap("  a", 4, offset=3)
        if o.split() != ["a"]:
            out.append({"known": "wrap-leading-whitespace", "text": "  a", "out": o})
    except Exception as ex:      # noqa
        out.append({"known": "wrap-leading-whitespace", "text": "  a", "error": repr(ex)})
    return out


COMMENTS = {
    # (path in the FileDescriptorProto) -> (placement, text)
    "service": ((6, 0), "leading", ' Manages shelves and the books on them; a shelf is addressed by a name of the form "shelves/1" and a book by\n "shelves/1/books/2"\n'),
    "method": ((6, 0, 2, 0), "leading", " Fetches one shelf. Fails with NOT_FOUND when the shelf does not exist, and never returns a partial result.\n"),
    "method_detached": ((6, 0, 2, 1), "detached", " Lists shelves in creation order.\n"),
    "message": ((4, 0), "detached", " A shelf holds books of one genre.\n"),
    "field": ((4, 0, 2, 0), "trailing", ' The resource name of the shelf, e.g. "shelves/1"\n'),
    "field_detached": ((4, 0, 2, 1), "detached", " Free-form theme of the shelf.\n"),
    "enum": ((5, 0), "leading", " Genres a shelf can be dedicated to.\n"),
    "enum_value": ((5, 0, 2, 1), "detached", " Crime and mystery novels.\n"),
    "message_quote": ((4, 1), "leading", ' The answer to a request; its only field echoes the string "ok"\n'),
    # a message without fields whose one-line comment ends in a backslash (the closing quotes must not follow it on the same line)
    "empty_message_backslash": ((4, 3), "leading", " Asks which character separates path segments, e.g. / or \\\n"),
    # an enum declared inside a message, and one of its values
    # a request message whose comment carries backslashes (it is quoted in the docstrings of every method that takes it, REST stubs included)
    "request_backslash": ((4, 2), "leading", " Names a shelf; Windows users may write C:\\new\\table or a \\u escape here.\n"),
    # the result type of a long-running operation: its comment is what the method's `Returns:` section quotes
    "lro_result": ((4, 4), "leading", " Summary of a finished shelf reorganisation.\n"),
    "nested_enum": ((4, 0, 4, 0), "leading", " How the books on the shelf are bound.\n"),
    "nested_enum_value": ((4, 0, 4, 0, 2, 1), "trailing", " Sewn and glued hard covers.\n"),
}


def _words(text):
    return text.split()


def _contains_in_order(doc, words):
    """The words of the comment occur in the docstring in order, consecutively (the quote guard may add a full stop to the last one)."""
    toks = doc.split()
    n = len(words)
    for i in range(len(toks) - n + 1):
        window = toks[i:i + n]
        if window[:-1] == words[:-1] and window[-1] in (words[-1], words[-1] + "."):
            return True
    return False


def scenarios():
    """Comments in every placement (leading / trailing / detached only) on every kind of element reach the docstring of the generated element with
    all their words in order, and every emitted module still compiles (comments ending in a double quote, one- and multi-line)."""
    import ast
    from vf import genlab as G
    G.stub_pandoc_if_absent()
    T = G.T
    fd = G.new_file("acme/lab/v1/lab.proto", "acme.lab.v1")
    G.add_message(fd, "Shelf", [G.F("name", 1, T.TYPE_STRING), G.F("theme", 2, T.TYPE_STRING), G.F("genre", 3, T.TYPE_ENUM, type_name=".acme.lab.v1.Genre")])
    G.add_message(fd, "Answer", [G.F("text", 1, T.TYPE_STRING)])
    G.add_message(fd, "Req", [G.F("name", 1, T.TYPE_STRING)])
    G.add_message(fd, "Ping", [])
    G.add_message(fd, "Reorg", [G.F("moved", 1, T.TYPE_INT32)])
    G.add_message(fd, "ReorgMeta", [G.F("pct", 1, T.TYPE_INT32)])
    bind = fd.message_type[0].enum_type.add(name="Binding")
    for i, nm in enumerate(("BINDING_UNSPECIFIED", "HARD", "SOFT")):
        bind.value.add(name=nm, number=i)
    en = fd.enum_type.add(name="Genre")
    for i, nm in enumerate(("GENRE_UNSPECIFIED", "CRIME", "POETRY")):
        en.value.add(name=nm, number=i)
    svc = G.add_service(fd, "Lab")
    G.add_method(svc, "GetShelf", ".acme.lab.v1.Req", ".acme.lab.v1.Shelf", http=("get", "/v1/{name=shelves/*}"))
    G.add_method(svc, "ListShelves", ".acme.lab.v1.Req", ".acme.lab.v1.Answer", http=("get", "/v1/{name=lists/*}"))
    G.add_method(svc, "Reorganise", ".acme.lab.v1.Req", ".google.longrunning.Operation", http=("post", "/v1/{name=shelves/*}:reorganise"), body="*", lro=("Reorg", "ReorgMeta"))
    # a request type of ANOTHER package (not generated): its comment still reaches the docstring of the method that takes it
    shared = G.new_file("acme/shared/v1/shared.proto", "acme.shared.v1")
    G.add_message(shared, "SharedReq", [G.F("name", 1, T.TYPE_STRING)])
    SHARED_COMMENT = " Names the thing to be shared, with the audience it is meant for.\n"
    shared.source_code_info.location.add(path=[4, 0], leading_comments=SHARED_COMMENT)
    fd.dependency.append("acme/shared/v1/shared.proto")
    G.add_method(svc, "ShareIt", ".acme.shared.v1.SharedReq", ".acme.lab.v1.Answer", http=("post", "/v1/{name=shared/*}:share"), body="*")
    for key, (path, where, text) in COMMENTS.items():
        loc = fd.source_code_info.location.add(path=list(path))
        if where == "leading":
            loc.leading_comments = text
        elif where == "trailing":
            loc.trailing_comments = text
        else:
            loc.leading_detached_comments.append(text)
    failures, cases = [], 0
    try:
        api, res = G.generate([shared, fd], "autogen-snippets=false,transport=grpc+rest", to_generate=["acme/lab/v1/lab.proto"])
    except Exception as e:      # noqa
        return {"cases": 1, "failures": [{"what": "generation failed", "error": repr(e)[:300]}]}
    by = {f.name: f.content for f in res.file}
    trees = {}
    for name, content in by.items():
        if name.endswith(".py"):
            cases += 1
            try:
                trees[name] = ast.parse(content)
            except SyntaxError as e:
                failures.append({"what": "an emitted module does not compile (a comment closed its docstring literal early?)", "file": name, "error": str(e)[:160]})

    def cls_doc(fname, cname, meth=None):
        t = trees.get(fname)
        if t is None:
            return None
        c = next((n for n in ast.walk(t) if isinstance(n, ast.ClassDef) and n.name == cname), None)
        if c is None:
            return None
        if meth is None:
            return ast.get_docstring(c, clean=False) or ""
        f = next((n for n in c.body if isinstance(n, (ast.FunctionDef, ast.AsyncFunctionDef)) and n.name == meth), None)
        return None if f is None else (ast.get_docstring(f, clean=False) or "")
    sites = [("service", "acme/lab_v1/services/lab/client.py", "LabClient", None), ("service", "acme/lab_v1/services/lab/async_client.py", "LabAsyncClient", None),
             ("method", "acme/lab_v1/services/lab/client.py", "LabClient", "get_shelf"), ("method", "acme/lab_v1/services/lab/async_client.py", "LabAsyncClient", "get_shelf"),
             ("method_detached", "acme/lab_v1/services/lab/client.py", "LabClient", "list_shelves"),
             ("message", "acme/lab_v1/types/lab.py", "Shelf", None), ("field", "acme/lab_v1/types/lab.py", "Shelf", None), ("field_detached", "acme/lab_v1/types/lab.py", "Shelf", None),
             ("enum", "acme/lab_v1/types/lab.py", "Genre", None), ("enum_value", "acme/lab_v1/types/lab.py", "Genre", None), ("message_quote", "acme/lab_v1/types/lab.py", "Answer", None),
             ("empty_message_backslash", "acme/lab_v1/types/lab.py", "Ping", None), ("nested_enum", "acme/lab_v1/types/lab.py", "Binding", None),
             ("nested_enum_value", "acme/lab_v1/types/lab.py", "Binding", None),
             ("request_backslash", "acme/lab_v1/services/lab/client.py", "LabClient", "get_shelf"), ("request_backslash", "acme/lab_v1/services/lab/transports/rest.py", "_GetShelf", "__call__"),
             ("lro_result", "acme/lab_v1/services/lab/client.py", "LabClient", "reorganise"), ("lro_result", "acme/lab_v1/services/lab/async_client.py", "LabAsyncClient", "reorganise")]
    for key, fname, cname, meth in sites:
        cases += 1
        doc = cls_doc(fname, cname, meth)
        where = COMMENTS[key][1]
        if doc is None:
            if fname in trees:
                failures.append({"what": "generated element not found", "element": f"{cname}.{meth}" if meth else cname, "file": fname})
            continue
        if not _contains_in_order(doc, _words(COMMENTS[key][2])):
            failures.append({"what": f"the words of a {where} comment do not all reach the docstring, in order", "element": f"{cname}.{meth}" if meth else cname, "file": fname,
                             "comment": COMMENTS[key][2].strip()[:120], "docstring_head": " ".join(doc.split())[:160]})
    for fname, cname in (("acme/lab_v1/services/lab/client.py", "LabClient"), ("acme/lab_v1/services/lab/async_client.py", "LabAsyncClient")):
        cases += 1
        doc = cls_doc(fname, cname, "share_it")
        if doc is not None and not _contains_in_order(doc, _words(SHARED_COMMENT)):
            failures.append({"what": "the comment of a request type from another package does not reach the method's docstring", "element": f"{cname}.share_it",
                             "comment": SHARED_COMMENT.strip(), "docstring_head": " ".join(doc.split())[:200]})
    return {"cases": cases, "failures": failures}
