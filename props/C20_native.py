"""C20 witnesses: comments that close or corrupt the docstring literal they are placed in; wrap() on tabs / leading whitespace."""


def _gen(msg_comment=None, svc_comment=None):
    from vf import genlab as G
    fd = G.new_file("acme/lab/v1/lab.proto", "acme.lab.v1")
    G.add_message(fd, "Req", [G.F("name", 1, G.T.TYPE_STRING)])
    G.add_message(fd, "Resp", [G.F("x", 1, G.T.TYPE_STRING)])
    svc = G.add_service(fd, "Lab")
    G.add_method(svc, "Get", ".acme.lab.v1.Req", ".acme.lab.v1.Resp", http=("get", "/v1/{name=a/*}"))
    if msg_comment is not None:
        fd.source_code_info.location.add(path=[4, 0], leading_comments=msg_comment)
    if svc_comment is not None:
        fd.source_code_info.location.add(path=[6, 0], leading_comments=svc_comment)
    api, res = G.generate([fd], "autogen-snippets=false")
    errs = []
    for f in res.file:
        if f.name.endswith(".py"):
            try:
                compile(f.content, f.name, "exec")
            except SyntaxError as e:
                errs.append({"file": f.name, "error": str(e)[:120]})
    return errs


def witnesses():
    out = []
    e = _gen(msg_comment=' A request. Use """triple quotes""" with care.\n')
    if e:
        out.append({"known": "docstring-triple-quote", "comment": 'message comment containing three double quotes', "errors": e[:2]})
    e = _gen(svc_comment=" Files live under C:\\Users\\name on Windows.\n")
    if e:
        out.append({"known": "docstring-backslash", "comment": "service comment containing a backslash escape (the client class docstring is not raw)", "errors": e[:2]})
    e = _gen(msg_comment=" The path separator is the backslash \\\n")
    if e:
        out.append({"known": "docstring-trailing-backslash", "comment": "message comment ending in a backslash", "errors": e[:2]})
    from gapic.utils.lines import wrap
    t = "a\tbb cc dd ee ff gg hh ii jj kk ll mm nn oo pp qq"
    o = wrap(t, 20)
    if o.split() != t.split():
        out.append({"known": "wrap-tab", "text": t, "out": o})
    try:
        o = wrap("  a", 4, offset=3)
        if o.split() != ["a"]:
            out.append({"known": "wrap-leading-whitespace", "text": "  a", "out": o})
    except Exception as ex:      # noqa
        out.append({"known": "wrap-leading-whitespace", "text": "  a", "error": repr(ex)})
    return out
