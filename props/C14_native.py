"""C14 replay: generate with snippets on, compile and *run* every sample against a loopback channel, compare the snippet metadata and the
client docstrings with the files.  Bounded."""
import asyncio, inspect, json, re, types

PKG = "acme.lab.v1"


def files():
    from vf import genlab as G
    from google.iam.v1 import iam_policy_pb2
    T = G.T
    P = "." + PKG
    fd = G.new_file("acme/lab/v1/lab.proto", PKG, deps=G.STD_DEPS + ["google/iam/v1/iam_policy.proto", "google/iam/v1/policy.proto"])
    col = fd.enum_type.add(name="Color")
    for n, v in (("COLOR_UNSPECIFIED", 0), ("RED", 1), ("BLUE", 2)):
        col.value.add(name=n, number=v)
    R = dict(required=True)
    G.add_message(fd, "Inner", [G.F("id", 1, T.TYPE_STRING, **R), G.F("level", 2, T.TYPE_INT32), G.F("ratio", 3, T.TYPE_DOUBLE, **R)])
    G.add_message(fd, "Holder", [G.F("inner", 1, T.TYPE_MESSAGE, type_name=P + ".Inner", **R), G.F("label", 2, T.TYPE_STRING, **R)])
    G.add_message(fd, "Thing", [G.F("name", 1, T.TYPE_STRING), G.F("title", 2, T.TYPE_STRING)], resource=("lab.example.com/Thing", "shelves/{shelf}/things/{thing}"))
    req = G.add_message(fd, "GetThingRequest", [G.F("name", 1, T.TYPE_STRING, resource_ref="lab.example.com/Thing", **R),
                                                G.F("color", 2, T.TYPE_ENUM, type_name=P + ".Color", **R), G.F("inner", 3, T.TYPE_MESSAGE, type_name=P + ".Inner", **R),
                                                G.F("count", 4, T.TYPE_INT32, **R), G.F("flag", 5, T.TYPE_BOOL, **R), G.F("raw", 6, T.TYPE_BYTES, **R),
                                                G.F("ratio", 7, T.TYPE_FLOAT, **R), G.F("big", 8, T.TYPE_INT64, **R), G.F("tags", 9, T.TYPE_STRING, label=G.REPEATED, **R),
                                                G.F("optional_note", 10, T.TYPE_STRING)])
    # the same message type required twice (siblings) and once more below another required message
    req.field.append(G.F("second_inner", 13, T.TYPE_MESSAGE, type_name=P + ".Inner", **R))
    req.field.append(G.F("holder", 14, T.TYPE_MESSAGE, type_name=P + ".Holder", **R))
    # required repeated fields of every literal kind (their values are printed into the sample as Python literals)
    req.field.append(G.F("flags", 15, T.TYPE_BOOL, label=G.REPEATED, **R))
    req.field.append(G.F("chunks", 16, T.TYPE_BYTES, label=G.REPEATED, **R))
    req.field.append(G.F("kinds", 17, T.TYPE_ENUM, label=G.REPEATED, type_name=P + ".Color", **R))
    req.field.append(G.F("sizes", 18, T.TYPE_INT32, label=G.REPEATED, **R))
    req.oneof_decl.add(name="source")
    req.field.append(G.F("by_id", 11, T.TYPE_STRING, oneof_index=0))
    # (the second member of the oneof is REQUIRED: still exactly one member of the oneof is populated)
    req.field.append(G.F("by_inner", 12, T.TYPE_MESSAGE, type_name=P + ".Inner", oneof_index=0, required=True))
    G.add_message(fd, "ListThingsRequest", [G.F("parent", 1, T.TYPE_STRING, **R), G.F("page_size", 2, T.TYPE_INT32), G.F("page_token", 3, T.TYPE_STRING)])
    G.add_message(fd, "ListThingsResponse", [G.F("things", 1, T.TYPE_MESSAGE, label=G.REPEATED, type_name=P + ".Thing"), G.F("next_page_token", 2, T.TYPE_STRING)])
    G.add_message(fd, "StartRequest", [G.F("name", 1, T.TYPE_STRING, **R), G.F("thing", 2, T.TYPE_MESSAGE, type_name=P + ".Thing", **R)])
    G.add_message(fd, "StartMeta", [G.F("pct", 1, T.TYPE_INT32)])
    G.add_message(fd, "ChatMessage", [G.F("text", 1, T.TYPE_STRING, **R), G.F("seq", 2, T.TYPE_INT32)])
    G.add_message(fd, "DeleteThingRequest", [G.F("name", 1, T.TYPE_STRING, **R), G.F("force", 2, T.TYPE_BOOL)])
    svc = G.add_service(fd, "Lab")
    m = lambda *a, **k: G.add_method(svc, *a, **k)
    m("GetThing", P + ".GetThingRequest", P + ".Thing", http=("get", "/v1/{name=shelves/*/things/*}"), signatures=["name"])
    m("ListThings", P + ".ListThingsRequest", P + ".ListThingsResponse", http=("get", "/v1/{parent=shelves/*}/things"), signatures=["parent"])
    # (a signature entry that is a dotted path: the client's parameter is the leaf name)
    m("StartThing", P + ".StartRequest", ".google.longrunning.Operation", http=("post", "/v1/{name=shelves/*/things/*}:start"), body="*", lro=("Thing", "StartMeta"),
      signatures=["name,thing.title"])
    m("WatchThings", P + ".ListThingsRequest", P + ".Thing", server_streaming=True)
    m("UploadThings", P + ".ChatMessage", P + ".Thing", client_streaming=True)
    m("Chat", P + ".ChatMessage", P + ".ChatMessage", client_streaming=True, server_streaming=True)
    m("DeleteThing", P + ".DeleteThingRequest", ".google.protobuf.Empty", http=("delete", "/v1/{name=shelves/*/things/*}"), signatures=["name"])
    m("GetPolicy", ".google.iam.v1.GetIamPolicyRequest", ".google.iam.v1.Policy", http=("get", "/v1/{resource=shelves/*}:getPolicy"))
    # an rpc whose snake-case name is a Python keyword (the client defines `import_`)
    m("Import", P + ".DeleteThingRequest", P + ".Thing", http=("post", "/v1/{name=shelves/*/things/*}:import"), body="*")
    # a second service of the same package with its own default host: its region tags carry its own host shortname
    adm = G.add_service(fd, "LabAdmin", host="labadmin.googleapis.com")
    G.add_method(adm, "Ping", P + ".DeleteThingRequest", P + ".Thing", http=("get", "/v1/{name=shelves/*/things/*}:ping"))
    return [fd]


RPCS = ["GetThing", "ListThings", "StartThing", "WatchThings", "UploadThings", "Chat", "DeleteThing", "GetPolicy", "Import"]
snake = lambda s: re.sub(r"(?<!^)(?=[A-Z])", "_", s).lower()


def required_unset(msg, path=""):
    """Paths of REQUIRED fields (recursively through required / set message fields) that carry no value."""
    from google.api import field_behavior_pb2
    from google.protobuf.descriptor import FieldDescriptor as FD
    out = []
    for f in msg.DESCRIPTOR.fields:
        req = field_behavior_pb2.REQUIRED in list(f.GetOptions().Extensions[field_behavior_pb2.field_behavior])
        if req and f.containing_oneof is not None and msg.WhichOneof(f.containing_oneof.name) not in (None, f.name):
            continue          # a member of a oneof whose (one) populated member is another one
        v = getattr(msg, f.name)
        if f.label == FD.LABEL_REPEATED:
            if req and len(v) == 0:
                out.append(path + f.name)
            continue
        if f.type == FD.TYPE_MESSAGE:
            if msg.HasField(f.name):
                out += required_unset(v, path + f.name + ".")
            elif req:
                out.append(path + f.name)
        elif req and v == f.default_value and not (f.has_presence and msg.HasField(f.name)):
            out.append(path + f.name)
    return out


def _is_message_without_required_subfields(msg, dotted):
    from google.api import field_behavior_pb2
    cur = msg
    parts = dotted.split(".")
    for p in parts[:-1]:
        cur = getattr(cur, p)
    f = cur.DESCRIPTOR.fields_by_name[parts[-1]]
    if f.message_type is None or f.label == 3:
        return False
    return not any(field_behavior_pb2.REQUIRED in list(x.GetOptions().Extensions[field_behavior_pb2.field_behavior]) for x in f.message_type.fields)


def _collapse(lines):
    out = []
    for ln in lines:
        if ln == "" and out and out[-1] == "":
            continue
        out.append(ln)
    return out


def scenarios():
    import importlib, sys, time
    from vf import genlab as G
    from google.iam.v1 import iam_policy_pb2, policy_pb2
    from google.auth.credentials import AnonymousCredentials
    from google.longrunning import operations_pb2
    from google.protobuf import descriptor_pool, message_factory, empty_pb2
    import google.auth
    G.stub_pandoc_if_absent()
    failures, n = [], 0
    fs = files()
    try:
        api, res = G.generate(fs, "", extra_dep_modules=(iam_policy_pb2,))
    except Exception as e:      # noqa
        return {"cases": 1, "failures": [{"what": "generation with snippets failed", "error": repr(e)[:300]}]}
    # a service declared in a sub-package of the API (types in the root package): its rpcs need samples too
    root = G.new_file("acme/deep/v1/common.proto", "acme.deep.v1")
    G.add_message(root, "Req", [G.F("name", 1, G.T.TYPE_STRING)])
    G.add_message(root, "Resp", [G.F("x", 1, G.T.TYPE_STRING)])
    sub = G.new_file("acme/deep/v1/services/deep.proto", "acme.deep.v1.services", deps=G.STD_DEPS + ["acme/deep/v1/common.proto"])
    dsvc = G.add_service(sub, "Deep", host="deep.googleapis.com")
    G.add_method(dsvc, "Ping", ".acme.deep.v1.Req", ".acme.deep.v1.Resp", http=("get", "/v1/{name=deep/*}"))
    n += 1
    try:
        _, dres = G.generate([root, sub], "")
        dtags = sorted(t for f in dres.file if f.name.startswith("samples/generated_samples/") and f.name.endswith(".py") for t in re.findall(r"^# \[START ([^\]]+)\]$", f.content, re.M))
        if dtags != ["deep_v1_generated_Deep_Ping_async", "deep_v1_generated_Deep_Ping_sync"]:
            failures.append({"what": "samples of a service declared in a sub-package", "tags": dtags})
    except Exception as e:      # noqa
        failures.append({"what": "generation with snippets fails for an API whose service is declared in a sub-package", "error": repr(e)[:200], "known": "sub-package-service-snippets"})
    by_name = {f.name: f.content for f in res.file}
    samples = {k: v for k, v in by_name.items() if k.startswith("samples/generated_samples/") and k.endswith(".py")}
    meta_files = [k for k in by_name if k.startswith("samples/generated_samples/snippet_metadata") and k.endswith(".json")]
    if len(meta_files) != 1:
        failures.append({"what": "exactly one snippet metadata file expected", "got": meta_files})
        return {"cases": 1, "failures": failures}
    meta = json.loads(by_name[meta_files[0]])
    snippets = {s["regionTag"]: s for s in meta["snippets"]}
    if len(snippets) != len(meta["snippets"]):
        failures.append({"what": "region tags in the metadata are not unique"})
    # one sync and one asyncio sample per rpc, tags of the stated form
    tags = {}
    for path, text in samples.items():
        st = re.findall(r"^# \[START ([^\]]+)\]$", text, re.M)
        en = re.findall(r"^# \[END ([^\]]+)\]$", text, re.M)
        if len(st) != 1 or st != en:
            failures.append({"file": path, "what": "START/END tags are not a single matching pair", "start": st, "end": en})
            continue
        if st[0] in tags:
            failures.append({"file": path, "what": "region tag is not unique", "tag": st[0], "other": tags[st[0]]})
        tags[st[0]] = path
    want_tags = {f"lab_v1_generated_Lab_{r}_{k}" for r in RPCS for k in ("sync", "async")} | {f"labadmin_v1_generated_LabAdmin_Ping_{k}" for k in ("sync", "async")}
    n += 1
    if set(tags) != want_tags:
        failures.append({"what": "region tags are not exactly <shortname>_<version>_generated_<Service>_<Rpc>_<sync|async> for every rpc",
                         "missing": sorted(want_tags - set(tags)), "unexpected": sorted(set(tags) - want_tags)})
    pool = descriptor_pool.DescriptorPool()
    for fp in G.dep_files((iam_policy_pb2,)) + fs:
        pool.Add(fp)
    dyn = lambda full: message_factory.GetMessageClass(pool.FindMessageTypeByName(full))
    in_type = {m.name: m.input_type.lstrip(".") for m in fs[0].service[0].method}
    real_sleep, real_asleep = time.sleep, asyncio.sleep
    time.sleep = lambda s: None

    async def _nosleep(s, *a, **k):
        await real_asleep(0)
    asyncio.sleep = _nosleep
    seen = {}

    def reply_for(path, deser, raws):
        rpc = path.rsplit("/", 1)[1]
        thing = dyn(PKG + ".Thing")(name="shelves/s/things/t", title="T")
        if path.startswith("/google.longrunning.Operations/"):
            op = operations_pb2.Operation(name="operations/1", done=True)
            op.response.Pack(thing)
            op.metadata.Pack(dyn(PKG + ".StartMeta")(pct=100))
            return deser(op.SerializeToString())
        seen.setdefault(rpc, []).append(raws)
        if rpc == "ListThings":
            return deser(dyn(PKG + ".ListThingsResponse")(things=[thing]).SerializeToString())
        if rpc == "StartThing":
            op = operations_pb2.Operation(name="operations/1", done=False)
            return deser(op.SerializeToString())
        if rpc in ("WatchThings",):
            return iter([deser(thing.SerializeToString())])
        if rpc == "Chat":
            return iter([deser(dyn(PKG + ".ChatMessage")(text="hi").SerializeToString())])
        if rpc == "DeleteThing":
            return deser(empty_pb2.Empty().SerializeToString())
        if rpc == "GetPolicy":
            return deser(policy_pb2.Policy(version=3).SerializeToString())
        return deser(thing.SerializeToString())

    def handler(kind, path, raw, md, deser, timeout):
        raws = raw if isinstance(raw, list) else [raw]
        return reply_for(path, deser, raws)

    def ahandler(kind, path, raw, md, deser, timeout):
        return reply_for(path, deser, raw if isinstance(raw, list) else [raw])
    try:
        with G.materialised(res) as root:
            lab_v1 = importlib.import_module("acme.lab_v1")
            from google.api_core import grpc_helpers, grpc_helpers_async
            google.auth.default = lambda *a, **k: (AnonymousCredentials(), "proj")
            grpc_tr = importlib.import_module("acme.lab_v1.services.lab.transports.grpc")
            agrpc_tr = importlib.import_module("acme.lab_v1.services.lab.transports.grpc_asyncio")
            grpc_tr.grpc_helpers.create_channel = lambda *a, **k: G.fake_channel(handler)
            agrpc_tr.grpc_helpers_async.create_channel = lambda *a, **k: _AioChan(ahandler)
            for tag, path in sorted(tags.items()):
                n += 1
                text = samples[path]
                rpc = tag.split("_generated_Lab_")[1].rsplit("_", 1)[0] if "_generated_Lab_" in tag else None
                is_async = tag.endswith("_async")
                label = {"sample": path.rsplit("/", 1)[1]}
                try:
                    code = compile(text, path, "exec")
                except SyntaxError as e:
                    f_ = dict(label, what="the sample does not compile", error=str(e))
                    if rpc == "Import" and "client.import(" in text:
                        f_["known"] = "keyword-rpc-name"
                    failures.append(f_)
                    continue
                if rpc is None:
                    continue            # samples of the second service: tag, uniqueness and compilation only
                # public generated types only
                imports = re.findall(r"^(?:from (\S+) import (\S+)|import (\S+))", text, re.M)
                for frm, name, imp in imports:
                    modname = f"{frm}.{name}" if frm else imp
                    if modname.startswith("acme.") and modname != "acme.lab_v1":
                        failures.append(dict(label, what="the sample imports something other than the public package", module=modname))
                ns = {"__name__": "sample"}
                seen.clear()
                try:
                    exec(code, ns)
                    fn = ns.get("sample_" + snake(rpc or ""))
                    if fn is None:
                        failures.append(dict(label, what="sample function missing", expected="sample_" + snake(rpc or "")))
                        continue
                    if is_async != inspect.iscoroutinefunction(fn):
                        failures.append(dict(label, what="sync/async kind of the sample function does not match its tag"))
                    import io, contextlib
                    with contextlib.redirect_stdout(io.StringIO()):
                        if is_async:
                            asyncio.run(fn())
                        else:
                            fn()
                except Exception as e:      # noqa
                    f_ = dict(label, what="the sample function does not run to completion", error=repr(e)[:300])
                    if is_async and rpc == "ListThings" and "'async for' requires an object with __aiter__ method, got coroutine" in repr(e):
                        f_["known"] = "async-paged-sample-not-awaited"
                    failures.append(f_)
                    continue
                got = seen.get(rpc)
                if not got:
                    failures.append(dict(label, what="the sample did not call its rpc"))
                    continue
                for raw in got[0]:
                    msg = dyn(in_type[rpc]).FromString(raw)
                    missing = required_unset(msg)
                    if missing:
                        f_ = dict(label, what="required fields are not populated in the sample request", fields=missing)
                        if all(_is_message_without_required_subfields(msg, pth) for pth in missing):
                            f_["known"] = "required-message-without-required-subfields"
                        failures.append(f_)
                    for o in msg.DESCRIPTOR.oneofs:
                        if not (len(o.fields) == 1 and o.name.startswith("_")) and msg.WhichOneof(o.name) is None:
                            failures.append(dict(label, what="no member of the oneof is populated", oneof=o.name))
                # exactly one member of each oneof is written by the sample (the wire shows only the last one set)
                if rpc == "GetThing":
                    import ast as _ast
                    written = set()
                    for node in _ast.walk(_ast.parse(text)):
                        if isinstance(node, _ast.keyword) and node.arg in ("by_id", "by_inner"):
                            written.add(node.arg)
                        if isinstance(node, _ast.Attribute) and node.attr in ("by_id", "by_inner") and isinstance(node.ctx, _ast.Store):
                            written.add(node.attr)
                        if isinstance(node, _ast.Attribute) and isinstance(node.value, _ast.Attribute) and node.value.attr in ("by_id", "by_inner") and isinstance(node.ctx, _ast.Store):
                            written.add(node.value.attr)
                    if len(written) != 1:
                        failures.append(dict(label, what="the sample does not populate exactly one member of the oneof `source`", members_written=sorted(written)))
                # metadata entry
                s = snippets.get(tag)
                if s is None:
                    failures.append(dict(label, what="no metadata entry for the region tag", tag=tag))
                    continue
                failures += [dict(label, **f) for f in check_metadata(s, text, path, rpc, is_async, lab_v1)]
                # docstring embedding (sync sample -> sync client, async sample -> async client)
                cls = lab_v1.LabAsyncClient if is_async else lab_v1.LabClient
                doc = getattr(cls, snake(rpc)).__doc__ or ""
                lines = text.splitlines()
                a = next(i for i, ln in enumerate(lines) if ln.startswith("# [START"))
                b = next(i for i, ln in enumerate(lines) if ln.startswith("# [END"))
                between = [ln.rstrip() for ln in lines[a + 1:b]]
                while between and not between[-1]:
                    between.pop()
                doc_lines = [ln.rstrip() for ln in inspect.cleandoc(doc).splitlines()]
                want = [ln for ln in between]
                # the docstring carries the snippet inside a `.. code-block:: python` with a uniform indent
                idx = next((i for i, ln in enumerate(doc_lines) if ln.strip() == ".. code-block:: python"), None)
                if idx is None:
                    failures.append(dict(label, what="the client method docstring embeds no snippet"))
                    continue
                block = []
                for ln in doc_lines[idx + 1:]:
                    if ln and not ln.startswith("    "):
                        break
                    block.append(ln[4:] if ln.startswith("    ") else ln)
                while block and not block[0]:
                    block.pop(0)
                while block and not block[-1]:
                    block.pop()
                if block != want:
                    diff = next((i for i, (x, y) in enumerate(zip(block, want)) if x != y), min(len(block), len(want)))
                    f_ = dict(label, what="the snippet embedded in the docstring is not the text between the START and END tags",
                              first_difference_at=diff, docstring=block[diff:diff + 2], file=want[diff:diff + 2])
                    if _collapse(block) == _collapse(want):
                        f_["known"] = "docstring-blank-line-runs"
                    failures.append(f_)
    finally:
        time.sleep, asyncio.sleep = real_sleep, real_asleep
    return {"cases": n, "failures": failures}


def extra_layouts():
    """(a) internal methods (selective generation, generate_omitted_as_internal): the sync client's docstring embeds the sync sample, the asyncio
    client's the asyncio sample; (b) a request type of a proto-plus dependency package is built from that package, not from the API's own."""
    import ast
    from vf import genlab as G
    from google.iam.v1 import iam_policy_pb2
    G.stub_pandoc_if_absent()
    failures = []
    yaml = {"type": "google.api.Service", "config_version": 3, "name": "lab.example.com", "publishing": {"library_settings": [
        {"version": PKG, "python_settings": {"common": {"selective_gapic_generation": {"methods": [PKG + ".Lab.GetThing"], "generate_omitted_as_internal": True}}}}]}}
    try:
        _, res = G.generate(files(), "", service_yaml=yaml, extra_dep_modules=(iam_policy_pb2,))
        by = {f.name: f.content for f in res.file}

        def doc_of(fname, meth):
            t = ast.parse(by[fname])
            f_ = next((n for n in ast.walk(t) if isinstance(n, (ast.FunctionDef, ast.AsyncFunctionDef)) and n.name == meth), None)
            return None if f_ is None else (ast.get_docstring(f_) or "")
        for fname, want_async in (("acme/lab_v1/services/lab/client.py", False), ("acme/lab_v1/services/lab/async_client.py", True)):
            d = doc_of(fname, "_delete_thing")
            if d is None:
                failures.append({"what": "internal method _delete_thing not found", "file": fname})
            elif ("async def sample_delete_thing" in d) != want_async or "def sample_delete_thing" not in d:
                failures.append({"what": "the docstring of an internal method does not embed the sample of its own kind (sync / asyncio)", "file": fname,
                                 "embeds_async_sample": "async def sample_delete_thing" in d, "embeds_a_sample": "def sample_delete_thing" in d})
    except Exception as e:      # noqa
        failures.append({"what": "generation with snippets in internal mode failed", "error": repr(e)[:200]})
    # (b)
    T = G.T
    dep = G.new_file("acme/common/v1/common.proto", "acme.common.v1")
    G.add_message(dep, "Selector", [G.F("name", 1, T.TYPE_STRING, required=True)])
    fd = G.new_file("acme/finder/v1/finder.proto", "acme.finder.v1", deps=G.STD_DEPS + ["acme/common/v1/common.proto"])
    G.add_message(fd, "Found", [G.F("x", 1, T.TYPE_STRING)])
    G.add_method(G.add_service(fd, "Finder", host="finder.googleapis.com"), "Lookup", ".acme.common.v1.Selector", ".acme.finder.v1.Found", http=("post", "/v1/{name=s/*}:lookup"), body="*")
    try:
        _, res = G.generate([dep, fd], "proto-plus-deps=acme.common.v1", to_generate=["acme/finder/v1/finder.proto"])
        for f in res.file:
            if f.name.startswith("samples/generated_samples/") and f.name.endswith(".py") and "lookup" in f.name:
                quals = set(re.findall(r"(\w+)\.Selector\(", f.content))
                imported = set(re.findall(r"^from [\w.]+ import (\w+)", f.content, re.M))
                if not quals or "finder_v1" in quals or not quals <= imported:
                    failures.append({"what": "the request of another (proto-plus) package is not built from that package's module", "sample": f.name,
                                     "qualifiers": sorted(quals), "imported": sorted(imported)})
    except Exception as e:      # noqa
        failures.append({"what": "generation with a proto-plus dependency request failed", "error": repr(e)[:200]})
    return {"cases": 4, "failures": failures}


def _resolve_dotted(path_):
    import importlib
    parts = path_.split(".")
    for i in range(len(parts), 0, -1):
        try:
            obj = importlib.import_module(".".join(parts[:i]))
        except ImportError:
            continue
        for p_ in parts[i:]:
            obj = getattr(obj, p_)
        return obj
    raise ImportError(path_)


def check_metadata(s, text, path, rpc, is_async, lab_v1):
    out = []
    lines = text.splitlines()
    cm = s.get("clientMethod", {})
    cls = lab_v1.LabAsyncClient if is_async else lab_v1.LabClient
    if s.get("file") != path.rsplit("/", 1)[1]:
        out.append({"what": "metadata file name differs from the emitted file", "file": s.get("file")})
    if cm.get("client", {}).get("shortName") != cls.__name__ or cm.get("client", {}).get("fullName") != f"acme.lab_v1.{cls.__name__}":
        out.append({"what": "metadata client name differs from the generated client", "client": cm.get("client")})
    if cm.get("shortName") != snake(rpc) or cm.get("fullName") != f"acme.lab_v1.{cls.__name__}.{snake(rpc)}" or not hasattr(cls, snake(rpc)):
        out.append({"what": "metadata method name differs from the generated client method", "method": cm.get("fullName")})
    if cm.get("method", {}).get("fullName") != f"{PKG}.Lab.{rpc}" or cm.get("method", {}).get("service", {}).get("fullName") != f"{PKG}.Lab":
        out.append({"what": "metadata rpc / service names differ from the API", "method": cm.get("method")})
    if f"{cls.__name__}()" not in text or f"client.{snake(rpc)}(" not in text:
        out.append({"what": "the sample does not use the client / method named by its metadata"})
    # parameters vs the generated signature
    sig = [p for p in inspect.signature(getattr(cls, snake(rpc))).parameters if p != "self"]
    params = [p["name"] for p in cm.get("parameters", [])]
    if params != sig:
        out.append({"what": "metadata parameters differ from the generated client method's signature", "metadata": params, "signature": sig})
    # result type vs the generated client's return annotation
    import typing
    ann = inspect.signature(getattr(cls, snake(rpc))).return_annotation
    rt = cm.get("resultType")
    args = typing.get_args(ann)
    while typing.get_origin(ann) is not None and typing.get_origin(ann) not in (typing.get_origin(typing.Iterable[int]), typing.get_origin(typing.AsyncIterable[int])) and args:
        ann, args = args[0], typing.get_args(args[0])          # Awaitable[...] wrapper of the asyncio client
    streamed = typing.get_origin(ann) in (typing.get_origin(typing.Iterable[int]), typing.get_origin(typing.AsyncIterable[int]))
    inner = typing.get_args(ann)[0] if streamed else ann
    want_none = inner is None or inner is type(None)
    ok_rt = True
    if want_none:
        ok_rt = rt in (None, "", "None")
    else:
        txt = rt or ""
        if streamed != txt.startswith("Iterable["):
            ok_rt = False
        else:
            path_ = txt[len("Iterable["):-1] if streamed else txt
            try:
                ok_rt = _resolve_dotted(path_) is inner
            except Exception:      # noqa
                ok_rt = False
    if not ok_rt:
        out.append({"what": "metadata resultType differs from the generated client method's return type", "resultType": rt, "annotation": str(ann)})
    # segments
    seg = {x["type"]: x for x in s.get("segments", [])}
    a = next(i for i, ln in enumerate(lines, 1) if ln.startswith("# [START"))
    b = next(i for i, ln in enumerate(lines, 1) if ln.startswith("# [END"))
    for t in ("FULL", "SHORT"):
        if (seg.get(t, {}).get("start"), seg.get(t, {}).get("end")) != (a + 1, b - 1):
            out.append({"what": f"{t} segment is not the text between the tags", "segment": seg.get(t), "tags_at": [a, b]})
    markers = {"CLIENT_INITIALIZATION": r"^\s+# Create a client", "REQUEST_INITIALIZATION": r"^\s+# Initialize request argument\(s\)",
               "REQUEST_EXECUTION": r"^\s+# Make the request", "RESPONSE_HANDLING": r"^\s+# Handle the response"}
    order = list(markers)
    for i, t in enumerate(order):
        g = seg.get(t)
        if not g or not (1 <= g.get("start", 0) <= g.get("end", 0) <= len(lines)):
            f_ = {"what": f"{t} segment is missing or outside the file", "segment": g, "lines": len(lines)}
            void = "# Handle the response" not in text
            if void and g and ((t == "REQUEST_EXECUTION" and "start" in g and "end" not in g) or (t == "RESPONSE_HANDLING" and "end" in g and "start" not in g)):
                f_["known"] = "void-rpc-segments"
            out.append(f_)
            continue
        if not re.match(markers[t], lines[g["start"] - 1]):
            out.append({"what": f"{t} segment does not start at its marker line", "segment": g, "line": lines[g["start"] - 1][:60]})
        if i + 1 < len(order) and seg.get(order[i + 1]) and g["end"] + 1 != seg[order[i + 1]].get("start"):
            out.append({"what": f"{t} segment does not end where {order[i + 1]} starts", "segment": g, "next": seg[order[i + 1]]})
    return out


class _AioChan:
    """grpc.aio channel stand-in incl. streaming multicallables used by the asyncio samples."""

    def __init__(self, handler):
        self.handler = handler
        self._unary_unary_interceptors = []

    def _mk(self, kind, path, ser, deser):
        handler = self.handler

        class Call:
            def __init__(self, it):
                self._it = it

            def __aiter__(self):
                return self

            async def __anext__(self):
                try:
                    return next(self._it)
                except StopIteration:
                    raise StopAsyncIteration

            def __await__(self):
                async def one():
                    return self._it
                return one().__await__()

        def call(request=None, timeout=None, metadata=None, **kw):
            if kind in ("stream_unary", "stream_stream"):
                reqs = request

                async def drain():
                    raws = []
                    if hasattr(reqs, "__aiter__"):
                        async for r in reqs:
                            raws.append(ser(r))
                    else:
                        for r in reqs:
                            raws.append(ser(r))
                    return raws
                if kind == "stream_unary":
                    async def run():
                        raws = await drain()
                        return handler(kind, path, raws, tuple(metadata or ()), deser, timeout)
                    return run()

                class SS:
                    def __init__(s2):
                        s2._it = None

                    def __aiter__(s2):
                        return s2

                    async def __anext__(s2):
                        if s2._it is None:
                            raws = await drain()
                            s2._it = iter(list(handler(kind, path, raws, tuple(metadata or ()), deser, timeout)))
                        try:
                            return next(s2._it)
                        except StopIteration:
                            raise StopAsyncIteration

                    def __await__(s2):
                        async def me():
                            return s2
                        return me().__await__()
                return SS()
            raw = ser(request)
            r = handler(kind, path, [raw] if False else raw, tuple(metadata or ()), deser, timeout)
            if kind == "unary_stream":
                return _AStream(iter(list(r)))

            async def coro():
                return r
            return coro()
        return call

    def unary_unary(self, path, request_serializer=None, response_deserializer=None, *a, **kw):
        return self._mk("unary_unary", path, request_serializer, response_deserializer)

    def unary_stream(self, path, request_serializer=None, response_deserializer=None, *a, **kw):
        return self._mk("unary_stream", path, request_serializer, response_deserializer)

    def stream_unary(self, path, request_serializer=None, response_deserializer=None, *a, **kw):
        return self._mk("stream_unary", path, request_serializer, response_deserializer)

    def stream_stream(self, path, request_serializer=None, response_deserializer=None, *a, **kw):
        return self._mk("stream_stream", path, request_serializer, response_deserializer)

    async def close(self, grace=None):
        pass


class _AStream:
    def __init__(self, it):
        self._it = it

    def __aiter__(self):
        return self

    async def __anext__(self):
        try:
            return next(self._it)
        except StopIteration:
            raise StopAsyncIteration

    def __await__(self):
        async def me():
            return self
        return me().__await__()
