"""C04 - REST calls transcode each request as its google.api.http rule prescribes (the generator's side).

Stage 1 (pyvc): Method.http_options (the declared bindings, primary first, in order, unparsable ones dropped), Method.query_params stated from
the property (request fields bound neither by a path variable of the primary binding nor by its body; nothing with body `*`).
Stage 2 (every variant of the real templates, provenance on the emitted Python):
  rest_base.py.j2 per-method class: _get_http_options lists exactly the bindings in order with their method / uri / body; the required-default
  table has one entry per required field that is a query parameter, keyed by the lowerCamel name; _get_unset_required_fields adds only missing
  keys; _get_transcoded_request hands the (pb of the) request and the options to path_template.transcode; body JSON exists iff the primary
  binding has a body and is the JSON of the transcoder's body; query JSON is the JSON of the transcoder's query_params, plus missing required
  defaults iff there are required fields, plus `$alt=json;enum-encoding=int` iff numeric enums - independently of the other flags; both JSON
  calls switch enum encoding on opts.rest_numeric_enums.
  rest.py.j2: __call__ raises NotImplementedError as its only statement iff the method has no binding or streams requests; otherwise runs the
  pipeline in order (options -> transcode -> body -> query -> _get_response with host, query, session, body) and parses the reply into the
  declared output type; _get_response sends verb/uri of the transcoded request with the flattened query and the body.
Native stand-in (bounded): the generated REST transport against a recording session, request re-assembled from the input annotations.
"""
import ast, re
import z3
from jinja2 import nodes
from vf.core import Run, Result, find_def
from vf.pyvc import Contract
from vf.schema import SchemaModel
from vf.model import Native, FuncV
from vf.types import *        # noqa
from vf import j2sym as J
from vf.emit import parse_variant, frag_info

W = "gapic/schema/wrappers.py"
TR = J.SERVICE_DIR + "transports/"


def _method_loop(tree, marker):
    return next((f for f in tree.find_all(nodes.For) if isinstance(f.iter, nodes.Filter) and getattr(f.target, "name", None) == "method" and J.has_data(f, marker)), None)


def _need(var, key):
    v = var.d(key)
    return "?" if v is None else bool(v)


def _fn(cls, name):
    return next((n for n in cls.body if isinstance(n, (ast.FunctionDef, ast.AsyncFunctionDef)) and n.name == name), None)


def _stmts(fdef):
    return [s for s in fdef.body if not (isinstance(s, ast.Expr) and isinstance(s.value, ast.Constant))]


def base_class(run: Run):
    env = J.make_env()
    tname = TR + "rest_base.py.j2"
    tree = J.parse(env, tname)
    loop = _method_loop(tree, "_get_transcoded_request")
    run.table("rest.base:per-method-class-loop-present", loop is not None, group="rest.base:present")
    if loop is None:
        return
    srt = loop.iter
    run.table("rest.base:one-class-per-method-of-the-service", isinstance(srt, nodes.Filter) and srt.name == "sort" and J.expr_path(getattr(srt.node, "node", None)) == "service.methods.values",
              group="rest.base:present")
    imports = list(tree.find_all((nodes.Import, nodes.FromImport)))
    vs = J.render_nodes(env, tree, imports + list(loop.body), ["method", "service", "opts"], maxlen=2 if run.tier == "quick" else 3)
    run.fragments.append(frag_info(tname, "_Base<Method> class", vs))
    counts = {"none": 0, "full": 0}
    for vi, var in enumerate(vs):
        tag = f"rest.base:v{vi}"
        if var.error:
            run.table(f"{tag}:render-safe", False, detail=var.error, group="rest.base:render-safe")
            continue
        try:
            tree_py, _ = parse_variant(var.text.replace("\n    class ", "\nclass ", 1) if False else "class _Outer:\n" + var.text)
        except SyntaxError as e:
            run.table(f"{tag}:parses", False, detail=str(e), group="rest.base:parses")
            continue
        cls = next((n for n in tree_py.body[0].body if isinstance(n, ast.ClassDef)), None)
        if cls is None:
            run.table(f"{tag}:class-present", False, group="rest.base:shape")
            continue
        H = lambda node: var.holes.get(ast.unparse(node)) if node is not None else None
        HS = lambda node: var.holes.get(node.value) if isinstance(node, ast.Constant) and isinstance(node.value, str) else None
        has_opts, streaming = _need(var, ("bool", "method.http_options")), _need(var, ("bool", "method.client_streaming"))
        names = [n.name for n in cls.body if isinstance(n, ast.FunctionDef)]
        if has_opts is False or streaming is True:
            counts["none"] += 1
            run.table(f"{tag}:no-transcoding-helpers-without-a-binding", names == ["__hash__"], detail=str(names), group="rest.base:no-binding")
            continue
        if has_opts == "?" or streaming == "?":
            run.table(f"{tag}:binding-decision-asked", False, group="rest.base:no-binding")
            continue
        counts["full"] += 1
        nopt = var.d(("len", "method.http_options"))
        # O1 --- _get_http_options
        f = _fn(cls, "_get_http_options")
        ok = f is not None
        lst = None
        if ok:
            st = _stmts(f)
            ok = len(st) == 2 and isinstance(st[0], ast.AnnAssign) and isinstance(st[0].value, ast.List) and isinstance(st[1], ast.Return) and \
                ast.unparse(st[1].value) == ast.unparse(st[0].target)
            lst = st[0].value if ok else None
        run.table(f"{tag}:options:returns-a-literal-list", ok, group="rest.options:shape")
        if lst is not None:
            good = nopt is not None and len(lst.elts) == nopt
            for i, d in enumerate(lst.elts if good else []):
                if not isinstance(d, ast.Dict):
                    good = False
                    break
                got = {k.value: HS(v) for k, v in zip(d.keys, d.values)}
                want = {"method": f"method.http_options[{i}].method", "uri": f"method.http_options[{i}].uri"}
                b = _need(var, ("bool", f"method.http_options[{i}].body"))
                if b == "?":
                    good = False
                if b is True:
                    want["body"] = f"method.http_options[{i}].body"
                if got != want:
                    good = False
            run.table(f"{tag}:options:exactly-the-declared-bindings-in-order-with-method-uri-body", good, detail=ast.unparse(lst)[:200], group="rest.options:bindings")
        # O2/O3 --- required defaults
        reqd = _need(var, ("bool", "method.input.required_fields"))
        table = next((s for s in cls.body if isinstance(s, ast.AnnAssign) and isinstance(s.target, ast.Name) and s.target.id.endswith("__REQUIRED_FIELDS_DEFAULT_VALUES")), None)
        run.table(f"{tag}:defaults:table-iff-required-fields", reqd != "?" and (table is not None) == reqd and ("_get_unset_required_fields" in names) == reqd,
                  group="rest.defaults:present")
        if table is not None and reqd is True:
            nreq = var.d(("len", "method.input.required_fields")) or 0
            want_keys = []
            okq = True
            for i in range(nreq):
                q = _need(var, ("in", f"method.input.required_fields[{i}].name", "method.query_params"))
                if q == "?":
                    okq = False
                if q is True:
                    want_keys.append(f"method.input.required_fields[{i}].name|camel_case")
            d = table.value
            got_keys = [HS(k) for k in d.keys] if isinstance(d, ast.Dict) else None
            run.table(f"{tag}:defaults:one-entry-per-required-query-field-keyed-by-lowerCamel-name", okq and got_keys == want_keys, detail=f"{got_keys} vs {want_keys}",
                      group="rest.defaults:keys")
            if isinstance(d, ast.Dict) and got_keys == want_keys:
                idx = [i for i in range(nreq) if var.d(("in", f"method.input.required_fields[{i}].name", "method.query_params"))]
                for i, v in zip(idx, d.values):
                    R = f"method.input.required_fields[{i}]"
                    is_str = var.d(("eq", f"{R}.field_pb.type", "9"))
                    if is_str:
                        okv = isinstance(v, ast.Constant) and (var.holes.get(v.value) == f"{R}.field_pb.default_value" or v.value == "")
                    elif var.d(("eq", f"{R}.field_pb.type", "11")) or var.d(("eq", f"{R}.field_pb.type", "14")):
                        okv = isinstance(v, ast.Dict) and not v.keys
                    else:
                        p = H(v) or ""
                        okv = p.startswith(f"{R}.type.python_type(")
                    run.table(f"{tag}:defaults:value-is-the-proto-default-of-the-field's-kind[{i}]", bool(okv), detail=ast.unparse(v)[:80], group="rest.defaults:values")
            g = _fn(cls, "_get_unset_required_fields")
            want_src = "return {k: v for k, v in cls.__REQUIRED_FIELDS_DEFAULT_VALUES.items() if k not in message_dict}"
            run.table(f"{tag}:defaults:only-missing-keys-are-added", g is not None and [ast.unparse(s) for s in _stmts(g)] == [want_src] and
                      [a.arg for a in g.args.args] == ["cls", "message_dict"], group="rest.defaults:unset-only")
        # O4 --- transcode hand-off
        f = _fn(cls, "_get_transcoded_request")
        pp = _need(var, ("bool", "method.input.ident.is_proto_plus_type"))
        ok = f is not None and [a.arg for a in f.args.args] == ["http_options", "request"]
        if ok:
            st = _stmts(f)
            ok = len(st) == 3 and isinstance(st[0], ast.Assign) and ast.unparse(st[0].targets[0]) == "pb_request" and \
                ast.unparse(st[1]) == "transcoded_request = path_template.transcode(http_options, pb_request)" and ast.unparse(st[2]) == "return transcoded_request"
            if ok:
                v = st[0].value
                if pp is True:
                    ok = isinstance(v, ast.Call) and isinstance(v.func, ast.Attribute) and v.func.attr == "pb" and H(v.func.value) == "method.input.ident" and \
                        [ast.unparse(a) for a in v.args] == ["request"]
                elif pp is False:
                    ok = ast.unparse(v) == "request"
                else:
                    ok = False
        run.table(f"{tag}:transcode:request-and-options-handed-to-path_template.transcode", bool(ok), group="rest.transcode:hand-off")
        # O5 --- body JSON
        b0 = _need(var, ("bool", "method.http_options[0].body"))
        f = _fn(cls, "_get_request_body_json")
        okb = b0 != "?" and (f is not None) == b0
        if f is not None and okb:
            st = _stmts(f)
            okb = len(st) == 2 and isinstance(st[0], ast.Assign) and isinstance(st[0].value, ast.Call) and ast.unparse(st[0].value.func) == "json_format.MessageToJson" and \
                [ast.unparse(a) for a in st[0].value.args] == ["transcoded_request['body']"] and \
                {k.arg: H(k.value) for k in st[0].value.keywords} == {"use_integers_for_enums": "opts.rest_numeric_enums"} and \
                isinstance(st[1], ast.Return) and ast.unparse(st[1].value) == ast.unparse(st[0].targets[0])
        run.table(f"{tag}:body:json-of-the-transcoded-body-iff-the-primary-binding-has-one", bool(okb), group="rest.body:json")
        # O6 --- query JSON
        f = _fn(cls, "_get_query_params_json")
        num = _need(var, ("bool", "opts.rest_numeric_enums"))
        okq = f is not None
        if okq:
            st = _stmts(f)
            first = st[0] if st else None
            okq = isinstance(first, ast.Assign) and ast.unparse(first.targets[0]) == "query_params" and isinstance(first.value, ast.Call) and \
                ast.unparse(first.value.func) == "json.loads" and len(first.value.args) == 1 and isinstance(first.value.args[0], ast.Call) and \
                ast.unparse(first.value.args[0].func) == "json_format.MessageToJson" and \
                [ast.unparse(a) for a in first.value.args[0].args] == ["transcoded_request['query_params']"] and \
                {k.arg: H(k.value) for k in first.value.args[0].keywords} == {"use_integers_for_enums": "opts.rest_numeric_enums"}
            run.table(f"{tag}:query:json-of-the-transcoded-query-params", bool(okq), group="rest.query:json")
            mid = [ast.unparse(s) for s in st[1:-1]]
            want_mid = []
            if reqd is True:
                want_mid.append(None)         # the update statement (hole-bearing; checked structurally below)
            if num is True:
                want_mid.append("query_params['$alt'] = 'json;enum-encoding=int'")
            ok_alt = num != "?" and (("query_params['$alt'] = 'json;enum-encoding=int'" in mid) == num)
            run.table(f"{tag}:query:$alt-iff-numeric-enums", ok_alt, detail=str(mid), group="rest.query:alt")
            upd = [s for s in st[1:-1] if isinstance(s, ast.Expr) and isinstance(s.value, ast.Call) and ast.unparse(s.value.func) == "query_params.update"]
            ok_upd = reqd != "?" and (len(upd) == 1) == reqd and len(mid) == (1 if reqd else 0) + (1 if num else 0)
            if upd and ok_upd:
                a = upd[0].value.args[0] if upd[0].value.args else None
                ok_upd = isinstance(a, ast.Call) and isinstance(a.func, ast.Attribute) and a.func.attr == "_get_unset_required_fields" and \
                    [ast.unparse(x) for x in a.args] == ["query_params"]
            run.table(f"{tag}:query:missing-required-defaults-added-iff-required-fields", bool(ok_upd), detail=str(mid), group="rest.query:required-defaults")
            run.table(f"{tag}:query:returned", isinstance(st[-1], ast.Return) and ast.unparse(st[-1].value) == "query_params", group="rest.query:json")
        else:
            run.table(f"{tag}:query:method-present", False, group="rest.query:json")
    run.table("rest.base:cover", counts["none"] >= 1 and counts["full"] >= 50, detail=str(counts), group="rest.base:cover")
    # the bytes default: the value arm for "everything else" renders python_type(default or 0); for bytes that is b'' whose str() is not base64
    tbl = next((n for n in loop.find_all(nodes.For) if J.expr_path(n.iter) == "method.input.required_fields"), None)
    handled = sorted({c.value for n in (tbl.find_all(nodes.Const) if tbl is not None else []) for c in [n] if isinstance(c.value, int)})
    # the defaults table is computed from the primary binding; _get_unset_required_fields only looks at the JSON query dict, so a required field
    # that the *selected additional* binding carries in the path is added again, with its default value
    uses_primary_only = "for req_field in method.input.required_fields if req_field.name in method.query_params" in J.template_source(env, tname)
    run.results.append(Result("rest.defaults:no-duplicate-of-a-field-bound-by-the-selected-binding", "open" if uses_primary_only else "unknown", "jinja-ast", 0, "structural",
                              detail="table filter is `req_field.name in method.query_params` (primary binding); the unset-test does not see path-bound fields of an additional binding",
                              group="rest.defaults:additional-bindings"))
    run.results.append(Result("rest.defaults:bytes-default-is-a-json-value", "discharged" if 12 in handled else "open", "jinja-ast", 0, "structural",
                              detail=f"type numbers given their own default arm: {handled}; TYPE_BYTES (12) falls to python_type(0) = b'', sent as the text \"b''\"",
                              group="rest.defaults:bytes-default"))


def call_class(run: Run):
    env = J.make_env()
    tname = TR + "rest.py.j2"
    tree = J.parse(env, tname)
    loop = _method_loop(tree, "__call__")
    run.table("rest.call:per-method-class-loop-present", loop is not None, group="rest.call:present")
    if loop is None:
        return
    imports = list(tree.find_all((nodes.Import, nodes.FromImport)))
    vs = J.render_nodes(env, tree, imports + list(loop.body), ["method", "service", "opts", "api"], maxlen=1)
    run.fragments.append(frag_info(tname, "_<Method> stub class", vs))
    n_ni = n_full = 0
    for vi, var in enumerate(vs):
        tag = f"rest.call:v{vi}"
        if var.error:
            run.table(f"{tag}:render-safe", False, detail=var.error, group="rest.call:render-safe")
            continue
        try:
            tree_py, _ = parse_variant("class _Outer:\n" + var.text)
        except SyntaxError as e:
            run.table(f"{tag}:parses", False, detail=str(e), group="rest.call:parses")
            continue
        cls = next((n for n in tree_py.body[0].body if isinstance(n, ast.ClassDef)), None)
        call = _fn(cls, "__call__") if cls is not None else None
        if call is None:
            run.table(f"{tag}:__call__-present", False, group="rest.call:shape")
            continue
        H = lambda node: var.holes.get(ast.unparse(node)) if node is not None else None
        has_opts, streaming = _need(var, ("bool", "method.http_options")), _need(var, ("bool", "method.client_streaming"))
        st = _stmts(call)
        if has_opts is False or streaming is True:
            n_ni += 1
            ok = len(st) == 1 and isinstance(st[0], ast.Raise) and isinstance(st[0].exc, ast.Call) and ast.unparse(st[0].exc.func) == "NotImplementedError"
            run.table(f"{tag}:refuses-with-NotImplementedError-and-does-nothing-else", ok and _fn(cls, "_get_response") is None, group="rest.call:not-implemented")
            continue
        if has_opts == "?" or streaming == "?":
            run.table(f"{tag}:binding-decision-asked", False, group="rest.call:not-implemented")
            continue
        n_full += 1
        body = _need(var, ("bool", "method.http_options[0].body"))
        src = [ast.unparse(s) for s in st]
        pos = lambda pred: next((i for i, s in enumerate(src) if pred(s)), None)
        i_opt = pos(lambda s: s.startswith("http_options = ") and s.endswith("._get_http_options()"))
        i_tr = pos(lambda s: s.startswith("transcoded_request = ") and s.endswith("._get_transcoded_request(http_options, request)"))
        i_body = pos(lambda s: s.startswith("body = ") and s.endswith("._get_request_body_json(transcoded_request)"))
        i_q = pos(lambda s: s.startswith("query_params = ") and s.endswith("._get_query_params_json(transcoded_request)"))
        # the send: `response = <...>._get_response(...)` whose arguments, bound to the helper's parameters the way Python binds them, hand over the
        # host, the metadata, the query, the session, the transcoded request and (iff the binding has a body) the body
        from props.C09 import bind_call
        gr_ = _fn(cls, "_get_response")

        def is_send(stmt):
            if not (isinstance(stmt, ast.Assign) and ast.unparse(stmt.targets[0]) == "response"):
                return False
            c = stmt.value.value if isinstance(stmt.value, ast.Await) else stmt.value
            if not (isinstance(c, ast.Call) and isinstance(c.func, ast.Attribute) and c.func.attr == "_get_response") or gr_ is None:
                return False
            b = bind_call(c, gr_)
            if b is None:
                return False
            got = {k: (ast.unparse(v) if not isinstance(v, tuple) else "default:" + ast.unparse(v[1])) for k, v in b.items()}
            want_b = {"host": "self._host", "metadata": "metadata", "query_params": "query_params", "session": "self._session", "transcoded_request": "transcoded_request"}
            return all(got.get(k) == v for k, v in want_b.items()) and (got.get("body") == "body" if body is True else got.get("body") in (None, "default:None"))
        i_resp = next((i for i, stmt in enumerate(st) if is_send(stmt)), None)
        order_ok = None not in (i_opt, i_tr, i_q, i_resp) and i_opt < i_tr < i_q < i_resp and (body == "?" or (i_body is not None) == body) and \
            (i_body is None or i_tr < i_body < i_resp)
        run.table(f"{tag}:pipeline-options-transcode-body-query-send-in-order", bool(order_ok), detail=str([i_opt, i_tr, i_body, i_q, i_resp]), group="rest.call:pipeline")
        # the helpers are those of this method's base class
        owners = set(re.findall(r"(_Base\w+RestTransport\._Base\w+)\._get_", "\n".join(src)))
        run.table(f"{tag}:helpers-belong-to-this-method", len(owners) == 1 and all(
            var.holes.get(tok) in ("service.name", "method.name") for o in owners for tok in re.findall(r"H\d+_", o)), detail=str(owners), group="rest.call:pipeline")
        i_err = pos(lambda s: s.startswith("if response.status_code >= 400:"))
        run.table(f"{tag}:http-errors-raise", i_err is not None and i_resp is not None and i_err > i_resp and "raise core_exceptions.from_http_response(response)" in src[i_err],
                  group="rest.call:errors")
        # _get_response
        gr = _fn(cls, "_get_response")
        okg = gr is not None
        if okg:
            g = [ast.unparse(s) for s in _stmts(gr)]
            send = next((s for s in _stmts(gr) if isinstance(s, ast.Assign) and ast.unparse(s.targets[0]) == "response"), None)
            okg = "uri = transcoded_request['uri']" in g and "method = transcoded_request['method']" in g and send is not None
            if okg:
                c = send.value
                kws = {k.arg: ast.unparse(k.value) for k in c.keywords}
                want_kw = {"timeout": "timeout", "headers": "headers", "params": "rest_helpers.flatten_query_params(query_params, strict=True)"}
                if body is True:
                    want_kw["data"] = "body"
                extra = {k: v for k, v in kws.items() if k not in want_kw}
                okg = ast.unparse(c.func) == "getattr(session, method)" and [ast.unparse(a) for a in c.args] == ["'{host}{uri}'.format(host=host, uri=uri)"] and \
                    all(kws.get(k) == v for k, v in want_kw.items()) and set(extra) <= {"stream"} and ("data" in kws) == (body is True)
        run.table(f"{tag}:send:verb-uri-query-body-of-the-transcoded-request", bool(okg), group="rest.call:send")
        # reply decoding
        void, lro, sstream = _need(var, ("bool", "method.void")), _need(var, ("bool", "method.lro")), _need(var, ("bool", "method.server_streaming"))
        if void is True:
            run.table(f"{tag}:void-returns-nothing", not any(isinstance(s, ast.Return) for s in st), group="rest.call:reply")
        elif void is False and lro is False and sstream is False:
            pp = _need(var, ("bool", "method.output.ident.is_proto_plus_type"))
            i_new = pos(lambda s: re.fullmatch(r"resp = (H\d+_)\(\)", s) is not None and var.holes.get(re.fullmatch(r"resp = (H\d+_)\(\)", s).group(1)) == "method.output.ident")
            i_parse = pos(lambda s: s == "json_format.Parse(response.content, pb_resp, ignore_unknown_fields=True)")
            i_pb = pos(lambda s: (re.fullmatch(r"pb_resp = (H\d+_)\.pb\(resp\)", s) is not None) if pp is True else s == "pb_resp = resp")
            ok = None not in (i_new, i_parse, i_pb) and i_resp is not None and i_resp < i_new < i_pb < i_parse and isinstance(st[-1], ast.Return) and ast.unparse(st[-1].value) == "resp"
            run.table(f"{tag}:reply-parsed-into-the-declared-output-type", bool(ok), detail=str([i_new, i_pb, i_parse]), group="rest.call:reply")
    run.table("rest.call:cover", n_ni >= 2 and n_full >= 8, detail=f"not-implemented={n_ni} full={n_full}", group="rest.call:cover")


# ------------------------------------------------------------------------------------------------------------- stage 1
def stage1(run: Run):
    m = SchemaModel()
    from google.api import annotations_pb2
    m.classes["Method"].update({"http_opt": "Opt[Map[Str,Str]]", "path_params": "Seq[Str]", "query_params": "Set[Str]"})
    m.classes["MessageType"]["fields"] = "Map[Str,Field]"
    # From the statement: all set fields other than those bound by the path or the body travel as query parameters; with body `*` none do.
    c = Contract("Method.query_params", source=(W, "Method.query_params"), params={"self": "Method"}, result="Set[Str]",
                 ensures=["implies(self.http_opt is None, forall(lambda x: x not in result, str))",
                          "implies(self.http_opt is not None and self.http_opt.get('body') == '*', forall(lambda x: x not in result, str))",
                          "implies(self.http_opt is not None and self.http_opt.get('body') != '*', forall(lambda x: (x in result) == "
                          "(x in self.input.fields and self.input.fields[x].field_pb.name not in self.path_params and not (self.http_opt.get('body') is not None and "
                          "self.http_opt.get('body') != '' and self.input.fields[x].field_pb.name == self.http_opt.get('body'))), str))"])
    # (the annotation names fields as the proto does; the keys of input.fields are the python names - `type_` for `type`)
    m.add_contract(c)
    run.verify(m, c)
    # Method.path_params: the path variables of the *primary* binding (regex over http_opt['url']; AST provenance - findall is outside pyvc)
    f_pp, h_pp = find_def(W, "Method.path_params")
    s_pp = ast.unparse(f_pp)
    run.functions.append({"qualname": "Method.path_params", "source": W, "sha256_16": h_pp, "obligations": "AST pattern"})
    run.table("rest.schema:path_params-are-the-variables-of-the-primary-binding", "return re.findall(pattern, self.http_opt['url'])" in s_pp and
              "if self.http_opt is None:\n        return []" in s_pp and "additional_bindings" not in s_pp, detail=s_pp[-200:], group="rest.schema:path-params")
    # HttpRule.try_parse_http_rule: one declared binding -> (verb, uri with python field names, body with python field name) or nothing
    from vf.smt import Ref, fn
    from gapic.utils import reserved_names
    m2 = SchemaModel()
    m2.classes["HttpRulePb"]["WhichOneof"] = "method"
    m2.add_class("HttpRule", {"method": "Str", "uri": "Str", "body": "Opt[Str]", "_fields": ["method", "uri", "body"]})
    m2.globals["cls"] = pyv(("class", "HttpRule"))
    m2.globals["utils.RESERVED_NAMES"] = pyv(reserved_names.RESERVED_NAMES)
    m2.globals["RESERVED"] = pyv(reserved_names.RESERVED_NAMES)
    conv = fn("spec.convert_uri_fieldnames", z3.StringSort(), z3.StringSort())
    m2.specs["convert"] = lambda ex, args, st: V(conv(args[0].term), STR)
    m2.add_contract(Contract("utils.convert_uri_fieldnames", params={"uri": "Str"}, result="Str", kind="assumed", ensures=["result == convert(uri)"],
                             note="rewrites reserved-word segments of the path variables; bounded stand-in under C12 (uri grammar)"))
    m2.globals["utils.convert_uri_fieldnames"] = pyv(FuncV("contract", "utils.convert_uri_fieldnames", recv=None))
    # protobuf's WhichOneof("pattern"): the name of the set member of the `pattern` oneof, or None (input; assumed shape)
    m2.add_contract(Contract("HttpRulePb.WhichOneof", params={"self": "HttpRulePb", "group": "Str"}, result="Opt[Str]", kind="assumed",
                             ensures=["result is None or result in ('get', 'put', 'post', 'delete', 'patch', 'custom')"],
                             note="protobuf: WhichOneof returns the set member's field name or None"))
    m2.add_spec("verb_uri", ["r", "v"], "r.get if v == 'get' else (r.put if v == 'put' else (r.post if v == 'post' else (r.delete if v == 'delete' else r.patch)))")
    c2 = Contract("HttpRule.try_parse_http_rule", source=(W, "HttpRule.try_parse_http_rule"), params={"http_rule": "HttpRulePb"}, result="Opt[HttpRule]",
                  ensures=["(result is None) == (http_rule.WhichOneof('pattern') is None or http_rule.WhichOneof('pattern') == 'custom' or "
                           "verb_uri(http_rule, http_rule.WhichOneof('pattern')) == '')",
                           "implies(result is not None, result.method == http_rule.WhichOneof('pattern') and "
                           "result.uri == convert(verb_uri(http_rule, http_rule.WhichOneof('pattern'))))",
                           # the body names the request field by its python name: one trailing underscore on reserved words, nothing when absent
                           "implies(result is not None, (result.body is None) == (http_rule.body == ''))",
                           "implies(result is not None and http_rule.body != '', result.body == http_rule.body + "
                           "('_' if (http_rule.body in RESERVED and not http_rule.body.endswith('_')) else ''))"])
    m2.add_contract(c2)
    run.verify(m2, c2)
    run.assume(*m.assumptions)


def run(run: Run):
    run.witness_check = witness_still_fails
    try:
        stage1(run)
    except Exception as e:      # noqa
        run.unsupported.append(f"stage 1: {e!r}"[:300])
    base_class(run)
    call_class(run)
    run.native_standin("props.C04_native", "scenarios",
                       "11 methods (get/put/post/delete/patch, additional bindings, dotted and ** path variables, field / * / no body, required fields of every "
                       "scalar kind, reserved-word fields, no binding) x 1-3 requests x numeric enums off/on: verb+path+query+body re-assembled from the input annotations")
    run.assume("google.api_core.path_template.transcode, rest_helpers.flatten_query_params and protobuf json_format decide which set field ends up where; "
               "`path, query and body reconstruct the request` is decided deductively only up to their (assumed) contracts and checked end-to-end by the native stand-in")
    run.not_decided += ["the asyncio REST transport (rest_asyncio.py.j2) is checked by the native stand-in's sync twin only",
                        "required enum-typed query fields get the same `{}` default as messages and are not sent when default-valued; the statement speaks of scalar fields"]


_C = {}


def _scen():
    if "f" not in _C:
        from vf.genlab import run_isolated
        _C["f"] = run_isolated("props.C04_native", "scenarios")
    return _C["f"]


def witness_still_fails(k):
    return any(x.get("known") == k["witness"] for x in _scen()["failures"])


def falsify(run, group, info):
    fails = [x for x in _scen()["failures"] if not x.get("known")]
    return ({"kind": "rest", "failures": fails[:6]}, True) if fails else (None, False)


def replay(path):
    import json
    fails = [x for x in _scen()["failures"] if not x.get("known")]
    print("REST scenarios ->", json.dumps(fails[:4])[:1500] if fails else f"conform ({_scen()['cases']} calls; known findings aside)")
    return 1 if fails else 0
