"""C07 part 2 - the emitted pager classes (pagers.py.j2) and the wiring in the client method.

`pages`   : loop invariant over the ghost yield log P and call log Q, for *all* server page histories (no bound):
            P[0] is the first response; the i-th call goes to the stored method with the stored retry/timeout/metadata, its
            request equals the initial request except page_token = P[i].next_page_token; P[i+1] is that call's result; every
            P[i] before the last has a truthy token and the last one does not; at every yield the pager's `_response` is
            the page being yielded (most recent page's attributes).
`__iter__`: the item stream is the concatenation, in order, of the items of the paged field of every page.
Sync and async classes are checked against the same contracts.
"""
import ast
import z3
from vf.core import Run, Result
from vf.smt import Ref, NONE, fn
from vf.types import *          # noqa
from vf import j2sym as J
from vf.pyvc import Contract
from vf.dyn import (DynModel, ANY, dget, get_, set_, truthy_, S, call_result, call_callee, call_nargs, call_arg, call_kw, iter_, yempty,
                    ysnoc, yprefix)
from vf.emit import parse_variant, exec_emitted, prove_all, frag_info, cover

T = J.SERVICE_DIR + "pagers.py.j2"
items_ = fn("dyn.items", Ref, Ref)          # mapping.items() (pure accessor)
flat = fn("spec.flat", Ref, z3.StringSort(), z3.BoolSort(), z3.IntSort(), Ref)    # item stream of the first k pages


def page_items(page, field, is_map):
    x = dget(page, field)
    return z3.If(is_map, iter_(items_(x)), iter_(x))


def model(field_tok, is_map):
    m = DynModel()
    f = z3.StringVal(field_tok)

    def rule_flat(t):
        pages, fld, mp, k = t.children()
        prev = flat(pages, fld, mp, k - 1)
        pg = seq_at(pages, k - 1, ANY)
        q = page_items(pg, fld, mp)
        return [z3.Implies(k == 0, t == yempty), z3.Implies(k > 0, t == yprefix(prev, q, seq_len(q))), seq_len(q) >= 0]
    m.add_ground_rule("spec.flat", rule_flat)
    m.known_callables[".items"] = lambda ex, args, kwargs, st, node: V(items_(args[0].term), ANY)
    mk = lambda f_: (lambda ex, args, st: V(f_(*[a.term for a in args]), ANY))
    m.specs["callee"] = mk(call_callee)
    m.specs["result"] = mk(call_result)
    m.specs["arg0"] = lambda ex, args, st: V(call_arg(args[0].term, 0), ANY)
    m.specs["nargs"] = lambda ex, args, st: V(call_nargs(args[0].term), INT)
    m.specs["kw"] = lambda ex, args, st: V(call_kw(args[0].term, args[1].term), ANY)
    m.specs["truthy"] = lambda ex, args, st: V(truthy_(m.dyn(ex, args[0]).term), BOOL)
    m.specs["attr"] = lambda ex, args, st: V(dget(args[0].term, args[1].term), ANY)
    m.specs["flat_items"] = lambda ex, args, st: V(flat(iter_(args[0].term), f, z3.BoolVal(bool(is_map)), args[1].term), ANY)
    m.specs["prefix"] = lambda ex, args, st: V(yprefix(args[0].term, args[1].term, args[2].term), ANY)
    m.specs["page_item_seq"] = lambda ex, args, st: V(page_items(args[0].term, f, z3.BoolVal(bool(is_map))), SeqT(ANY))
    m.specs["iterseq"] = lambda ex, args, st: V(iter_(args[0].term), SeqT(ANY))
    m.assumptions += ["await is transparent (the awaited callable's result is the response)",
                      "a generator's observable behaviour is its yield sequence; `for x in g` iterates exactly that sequence",
                      "message values are modelled functionally: aliasing between the pager's stored request and the caller's object is covered by the separate structural obligation that the stored request is a fresh copy `T(request)`"]
    return m


# contract of `pages` (from the property statement) -----------------------------------------------------------------
HIST = ("forall(lambda i: callee(_calls[i]) is self0._method and nargs(_calls[i]) == 1"
        " and kw(_calls[i], 'retry') is self0._retry and kw(_calls[i], 'timeout') is self0._timeout and kw(_calls[i], 'metadata') is self0._metadata"
        " and attr(arg0(_calls[i]), 'page_token') is _yielded[i].next_page_token"
        " and forall(lambda a: implies(a != 'page_token', attr(arg0(_calls[i]), a) is attr(self0._request, a)), str)"
        " and _yielded[i + 1] is result(_calls[i]) and truthy(_yielded[i].next_page_token), 0, len(_calls))")
PAGES_INV = [
    "len(_yielded) >= 1 and _yielded[0] is self0._response",
    "len(_calls) == len(_yielded) - 1",
    HIST,
    "self._response is _yielded[len(_yielded) - 1]",
    "self._method is self0._method and self._retry is self0._retry and self._timeout is self0._timeout and self._metadata is self0._metadata",
    "forall(lambda a: implies(a != 'page_token', attr(self._request, a) is attr(self0._request, a)), str)",
]
PAGES_ENSURES = PAGES_INV[:4] + ["not truthy(_yielded[len(_yielded) - 1].next_page_token)"]


def find_class(tree, name):
    for n in tree.body:
        if isinstance(n, ast.ClassDef) and n.name == name:
            return n
    return None


def find_func(cls, name):
    for n in cls.body:
        if isinstance(n, (ast.FunctionDef, ast.AsyncFunctionDef)) and n.name == name:
            return n
    return None


def check_pages(run, m, fn_def, tag):
    self0 = V(z3.Const("self0", Ref), ANY)
    c = Contract(tag, invariants={"while#1": PAGES_INV})
    try:
        ex, outs = exec_emitted(m, fn_def.body, {"self": self0, "self0": self0, "_calls": tup([]), "_yielded": tup([])}, fname=tag, contract=c,
                                ghost={"calls": tup([])})
    except Unsupported as e:
        run.unsupported.append(f"{tag}: {e}")
        return
    obs = [(o.name, o.hyps, o.goal) for o in ex.obligations]
    for pi, o in enumerate(outs):
        if o.kind != "fall":
            obs.append((f"{tag}:no-raise-or-return:path{pi}", o.state.pc, z3.BoolVal(False)))
            continue
        cover(run, m, f"{tag}:cover:path{pi}", o.state.pc, group="pager.pages:cover")
        st = o.state
        for v in ("_yielded", "_calls"):
            if v in st.env and st.env[v].ty is TUPLE:
                st.env[v] = m.tuple_to_seq(ex, st.env[v], st)
        if "_calls" not in st.env:
            st.env["_calls"] = m.tuple_to_seq(ex, tup([]), st)
        for i, e in enumerate(PAGES_ENSURES):
            t, extra, _ = m.eval_spec(ex, e, st.env, st)
            obs.append((f"{tag}:ensures[{i}]:path{pi}", st.pc + extra, t))
    rs = prove_all(run, m, obs)
    for r in rs:
        r.group = "pager.pages:" + group_tail(r.name, tag)
    run.samples.append({"fragment": tag, "obligations": [r.as_json() for r in rs][:6]})


def group_tail(name, tag):
    import re
    rest = name[len(tag) + 1:] if name.startswith(tag) else name
    return ":".join(re.sub(r"@L\d+$", "", p) for p in rest.split(":") if not p.startswith("path"))


def check_init(run, m, cls, tag, input_tok, proto_plus=None):
    """__init__ stores its arguments; the stored request is a private copy of the caller's request, of the input type: `T(request)` for a proto-plus
    type, `T()` filled by `CopyFrom(request)` for a plain protobuf type of another package (whose constructor takes no positional argument)."""
    f = find_func(cls, "__init__")
    ok = f is not None
    stores = {}
    copies = []
    if ok:
        for s in f.body:
            if isinstance(s, ast.Assign) and len(s.targets) == 1 and isinstance(s.targets[0], ast.Attribute) \
                    and isinstance(s.targets[0].value, ast.Name) and s.targets[0].value.id == "self":
                stores[s.targets[0].attr] = ast.unparse(s.value)
            elif isinstance(s, ast.Expr) and isinstance(s.value, ast.Call):
                copies.append(ast.unparse(s.value))
    if stores.get("_request") == f"{input_tok}()" and copies == ["self._request.CopyFrom(request)"] and proto_plus is False:
        stores["_request"] = f"{input_tok}(request)"          # the plain-protobuf spelling of the same private copy
    elif copies or (stores.get("_request") == f"{input_tok}(request)" and proto_plus is False):
        stores["_request"] = f"{stores.get('_request')} / {copies} (proto-plus input type: {proto_plus})"
    want = {"_method": "method", "_request": f"{input_tok}(request)", "_response": "response", "_retry": "retry", "_timeout": "timeout",
            "_metadata": "metadata"}
    for k, v in want.items():
        run.table(f"{tag}:__init__:stores:{k}", stores.get(k) == v, detail=f"{stores.get(k)!r} vs {v!r}", group="pager.init:stores-arguments")
    g = find_func(cls, "__getattr__")
    body = ast.unparse(g.body[-1]) if g else ""
    run.table(f"{tag}:__getattr__:most-recent-response", body == "return getattr(self._response, name)", detail=body,
              group="pager.getattr:most-recent-response")


def check_iter(run, m, fn_def, tag, is_async):
    self0 = V(z3.Const("self0", Ref), ANY)
    m.yield_mode = "stream"
    invs = {"for#1": ["_stream is flat_items(self.pages, _k1)"]}
    if is_async:
        invs["for#2"] = ["_stream is prefix(flat_items(self.pages, _k1), page_item_seq(page), _k2)"]
    c = Contract(tag, invariants=invs)
    env = {"self": self0, "_stream": V(yempty, ANY)}
    try:
        ex, outs = exec_emitted(m, fn_def.body, env, fname=tag, contract=c)
    except Unsupported as e:
        run.unsupported.append(f"{tag}: {e}")
        return
    obs = [(o.name, o.hyps, o.goal) for o in ex.obligations]
    for pi, o in enumerate(outs):
        if o.kind != "fall":
            obs.append((f"{tag}:no-raise-or-return:path{pi}", o.state.pc, z3.BoolVal(False)))
            continue
        cover(run, m, f"{tag}:cover:path{pi}", o.state.pc, group="pager.iter:cover")
        t, extra, _ = m.eval_spec(ex, "_stream is flat_items(self.pages, len(iterseq(self.pages)))", o.state.env, o.state)
        obs.append((f"{tag}:ensures[items-of-every-page-in-order]:path{pi}", o.state.pc + extra, t))
        calls = o.state.ghost.get("calls")
        obs.append((f"{tag}:ensures[no-call-of-its-own]:path{pi}", o.state.pc, z3.BoolVal(calls is None or (calls.ty is TUPLE and len(calls.py) == 0))))
    rs = prove_all(run, m, obs)
    for r in rs:
        r.group = "pager.iter:" + group_tail(r.name, tag)
    run.samples.append({"fragment": tag, "obligations": [r.as_json() for r in rs][:4]})


def run(run: Run):
    env = J.make_env()
    tmpl = env.get_template(T)
    variants = J.explore(lambda: tmpl.render(api=J.Sym("api"), service=J.Sym("service"), opts=J.Sym("opts")), maxlen=1)
    run.add([], frag_info(T, "whole template, one paged method", variants), kind="fragment")
    mpath = "service.methods.values()|selectattr('paged_result_field')[0]"
    seen_classes = 0
    for vi, var in enumerate(variants):
        if var.error:
            run.results.append(Result(f"pagers:v{vi}:render-safe", "open", "eval", 0, "table", detail=var.error, group="pagers:render-safe"))
            continue
        if not var.d(("len", "service.methods.values()|selectattr('paged_result_field')")):
            continue
        try:
            tree, _ = parse_variant(var.text)
        except SyntaxError as e:
            run.results.append(Result(f"pagers:v{vi}:parses", "open", "eval", 0, "table", detail=str(e), group="pagers:parses"))
            continue
        run.table(f"pagers:v{vi}:parses", True, group="pagers:parses")
        is_map = bool(var.d(("bool", mpath + ".paged_result_field.map")))
        grpc = bool(var.d(("in", "'grpc'", "opts.transport")))
        name_tok = var.hole_for(mpath + ".name")
        field_tok = var.hole_for(mpath + ".paged_result_field.name")
        input_tok = var.hole_for(mpath + ".input.ident")
        run.table(f"pagers:v{vi}:holes-present", None not in (name_tok, field_tok, input_tok), group="pagers:holes")
        if None in (name_tok, field_tok, input_tok):
            continue
        kinds = [(f"{name_tok}Pager", False)] + ([(f"{name_tok}AsyncPager", True)] if grpc else [])
        run.table(f"pagers:v{vi}:async-pager-iff-grpc", (find_class(tree, f"{name_tok}AsyncPager") is not None) == grpc,
                  group="pagers:async-pager-iff-grpc")
        for cname, is_async in kinds:
            cls = find_class(tree, cname)
            tag = f"pagers:v{vi}:{'async' if is_async else 'sync'}{':map' if is_map else ''}"
            run.table(f"{tag}:class-present", cls is not None, group="pagers:class-present")
            if cls is None:
                continue
            seen_classes += 1
            m = model(field_tok, is_map)
            pp = var.d(("bool", mpath + ".input.ident.is_proto_plus_type"))
            check_init(run, m, cls, tag, input_tok, None if pp is None else bool(pp))
            pages = find_func(cls, "pages")
            run.table(f"{tag}:pages-present", pages is not None, group="pagers:class-present")
            if pages is not None:
                # most recent page's attributes: at every yield the stored response is the page being yielded
                m.yield_checks = [("response-is-yielded-page", "self._response is _value")]
                check_pages(run, m, pages, tag + ":pages")
            it = find_func(cls, "__aiter__" if is_async else "__iter__")
            run.table(f"{tag}:iter-present", it is not None, group="pagers:class-present")
            if it is not None:
                m2 = model(field_tok, is_map)
                body = it
                if is_async:
                    inner = [n for n in it.body if isinstance(n, (ast.AsyncFunctionDef, ast.FunctionDef))]
                    ret = ast.unparse(it.body[-1]) if it.body else ""
                    run.table(f"{tag}:aiter-returns-its-generator", len(inner) == 1 and ret == f"return {inner[0].name}()" if inner else False,
                              detail=ret, group="pager.iter:aiter-returns-generator")
                    body = inner[0] if inner else None
                if body is not None:
                    check_iter(run, m2, body, tag + ":iter", is_async)
            run.assume(*m.assumptions)
    run.table("pagers:some-class-checked", seen_classes > 0, group="pagers:cover")


def wiring(run: Run):
    """The client method wraps a paged response in the pager, passing rpc/request/response/retry/timeout/metadata through."""
    env = J.make_env()
    for tname, out_attr, what in ((J.SERVICE_DIR + "_client_macros.j2", "client_output", "sync"),
                                  (J.SERVICE_DIR + "async_client.py.j2", "client_output_async", "async")):
        tree = J.parse(env, tname)
        body = J.find_branch(tree, "method.paged_result_field")
        run.table(f"pager.wiring:{what}:branch-present", body is not None, group="pager.wiring:branch-present")
        if body is None:
            continue
        vs = J.render_nodes(env, tree, body, ["method", "api", "service", "name", "snippet_index"])
        run.fragments.append(frag_info(tname, "elif method.paged_result_field", vs))
        for vi, var in enumerate(vs):
            tag = f"pager.wiring:{what}:v{vi}"
            if var.error:
                run.table(f"{tag}:render-safe", False, detail=var.error, group="pager.wiring:render-safe")
                continue
            try:
                tree_py, _ = parse_variant(var.text)
            except SyntaxError as e:
                run.table(f"{tag}:parses", False, detail=str(e), group="pager.wiring:parses")
                continue
            stmts = [s for s in tree_py.body if isinstance(s, ast.Assign)]
            ok = len(stmts) == 1 and isinstance(stmts[0].value, ast.Call) and ast.unparse(stmts[0].targets[0]) == "response"
            run.table(f"{tag}:single-assignment-to-response", ok, group="pager.wiring:shape")
            if not ok:
                continue
            call = stmts[0].value
            kws = {k.arg: ast.unparse(k.value) for k in call.keywords}
            run.table(f"{tag}:arguments-passed-through", kws == {"method": "rpc", "request": "request", "response": "response", "retry": "retry",
                                                                 "timeout": "timeout", "metadata": "metadata"} and not call.args,
                      detail=str(kws), group="pager.wiring:arguments-passed-through")
            fpath = var.holes.get(ast.unparse(call.func))
            run.table(f"{tag}:constructs-the-method's-pager", fpath == f"method.{out_attr}.ident", detail=str(fpath),
                      group="pager.wiring:constructs-pager")
