"""C02 - generated message and enum classes are wire-compatible with the input descriptors.

Stage 1 (pyvc, real functions): Address.rel (same-module references resolve, under Python class-body scoping and proto-plus' lazy string
lookup, to the referenced type), Field.name (proto name, one trailing underscore on reserved words), Field.map, Field.repeated,
Field.proto_type is read through an assumed contract of protobuf's Type.Name.
Stage 2 (every variant of the real templates): the field-declaration region of _message.py.j2 (map and non-map arms), the value region of
_enum.py.j2, nesting order (nested enums and messages before the fields that use them), the __protobuf__ manifest of %proto.py.j2.
Native stand-in (bounded): descriptor sets over the quantifier's shapes -> generated types modules -> runtime descriptor view ==
input descriptor view, two-way byte round trip against dynamic messages of the input descriptors, JSON key names.
"""
import ast, re
import z3
from jinja2 import nodes
from vf.core import Run, Result, find_def
from vf.pyvc import Contract
from vf.schema import SchemaModel
from vf.model import Native, FuncV
from vf.smt import Ref, fn
from vf.types import *        # noqa
from vf import j2sym as J
from vf.emit import parse_variant, frag_info

W = "gapic/schema/wrappers.py"
MD = "gapic/schema/metadata.py"
TYPES = "%namespace/%name_%version/%sub/types/"


def stage1(run: Run):
    m = SchemaModel()
    m.need_join_lemmas()
    m.classes["Address"]["rel"] = "method"
    m.classes["Address"]["__str__"] = "method"
    m.add_contract(Contract("Address.__str__", params={"self": "Address"}, result="Str", kind="assumed",
                            note="other-module form `module.Name`; import agreement is C12's subject"))
    m.globals["str"] = pyv(("pytype", "str"))
    # full(T): T's dotted path inside its module
    m.add_spec("full", ["a"], "'.'.join(a.parent + (a.name,))")
    c = Contract("Address.rel", source=(MD, "Address.rel"), params={"self": "Address", "address": "Address"}, result="Str",
                 requires=["self.package == address.package and self.module == address.module",      # same types module (the other arm is str(self))
                           "len(address.name) > 0 and len(self.name) > 0"],
                 # From the statement ("the same ... message/enum type, nesting") under the scoping rules: a quoted string is looked up lazily
                 # by proto-plus against the module's package, so it must be T's full dotted path; an unquoted dotted name is evaluated in
                 # the class body of the message being written (M = address), where only M's own direct children are bound - so it may be
                 # used only when M is top-level and is T's top-level ancestor, and must then be T's path below M.
                 ensures=["result == \"'\" + full(self) + \"'\" or "
                          "(len(address.parent) == 0 and len(self.parent) > 0 and self.parent[0] == address.name and "
                          " result == '.'.join(self.parent[1:] + (self.name,)))"])
    m.add_contract(c)
    run.verify(m, c)
    # Field.name: the proto name, one trailing underscore on reserved words (keywords among them: table below)
    import keyword
    from gapic.utils import reserved_names
    m.globals["utils.RESERVED_NAMES"] = pyv(reserved_names.RESERVED_NAMES)
    m.globals["KEYWORDS"] = pyv(frozenset(keyword.kwlist))
    cs = [Contract("Field.name", source=(W, "Field.name"), params={"self": "Field"}, result="Str",
                   ensures=["result == self.field_pb.name or result == self.field_pb.name + '_'",
                            "implies(self.meta.address.is_proto_plus_type and self.field_pb.name in KEYWORDS, result == self.field_pb.name + '_')",
                            "implies(not self.meta.address.is_proto_plus_type, result == self.field_pb.name)"]),
          Contract("Field.repeated", source=(W, "Field.repeated"), params={"self": "Field"}, result="Bool",
                   ensures=["result == (self.field_pb.label == 3)"]),
          Contract("Field.map", source=(W, "Field.map"), params={"self": "Field"}, result="Bool",
                   ensures=["result == (self.repeated and self.message is not None and self.message.message_pb.options.map_entry)"]),
          Contract("MessageType.map", source=(W, "MessageType.map"), params={"self": "MessageType"}, result="Bool",
                   ensures=["result == self.message_pb.options.map_entry"])]
    from google.protobuf import descriptor_pb2
    m.globals["descriptor_pb2"] = pyv(Native(descriptor_pb2))
    for c2 in cs:
        m.add_contract(c2)
    for c2 in cs:
        run.verify(m, c2)
    run.assume(*m.assumptions)
    return m


# ------------------------------------------------------------------------------------------------------------- stage 2
def _need(var, key):
    """Decision value, or '?' when the template did not ask (then the obligation must hold for both values)."""
    v = var.d(key)
    return "?" if v is None else bool(v)


def field_region(run: Run):
    env = J.make_env()
    tname = TYPES + "_message.py.j2"
    tree = J.parse(env, tname)
    loops = [f for f in tree.find_all(nodes.For) if J.expr_path(getattr(f.iter, "node", None)) == "message.fields.values" and J.has_data(f, "number=")]
    run.table("decl.fields:loop-present", len(loops) == 1, group="decl.fields:loop-present")
    if len(loops) != 1:
        return
    # nested enums and messages are emitted before the fields that may use them (unquoted relative references need them bound)
    order = [J.expr_path(getattr(f.iter, "node", None)) for f in tree.find_all(nodes.For)
             if J.expr_path(getattr(f.iter, "node", None)) in ("message.nested_enums.values", "message.nested_messages.values", "message.fields.values") and
             (f is loops[0] or J.expr_path(getattr(f.iter, "node", None)) != "message.fields.values")]
    run.table("decl.nesting:nested-types-before-fields", order == ["message.nested_enums.values", "message.nested_messages.values", "message.fields.values"],
              detail=str(order), group="decl.nesting:order")
    nm = [f for f in tree.find_all(nodes.For) if J.expr_path(getattr(f.iter, "node", None)) == "message.nested_messages.values"]
    ok_rec = len(nm) == 1 and any(isinstance(n, nodes.Include) and n.template.value.endswith("types/_message.py.j2") for n in nm[0].find_all(nodes.Include)) and \
        any(isinstance(n, nodes.If) and isinstance(n.test, nodes.Not) and J.expr_path(n.test.node) == "submessage.map" for n in nm[0].find_all(nodes.If))
    run.table("decl.nesting:every-non-map-nested-message-is-emitted-recursively-inside-its-parent", ok_rec, group="decl.nesting:recursion")
    ne = [f for f in tree.find_all(nodes.For) if J.expr_path(getattr(f.iter, "node", None)) == "message.nested_enums.values"]
    run.table("decl.nesting:every-nested-enum-is-emitted-inside-its-parent",
              len(ne) == 1 and any(n.template.value.endswith("types/_enum.py.j2") for n in ne[0].find_all(nodes.Include)), group="decl.nesting:recursion")
    vs = J.render_nodes(env, tree, [loops[0]], ["message", "p"], maxlen=1, fixed={("len", "message.fields.values()"): 1})
    run.fragments.append(frag_info(tname, "field declaration (one field)", vs))
    F = "message.fields.values()[0]"
    n_map = n_plain = 0
    for vi, var in enumerate(vs):
        tag = f"decl.fields:v{vi}"
        if var.error:
            run.table(f"{tag}:render-safe", False, detail=var.error, group="decl.fields:render-safe")
            continue
        try:
            tree_py, _ = parse_variant("class _M:\n" + var.text)
        except SyntaxError as e:
            run.table(f"{tag}:parses", False, detail=str(e) + var.text[:200], group="decl.fields:parses")
            continue
        body = tree_py.body[0].body
        ok = len(body) == 1 and isinstance(body[0], ast.AnnAssign) and isinstance(body[0].value, ast.Call) and isinstance(body[0].target, ast.Name)
        run.table(f"{tag}:one-annotated-declaration", ok, detail=var.text[:200], group="decl.fields:shape")
        if not ok:
            continue
        H = lambda node: var.holes.get(ast.unparse(node)) if node is not None else None
        st_ = body[0]
        call = st_.value
        kws = {}
        for k in call.keywords:
            kws[var.holes.get(k.arg, k.arg)] = k.value
        run.table(f"{tag}:attribute-is-field.name", H(st_.target) == f"{F}.name", detail=str(H(st_.target)), group="decl.fields:attribute-name")
        is_map = _need(var, ("bool", f"{F}.map"))
        func = call.func
        ctor = func.attr if isinstance(func, ast.Attribute) and H(func.value) == "p" else None
        num = kws.get("number")
        run.table(f"{tag}:number-is-field.number", H(num) == f"{F}.number", detail=str(H(num)), group="decl.fields:number")

        def ptype(arg, path):
            return isinstance(arg, ast.Attribute) and H(arg.value) == "p" and var.holes.get(arg.attr) == path
        if is_map is True:
            n_map += 1
            KF, VF = f"{F}.message.fields['key']", f"{F}.message.fields['value']"
            run.table(f"{tag}:map:constructor-is-MapField", ctor == "MapField", detail=str(ctor), group="decl.fields:constructor")
            run.table(f"{tag}:map:key-then-value-proto-types", len(call.args) == 2 and ptype(call.args[0], f"{KF}.proto_type") and ptype(call.args[1], f"{VF}.proto_type"),
                      detail=ast.unparse(call)[:160], group="decl.fields:map-key-value-types")
            ve, vm = _need(var, ("bool", f"{VF}.enum")), _need(var, ("bool", f"{VF}.message"))
            need_ref = True if (ve is True or vm is True) else (False if (ve is False and vm is False) else "?")
            ref_kw = {k: v for k, v in kws.items() if k not in ("number",)}
            if need_ref is True:
                okr = list(ref_kw) == [f"{VF}.proto_type.lower()"] and H(list(ref_kw.values())[0]) == f"{VF}.type.ident.rel(message.ident)"
            elif need_ref is False:
                okr = not ref_kw
            else:
                okr = False
            run.table(f"{tag}:map:value-type-reference-iff-message-or-enum", okr, detail=f"{list(ref_kw)} enum={ve} message={vm}", group="decl.fields:type-reference")
            continue
        if is_map == "?":
            run.table(f"{tag}:map-decision-asked", False, group="decl.fields:constructor")
            continue
        n_plain += 1
        rep = _need(var, ("bool", f"{F}.repeated"))
        run.table(f"{tag}:constructor-is-(Repeated)Field-by-cardinality", rep != "?" and ctor == ("RepeatedField" if rep else "Field"), detail=f"{ctor} repeated={rep}",
                  group="decl.fields:constructor")
        run.table(f"{tag}:proto-type-is-field.proto_type", len(call.args) == 1 and ptype(call.args[0], f"{F}.proto_type"), detail=ast.unparse(call)[:120],
                  group="decl.fields:proto-type")
        opt, one = _need(var, ("bool", f"{F}.proto3_optional")), _need(var, ("bool", f"{F}.oneof"))
        # explicit presence: optional=True iff proto3_optional; oneof='<field.oneof>' iff member of a real oneof (a proto3-optional field's
        # synthetic oneof is not declared)
        want_opt = opt
        has_opt = "optional" in kws and isinstance(kws["optional"], ast.Constant) and kws["optional"].value is True
        run.table(f"{tag}:optional=True-iff-proto3_optional", want_opt != "?" and has_opt == want_opt and ("optional" in kws) == has_opt, detail=f"optional kw={has_opt} decision={opt}",
                  group="decl.fields:explicit-presence")
        if opt is True:
            want_one = False
        elif opt is False:
            want_one = one
        else:
            want_one = "?"
        has_one = "oneof" in kws
        ok_one = want_one != "?" and has_one == want_one and (not has_one or (isinstance(kws["oneof"], ast.Constant) and var.holes.get(kws["oneof"].value) == f"{F}.oneof"))
        run.table(f"{tag}:oneof-declared-iff-member-of-a-real-oneof", ok_one, detail=f"oneof kw={has_one} oneof decision={one} optional decision={opt}",
                  group="decl.fields:oneof-membership")
        fe, fm = _need(var, ("bool", f"{F}.enum")), _need(var, ("bool", f"{F}.message"))
        need_ref = True if (fe is True or fm is True) else (False if (fe is False and fm is False) else "?")
        ref_kw = {k: v for k, v in kws.items() if k not in ("number", "optional", "oneof")}
        if need_ref is True:
            okr = list(ref_kw) == [f"{F}.proto_type.lower()"] and H(list(ref_kw.values())[0]) == f"{F}.type.ident.rel(message.ident)"
        elif need_ref is False:
            okr = not ref_kw
        else:
            okr = False
        run.table(f"{tag}:type-reference-iff-message-or-enum", okr, detail=f"{list(ref_kw)} enum={fe} message={fm}", group="decl.fields:type-reference")
    run.table("decl.fields:cover", n_map >= 2 and n_plain >= 12, detail=f"map variants={n_map} plain variants={n_plain}", group="decl.fields:cover")


def enum_region(run: Run):
    env = J.make_env()
    tname = TYPES + "_enum.py.j2"
    tree = J.parse(env, tname)
    vs = J.render_nodes(env, tree, tree.body, ["enum", "p"], maxlen=2)
    run.fragments.append(frag_info(tname, "whole enum class", vs))
    seen = set()
    for vi, var in enumerate(vs):
        tag = f"decl.enum:v{vi}"
        if var.error:
            run.table(f"{tag}:render-safe", False, detail=var.error, group="decl.enum:render-safe")
            continue
        try:
            tree_py, _ = parse_variant(var.text)
        except SyntaxError as e:
            run.table(f"{tag}:parses", False, detail=str(e), group="decl.enum:parses")
            continue
        cls = tree_py.body[0] if tree_py.body and isinstance(tree_py.body[0], ast.ClassDef) else None
        run.table(f"{tag}:class-named-enum.name-deriving-p.Enum", cls is not None and var.holes.get(cls.name) == "enum.name" and len(cls.bases) == 1 and
                  isinstance(cls.bases[0], ast.Attribute) and var.holes.get(ast.unparse(cls.bases[0].value)) == "p" and cls.bases[0].attr == "Enum", group="decl.enum:class")
        if cls is None:
            continue
        n = var.d(("len", "enum.values"))
        seen.add(n)
        assigns = [s_ for s_ in cls.body if isinstance(s_, ast.Assign) and not (isinstance(s_.targets[0], ast.Name) and s_.targets[0].id == "_pb_options")]
        ok = n is not None and len(assigns) == n and all(
            var.holes.get(ast.unparse(a.targets[0])) == f"enum.values[{i}].name" and var.holes.get(ast.unparse(a.value)) == f"enum.values[{i}].number"
            for i, a in enumerate(assigns))
        run.table(f"{tag}:one-member-per-value-in-order-with-its-number", ok, detail=f"n={n} " + "; ".join(ast.unparse(a) for a in assigns)[:200],
                  group="decl.enum:values")
    run.table("decl.enum:cover", {0, 1, 2} <= seen, detail=str(seen), group="decl.enum:cover")


def manifest_region(run: Run):
    env = J.make_env()
    tname = TYPES + "%proto.py.j2"
    tree = J.parse(env, tname)
    with_node = next(iter(tree.find_all(nodes.With)), None)
    run.table("decl.module:with-block-present", with_node is not None, group="decl.module:present")
    if with_node is None:
        return
    # region: the `__protobuf__ = p.module(...)` output
    outs = [n for n in with_node.body if isinstance(n, (nodes.Output, nodes.If, nodes.For)) and J.has_data(n, "__protobuf__") or J.has_data(n, "manifest")]
    start = next((i for i, n in enumerate(with_node.body) if J.has_data(n, "__protobuf__ =")), None)
    end = next((i for i, n in enumerate(with_node.body) if isinstance(n, nodes.For) and any(isinstance(x, nodes.Include) for x in n.find_all(nodes.Include))), None)
    run.table("decl.module:manifest-region-found", start is not None and end is not None and start < end, group="decl.module:present")
    if start is None or end is None:
        return
    first = with_node.body[start]
    before, after = J.split_output(first, lambda t: t.find("__protobuf__ ="))
    region = [nodes.Output(after, lineno=first.lineno)] + list(with_node.body[start + 1:end])
    vs = J.render_nodes(env, tree, region, ["proto", "api", "p"], maxlen=2)
    run.fragments.append(frag_info(tname, "__protobuf__ manifest", vs))
    for vi, var in enumerate(vs):
        tag = f"decl.module:v{vi}"
        if var.error:
            run.table(f"{tag}:render-safe", False, detail=var.error, group="decl.module:render-safe")
            continue
        try:
            tree_py, _ = parse_variant(var.text)
        except SyntaxError as e:
            run.table(f"{tag}:parses", False, detail=str(e) + var.text[:300], group="decl.module:parses")
            continue
        a = tree_py.body[0] if tree_py.body else None
        ok = isinstance(a, ast.Assign) and ast.unparse(a.targets[0]) == "__protobuf__" and isinstance(a.value, ast.Call) and isinstance(a.value.func, ast.Attribute) \
            and a.value.func.attr == "module" and var.holes.get(ast.unparse(a.value.func.value)) == "p"
        run.table(f"{tag}:__protobuf__-is-p.module(...)", ok, group="decl.module:shape")
        if not ok:
            continue
        kws = {k.arg: k.value for k in a.value.keywords}
        ne, nmsg = var.d(("len", "proto.enums.values()")), var.d(("len", "proto.messages.values()"))
        man = kws.get("manifest")
        names = [var.holes.get(e.value) for e in man.elts] if isinstance(man, ast.Set) else ([] if isinstance(man, ast.Dict) and not man.keys else None)
        want = [f"proto.enums.values()[{i}].name" for i in range(ne or 0)] + [f"proto.messages.values()[{i}].name" for i in range(nmsg or 0)]
        run.table(f"{tag}:manifest-lists-every-top-level-enum-and-message", names is not None and sorted(names) == sorted(want), detail=f"{names} vs {want}",
                  group="decl.module:manifest")
        pk = kws.get("package")
        run.table(f"{tag}:package-is-the-file's-proto-package", isinstance(pk, ast.Constant) and var.holes.get(pk.value) == "proto.meta.address.package|joined",
                  detail=str(var.holes.get(pk.value) if isinstance(pk, ast.Constant) else None), group="decl.module:package")
    # the join separator is not visible in the hole path: read it off the template expression
    joins = [c for n in region for c in n.find_all(nodes.Call) if isinstance(c.node, nodes.Getattr) and c.node.attr == "join" and isinstance(c.node.node, nodes.Const)
             and c.args and J.expr_path(c.args[0]) == "proto.meta.address.package"]
    # ... or spelled with the join filter, anywhere in the template (`{% set x = proto.meta.address.package|join('.') %}`)
    fjoins = [f for n in (list(region) + [tree]) for f in n.find_all(nodes.Filter) if f.name == "join" and J.expr_path(f.node) == "proto.meta.address.package"]
    seps = [c.node.node.value for c in joins] + [(f.args[0].value if f.args and isinstance(f.args[0], nodes.Const) else None) for f in fjoins]
    run.table("decl.module:package-segments-joined-with-a-dot", len(seps) >= 1 and all(x == "." for x in seps), detail=str(seps), group="decl.module:package")


def imports_of_types_module(run: Run):
    """The import lines of a types module (Proto.python_modules): every field type of every message of the file whose import is not the
    file's own gets its `from <package> import <module>` line - a field rendered as `<module>.<Name>` (Address.__str__) finds its module bound."""
    m = SchemaModel()
    m.add_class("Proto", {"all_messages": "Map[Str,MessageType]", "meta": "Metadata"})
    m.classes["MessageType"]["field_types"] = "Seq[AnyType]"
    m.classes["AnyType"]["ident"] = "Address"
    c = Contract("Proto.python_modules", source=("gapic/schema/api.py", "Proto.python_modules"), params={"self": "Proto"}, result="Seq[Import]",
                 ensures=["forall(lambda msg: forall(lambda t: implies(t.ident.python_import != self.meta.address.python_import, "
                          "t.ident.python_import in result), msg.field_types), self.all_messages.values())",
                          "forall(lambda i: implies(i in result, i != self.meta.address.python_import), Import)"])
    m.add_contract(c)
    run.verify(m, c)
    run.assume("Import values are compared as references in the solver (dataclass equality of equal-field Imports is identity of the abstract value); "
               "`sorted` returns a sequence with exactly the members of its argument (order not modelled)")


def tables(run: Run):
    """Finite tables read from the installed dependencies / the real module on every run."""
    import keyword, proto
    from google.protobuf import descriptor_pb2
    from gapic.utils import reserved_names
    bad = []
    for v in descriptor_pb2.FieldDescriptorProto.Type.values():
        name = descriptor_pb2.FieldDescriptorProto.Type.Name(v)[len("TYPE_"):]
        if name == "GROUP":          # proto2 groups: not expressible in proto3 sources, absent from proto-plus
            continue
        c = getattr(proto, name, None)
        if c is None or int(c) != v:
            bad.append((name, v))
    run.table("decl.types:proto.<NAME>-is-the-descriptor-type-number-for-all-17-proto3-types", not bad, detail=str(bad), group="decl.types:proto-type-table")
    missing = [k for k in keyword.kwlist if k not in reserved_names.RESERVED_NAMES]
    run.table("decl.names:every-python-keyword-is-a-reserved-name", not missing, detail=str(missing), group="decl.names:keywords-reserved")


def run(run: Run):
    stage1(run)
    # references into other modules are rendered by Address.__str__ (first component = the name bound by the import line): the contracts of
    # Address.module_alias / python_import / __str__ / imp.Import.__str__ are those of C12 and are proved here as well
    from props import C12
    C12.stage1(run)
    imports_of_types_module(run)
    # the collision set of a file (which decides the aliases of the import lines and of every reference): fields of nested messages count too
    C12.proto_names(run)
    tables(run)
    field_region(run)
    enum_region(run)
    manifest_region(run)
    run.native_standin("props.C02_native", "subpackage_names",
                       "BOUNDED: a types-only sub-package file: runtime full names == input descriptors' (file package, not API package), Any round trip",
                       group="native.C02:subpackage-names")
    run.native_standin("props.C02_native", "scenarios",
                       "descriptor sets (all scalar types, enums incl. aliases, repeated, proto3 optional, oneofs, maps over all 12 key types, nesting depth 4, "
                       "recursion, forward / cross-file / dependency-package references, reserved words) -> generated classes: runtime descriptor view == input view, "
                       "6 random valuations per message round-tripped both ways against dynamic messages of the input descriptors, JSON key sets; Address.rel on all "
                       "same-module address pairs of depth <= 3")
    run.assume("proto-plus turns the declarations into the runtime descriptor, resolves quoted references lazily against the module's package and names a "
               "reserved-word attribute `<name>_` with json_name of <name> (dependency behaviour, observed by the native stand-in)",
               "Python class-body scoping: inside a class body only the names bound in that body (its nested classes, emitted first) and module globals are visible")
    run.not_decided += ["_ProtoBuilder._get_fields / _load_message / the orphan-field pass (late resolution of forward and recursive references) are exercised by the native "
                        "stand-in only", "negative enum values: proto-plus sorts enum members by number, so a proto3 enum with a negative value cannot be declared at all "
                        "(dependency limitation, outside the generator)"]


def falsify(run, group, info):
    from vf.genlab import run_isolated
    f = run_isolated("props.C02_native", "scenarios")
    fails = [x for x in f["failures"] if not x.get("known")]
    return ({"kind": "types", "failures": fails[:6]}, True) if fails else (None, False)


def replay(path):
    import json
    from vf.genlab import run_isolated
    f = run_isolated("props.C02_native", "scenarios")
    fails = [x for x in f["failures"] if not x.get("known")]
    print("types scenarios ->", json.dumps(fails[:4])[:1500] if fails else f"conform ({f['cases']} comparisons)")
    return 1 if fails else 0
