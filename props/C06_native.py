"""C06 replay: routing headers observed on a loopback channel.  Bounded; never counted as proof."""
import asyncio, re, urllib.parse


def files(dotted_reserved=False):
    from vf import genlab as G
    T = G.T
    fd = G.new_file("acme/lab/v1/lab.proto", "acme.lab.v1")
    G.add_message(fd, "Spec", [G.F("region", 1, T.TYPE_STRING), G.F("class", 2, T.TYPE_STRING)])
    G.add_message(fd, "Req", [G.F("table_name", 1, T.TYPE_STRING), G.F("app_profile_id", 2, T.TYPE_STRING), G.F("parent", 3, T.TYPE_STRING),
                              G.F("name", 4, T.TYPE_STRING), G.F("type", 5, T.TYPE_STRING), G.F("spec", 6, T.TYPE_MESSAGE, type_name=".acme.lab.v1.Spec")])
    G.add_message(fd, "Resp", [G.F("x", 1, T.TYPE_STRING)])
    svc = G.add_service(fd, "Lab")
    G.add_method(svc, "Explicit", ".acme.lab.v1.Req", ".acme.lab.v1.Resp", http=("post", "/v1/{name=x/*}:e"), body="*",
                 routing=[("app_profile_id", ""), ("table_name", "{routing_id=projects/*}/**"), ("table_name", "{routing_id=**}"),
                          ("table_name", "projects/*/{table_location=instances/*}/tables/*"), ("name", "{routing_id=x/*/**}")])
    G.add_method(svc, "Implicit", ".acme.lab.v1.Req", ".acme.lab.v1.Resp", http=("get", "/v1/{parent=projects/*}/{name=items/*}/{type}"))
    G.add_method(svc, "Nested", ".acme.lab.v1.Req", ".acme.lab.v1.Resp", http=("get", "/v1/{spec.region=regions/*}/things"))
    G.add_method(svc, "NoRule", ".acme.lab.v1.Req", ".acme.lab.v1.Resp")
    # an annotation without parameters: "send no routing header" (it also switches the implicit header of the http rule off)
    em = G.add_method(svc, "EmptyRule", ".acme.lab.v1.Req", ".acme.lab.v1.Resp", http=("get", "/v1/{name=empties/*}"))
    from google.api import routing_pb2
    em.options.Extensions[routing_pb2.routing].SetInParent()
    from google.api import annotations_pb2
    cm = G.add_method(svc, "Custom", ".acme.lab.v1.Req", ".acme.lab.v1.Resp")
    cm.options.Extensions[annotations_pb2.http].custom.kind = "HEAD"
    cm.options.Extensions[annotations_pb2.http].custom.path = "/v1/{parent=projects/*}/{name=items/*}"
    pm = G.add_method(svc, "Patchy", ".acme.lab.v1.Req", ".acme.lab.v1.Resp", http=("patch", "/v1/{name=items/*}"), body="*")
    ab = pm.options.Extensions[annotations_pb2.http].additional_bindings.add()
    ab.post = "/v1/{parent=projects/*}/items"
    if dotted_reserved:
        G.add_method(svc, "Dotted", ".acme.lab.v1.Req", ".acme.lab.v1.Resp", http=("get", "/v1/{spec.class=classes/*}/things"))
    return [fd]


def tmpl_regex(t):
    """Independent reading of a path template (one named segment at most)."""
    out, key = "", None
    def conv(seg_list):
        r = ""
        for i, s in enumerate(seg_list):
            if s == "**":
                r += ".*" if i == 0 else "(?:/.*)?"
            else:
                r += ("/" if i else "") + ("[^/]+" if s == "*" else re.escape(s))
        return r
    parts, depth, cur = [], 0, ""
    for ch in t:
        depth += ch == "{"
        depth -= ch == "}"
        if ch == "/" and depth == 0:
            parts.append(cur); cur = ""
        else:
            cur += ch
    parts.append(cur)
    res = ""
    for i, p in enumerate(parts):
        if p.startswith("{"):
            inner = p[1:-1]
            key, sub = (inner.split("=", 1) + ["*"])[:2] if "=" in inner else (inner, "*")
            piece = f"(?P<{key}>{conv(sub.split('/'))})"
            res += ("/" if i else "") + piece
        elif p == "**":
            res += ".*" if i == 0 else "(?:/.*)?"
        else:
            res += ("/" if i else "") + ("[^/]+" if p == "*" else re.escape(p))
    return re.compile("^" + res + "$"), key


def expected_explicit(params, req):
    h = {}
    for field, tmpl in params:
        v = req.get(field, "")
        if not tmpl:
            if v:
                h[field] = v
            continue
        rx, key = tmpl_regex(tmpl)
        m = rx.match(v)
        if v and m and m.group(key):
            h[key] = m.group(key)
    return h


def scenarios():
    from vf import genlab as G
    from google.auth.credentials import AnonymousCredentials
    failures, cases = [], 0
    # known finding witness first (compile only)
    api, res = G.generate(files(dotted_reserved=True), "autogen-snippets=false")
    for f in res.file:
        if f.name.endswith("services/lab/client.py"):
            try:
                compile(f.content, f.name, "exec")
            except SyntaxError as e:
                failures.append({"case": "http path variable {spec.class=...}: nested segment named by a reserved word", "error": str(e), "known": "F7-dotted-reserved"})
    try:
        api, res = G.generate(files(), "autogen-snippets=false")
    except Exception as e:      # noqa
        return {"cases": 1, "failures": [{"case": "generation of the routing corpus failed", "error": repr(e)[:300]}]}
    with G.materialised(res):
        from acme import lab_v1
        from acme.lab_v1.services.lab.transports import LabGrpcTransport, LabGrpcAsyncIOTransport
        seen = []

        def handler(kind, path, raw, md, deser, timeout):
            seen.append([v for k, v in md if k == "x-goog-request-params"])
            return deser(lab_v1.Resp.serialize(lab_v1.Resp(x="ok")))
        client = lab_v1.LabClient(transport=LabGrpcTransport(channel=G.fake_channel(handler), credentials=AnonymousCredentials()))
        aclient = lab_v1.LabAsyncClient(transport=LabGrpcAsyncIOTransport(channel=G.fake_aio_channel(handler), credentials=AnonymousCredentials()))
        params = [("app_profile_id", ""), ("table_name", "{routing_id=projects/*}/**"), ("table_name", "{routing_id=**}"),
                  ("table_name", "projects/*/{table_location=instances/*}/tables/*"), ("name", "{routing_id=x/*/**}")]
        reqs = [{}, {"table_name": "projects/p 1/instances/i/tables/t"}, {"table_name": "regions/r"}, {"app_profile_id": "prof&=1", "table_name": ""},
                {"table_name": "projects/p", "name": "x/9/y/z"}, {"table_name": "projects/p/instances/i/tables/t", "name": "nomatch"}, {"name": "x/7"},
                # a value that conforms to a template as a prefix only: the template without trailing ** must not contribute
                {"table_name": "projects/p/instances/i/tables/t/rows/r9"}, {"name": "x", "table_name": "regions/r/projects/p"}]

        def call(cl, which, meth, req):
            seen.clear()
            r = getattr(cl, meth)(request=req)
            if which == "async":
                asyncio.run(_aw(r))
            return seen[0] if seen else None
        for req in reqs:
            want = expected_explicit(params, req)
            for which, cl in (("sync", client), ("async", aclient)):
                cases += 1
                got = call(cl, which, "explicit", dict(req))
                got_d = dict(urllib.parse.parse_qsl(got[0], keep_blank_values=True)) if got else {}
                if got_d != want or (got is not None and len(got) != (1 if want else 0)) or (got and not want):
                    failures.append({"case": f"{which} explicit({req})", "got": got, "want": want})
        imp = [("implicit", {"parent": "projects/p 1", "name": "items/7", "type_": "a/b"}, {"parent": "projects/p 1", "name": "items/7", "type": "a/b"}),
               ("implicit", {}, {"parent": "", "name": "", "type": ""}),
               ("nested", {"spec": {"region": "regions/eu"}}, {"spec.region": "regions/eu"}),
               ("no_rule", {"name": "x"}, None),
               ("empty_rule", {"name": "empties/1"}, None),
               ("custom", {"parent": "projects/p", "name": "items/7"}, {"parent": "projects/p", "name": "items/7"}),
               ("patchy", {"parent": "projects/p", "name": "items/7"}, {"name": "items/7"})]
        for meth, req, want in imp:
            for which, cl in (("sync", client), ("async", aclient)):
                cases += 1
                got = call(cl, which, meth, dict(req))
                got_d = dict(urllib.parse.parse_qsl(got[0], keep_blank_values=True)) if got else None
                if got_d != want:
                    failures.append({"case": f"{which} {meth}({req})", "got": got, "want": want})
    return {"cases": cases, "failures": failures}


async def _aw(x):
    return await x
