"""C12 - reserved-word and colliding names are disambiguated without altering the wire.

Stage 1 (pyvc): Field.name (py_name of the proto name for proto-plus types, the raw name otherwise); Address.module_alias (an alias is used
iff the module name collides or is reserved); import/reference agreement: the first component of str(address) is the name that
str(address.python_import) binds (Address.__str__, Address.python_import, imp.Import.__str__); FieldHeader.disambiguated, Method.
client_method_name / transport_safe_name are C06 / C03 obligations.
Finite tables (exhaustive over the real lists, read on every run): every reserved word / keyword at every naming rule yields an identifier
that is not a keyword; proto-plus maps the suffixed attribute back to the proto name for every word of the generator's list.
Bounded: convert_uri_fieldnames (URI variable paths) and the proto file-name disambiguation against independent specifications.
Native stand-in: a generated library with reserved words at every position of the statement, compiled, imported and driven.
"""
import ast, itertools, keyword, re
import z3
from vf.core import Run, Result
from vf.pyvc import Contract
from vf.schema import SchemaModel
from vf.smt import Ref, fn
from vf.types import *        # noqa
from vf.model import Native, FuncV

W = "gapic/schema/wrappers.py"
MD = "gapic/schema/metadata.py"


def reserved():
    import gapic.utils as utils
    return frozenset(utils.RESERVED_NAMES)


def stage1(run: Run):
    m = SchemaModel()
    import gapic.utils as utils
    m.globals["utils"] = pyv(Native(utils))
    m.globals["RESERVED"] = pyv(reserved())
    m.globals["RESERVED_NAMES"] = pyv(reserved())
    m.add_spec("py_name", ["n"], "n + '_' if n in RESERVED else n")
    c1 = Contract("Field.name", source=(W, "Field.name"), params={"self": "Field"}, result="Str",
                  ensures=["result == (py_name(self.field_pb.name) if self.meta.address.is_proto_plus_type else self.field_pb.name)"])
    m.add_contract(c1)
    run.verify(m, c1)
    # ---- module alias and import/reference agreement ------------------------------------------------------------------------
    m2 = SchemaModel()
    m2.globals["RESERVED_NAMES"] = pyv(reserved())
    m2.globals["RESERVED"] = pyv(reserved())
    m2.classes["Address"].update({"subpackage": "Seq[Str]", "convert_to_versioned_package": "method"})
    m2.classes["Naming"].update({"module_namespace": "Seq[Str]", "versioned_module_name": "Str"})
    m2.add_class("Import", {"package": "Seq[Str]", "module": "Str", "alias": "Str", "_fields": ["package", "module", "alias"], "_value_class": False, "_defaults": {"alias": ""}})
    m2.globals["imp"] = pyv(("module", "imp"))
    c2 = Contract("Address.module_alias", source=(MD, "Address.module_alias"), params={"self": "Address"}, result="Str",
                  ensures=["(result != '') == (self.module in self.collisions or self.module in RESERVED)",
                           "implies(result != '', result.endswith('_' + self.module))"])
    m2.add_contract(c2)
    run.verify(m2, c2)
    m2.add_contract(Contract("Address.convert_to_versioned_package", params={"self": "Address"}, result="Seq[Str]", kind="assumed"))
    c3 = Contract("Address.python_import", source=(MD, "Address.python_import"), params={"self": "Address"}, result="Import",
                  requires=["self.module != ''"],
                  ensures=["implies(self.is_proto_plus_type or self.proto_package.startswith(self.api_naming.proto_package), "
                           "result.module == self.module and result.alias == self.module_alias)",
                           "implies(not self.is_proto_plus_type and not self.proto_package.startswith(self.api_naming.proto_package), "
                           "result.module == self.module + '_pb2' and result.alias == '')"])
    m2.add_contract(c3)
    run.verify(m2, c3)
    head = fn("spec.head_of_dotted", z3.StringSort(), z3.StringSort())
    c4 = Contract("Address.__str__", source=(MD, "Address.__str__"), params={"self": "Address"}, result="Str",
                  requires=["self.module != ''"],
                  # the identifier starts with the name bound by the import line: alias if any, else the module (with _pb2 for foreign types)
                  ensures=["implies(self.is_proto_plus_type, result == '.'.join((self.module_alias if self.module_alias != '' else self.module,) + self.parent + (self.name,)))",
                           "implies(not self.is_proto_plus_type, result == '.'.join((self.module + '_pb2',) + self.parent + (self.name,)))"])
    m2.add_contract(c4)
    run.verify(m2, c4)
    c5 = Contract("Import.__str__", source=("gapic/schema/imp.py", "Import.__str__"), params={"self": "Import"}, result="Str",
                  # the bound name is the alias if there is one, else the module: exact shape of the import line
                  ensures=["result == (('from ' + '.'.join(self.package) + ' ') if len(self.package) > 0 else '') + 'import ' + self.module + "
                           "((' as ' + self.alias) if self.alias != '' else '') + "
                           "('  # type: ignore' if (self.module.endswith('_pb2') or 'api_core' in self.package) else '')"])
    m2.specs["contains"] = lambda ex, args, st: V(z3.Contains(args[0].term, args[1].term), BOOL)
    m2.add_contract(c5)
    run.verify(m2, c5)
    run.assume("is_proto_plus_type agrees with `proto_package.startswith(api_naming.proto_package) or in proto_plus_deps` (Address.is_proto_plus_type, read as an accessor)",
               "foreign (pb2) types are never aliased: their import line has no alias and their identifier uses <module>_pb2")


# ---------------------------------------------------------------------------------------------------------- finite tables
def tables(run: Run):
    R = reserved()
    kw = set(keyword.kwlist)
    ident_ok = lambda s: s.isidentifier() and not keyword.iskeyword(s)
    py_name = lambda n: n + "_" if n in R else n
    bad = [w for w in sorted(R | kw) if not ident_ok(py_name(w))]
    run.table("names.table:py_name-of-every-reserved-word-and-keyword-is-a-usable-identifier", not bad, detail=str(bad), group="names.table:py_name")
    from gapic.utils import to_snake_case
    from gapic.utils.code import make_private
    bad2 = []
    for w in sorted(kw):
        for variant in {w, w.capitalize(), w.upper()}:
            name = variant + "_" if variant.lower() in kw else variant
            for n2 in (to_snake_case(name), make_private(to_snake_case(name))):
                if not ident_ok(n2):
                    bad2.append((variant, n2))
    run.table("names.table:client-method-name-of-every-keyword-named-rpc-is-a-usable-identifier", not bad2, detail=str(bad2[:5]),
              group="names.table:client-method-names")
    # proto-plus maps the suffixed attribute back to the proto field name (checked concretely for every word)
    import proto
    bad3 = []
    for i, w in enumerate(sorted(R)):
        try:
            cls = type(f"Probe{i}", (proto.Message,), {"__module__": "verif_probe_%d" % i, w + "_": proto.Field(proto.STRING, number=1)})
            pbf = cls.pb(cls(**{w + "_": "v"}))
            names = [f.name for f in pbf.DESCRIPTOR.fields]
            j = cls.to_json(cls(**{w + "_": "v"}))
            if names not in ([w], [w + "_"]) or '"v"' not in j:
                bad3.append((w, names))
            def to_json_name(n):            # protobuf's rule: drop underscores, capitalise the following character
                out, up = "", False
                for ch in n:
                    if ch == "_":
                        up = True
                    else:
                        out += ch.upper() if up else ch
                        up = False
                return out
            wire_name_ok = names == [w] or (names == [w + "_"] and pbf.DESCRIPTOR.fields[0].json_name == to_json_name(w))
            if not wire_name_ok:
                bad3.append((w, names, pbf.DESCRIPTOR.fields[0].json_name))
        except Exception as e:       # noqa
            bad3.append((w, repr(e)[:80]))
    run.table("names.table:proto-plus-accepts-the-suffixed-attribute-for-every-reserved-word", not bad3, detail=str(bad3[:5]),
              group="names.table:proto-plus")


    # the REST layer keys JSON-side tables by `<python attribute>|camel_case`: for every reserved word that maps the suffixed attribute back to the
    # JSON name of the field (finite domain, enumerated completely; words with inner underscores included)
    from gapic.utils import to_camel_case
    # (field names follow proto style, lower_snake_case: the three capitalised keywords False / None / True are left out and listed as not decided)
    bad4 = [(w, to_camel_case(w + "_")) for w in sorted(R) if w == w.lower() and to_camel_case(w + "_") != to_json_name_(w)]
    run.not_decided.append("fields named by one of the capitalised keywords False / None / True (camel_case lower-cases the first letter; not proto style)")
    run.table("names.table:camel_case-of-the-suffixed-attribute-is-the-JSON-name-for-every-reserved-word", not bad4, detail=str(bad4[:5]), group="names.table:json-names")


def to_json_name_(n):
    """protobuf's lowerCamel rule: drop underscores, capitalise the character that follows."""
    out, up = "", False
    for ch in n:
        if ch == "_":
            up = True
        else:
            out += ch.upper() if up else ch
            up = False
    return out


# ---------------------------------------------------------------------------------------------------------- bounded stand-ins
def uri_spec(uri, R):
    out, i = "", 0
    while i < len(uri):
        if uri[i] == "{":
            j = uri.index("}", i)
            inner = uri[i + 1:j]
            path, eq, tmpl = inner.partition("=")
            path2 = ".".join(s + "_" if s in R else s for s in path.split("."))
            out += "{" + path2 + eq + tmpl + "}"
            i = j + 1
        else:
            out += uri[i]
            i += 1
    return out


def bounded_uri(run: Run):
    from gapic.utils import convert_uri_fieldnames
    R = reserved()
    words = ["name", "parent", "type", "class", "format", "max", "in"]
    paths = [w for w in words] + [f"{a}.{b}" for a in words[:4] for b in words] + [f"a.{b}.{c}" for b in words[2:5] for c in words[2:5]]
    skels = ["/v1/{%s}", "/v1/{%s=projects/*}", "/v1/{%s=projects/*/locations/*}/things", "/v1/{%s=**}:cancel"]
    n, bad = 0, []
    for p in paths:
        for sk in skels:
            uri = sk % p
            n += 1
            if convert_uri_fieldnames(uri) != uri_spec(uri, R):
                bad.append((uri, convert_uri_fieldnames(uri), uri_spec(uri, R)))
    for p1, p2 in itertools.product(paths[:9], repeat=2):
        uri = "/v1/{%s=a/*}/{%s}" % (p1, p2)
        n += 1
        if convert_uri_fieldnames(uri) != uri_spec(uri, R):
            bad.append((uri, convert_uri_fieldnames(uri)))
    run.bounded.append({"what": "utils.convert_uri_fieldnames == segment-wise py_name of every variable path, everything else unchanged",
                        "bound": f"{n} uri templates (<=2 variables, paths of <=3 segments over reserved and ordinary words)", "cases": n, "failures": bad[:4]})
    if bad:
        run.results.append(Result("names.uri:convert_uri_fieldnames", "open", "enumeration", 0, "bounded", detail=str(bad[:2]), group="names.uri:convert_uri_fieldnames"))
        run._bounded_fail = {"uri": bad[0][0]}


def proto_names(run: Run):
    """Proto.names (the collision set handed to every address of the file): a module base name that two field types of the file - of the same message
    or of different ones - import from different packages is a collision name, and so is a reserved module name.  Address.module_alias (proved in
    stage 1) aliases exactly the modules in that set.  Loops carry invariants over a ghost reading of the defaultdict(set)."""
    m = SchemaModel()
    m.add_class("Proto", {"all_messages": "Map[Str,MessageType]", "all_enums": "Map[Str,EnumType]", "meta": "Metadata"})
    m.classes["MessageType"]["recursive_field_types"] = "Seq[AnyType]"
    m.classes["MessageType"]["name"] = "Str"
    m.classes["EnumType"]["name"] = "Str"
    m.classes["AnyType"]["ident"] = "Address"
    m.globals["RESERVED_NAMES"] = pyv(reserved())
    m.globals["collections"] = pyv(("module", "collections"))
    # recorded(mods, t): the package of t is among the packages recorded for t's module name
    m.add_spec("recorded", ["mods", "t"], "t.ident.module in mods and t.ident.package in mods[t.ident.module]")
    inv_out = "forall(lambda i: forall(lambda t: recorded(modules, t), self.all_messages.values()[i].recursive_field_types), 0, {k})"
    names_inv = ("forall(lambda i: self.all_messages.values()[i].name in answer and "
                 "forall(lambda f: f.name in answer, self.all_messages.values()[i].fields.values()), 0, {k})")
    c = Contract("Proto.names", source=("gapic/schema/api.py", "Proto.names"), params={"self": "Proto"}, result="Set[Str]",
                 locals={"answer": "Set[Str]", "modules": "Map[Str,Set[Seq[Str]]]"},
                 ensures=["forall(lambda m1: forall(lambda m2: forall(lambda t1: forall(lambda t2: implies(t1.ident.module == t2.ident.module and "
                          "t1.ident.package != t2.ident.package, t1.ident.module in result), m2.recursive_field_types), m1.recursive_field_types), "
                          "self.all_messages.values()), self.all_messages.values())",
                          "forall(lambda m1: forall(lambda t1: implies(t1.ident.module in RESERVED_NAMES, t1.ident.module in result), m1.recursive_field_types), "
                          "self.all_messages.values())",
                          # the names a module alias must not clash with: every message of the file - nested ones included - and every field of each
                          "forall(lambda i: self.all_messages.values()[i].name in result and "
                          "forall(lambda f: f.name in result, self.all_messages.values()[i].fields.values()), 0, len(self.all_messages.values()))"],
                 invariants={"for#1": [names_inv.format(k="_k")],
                             "for#2": [inv_out.format(k="_k")],
                             "for#3": [inv_out.format(k="_k2"), "forall(lambda i: recorded(modules, m.recursive_field_types[i]), 0, _k)"]})
    m.add_contract(c)
    run.verify(m, c)
    run.assume(*m.assumptions)
    run.assume("collections.defaultdict(set): reading a missing key yields an empty set that is stored under the key; set membership of package tuples is by value")


def run(run: Run):
    stage1(run)
    proto_names(run)
    # the import lines of a types module: every foreign field type is imported (a same-named module of another package is not "the file itself")
    from props import C02
    C02.imports_of_types_module(run)
    tables(run)
    bounded_uri(run)
    run.native_standin("props.C12_native", "scenarios",
                       "generated library with reserved words as field / nested field / flattened parameter / http path variable / body / routing field / rpc / file name")
    run.not_decided.append("MessageType.get_field, Method._fields_mapping, HttpRule.try_parse_http_rule and API.build's file-name disambiguation are exercised "
                           "only by the native stand-in (varargs / nested generators / os.path are outside pyvc's subset)")


def falsify(run, group, info):
    b = getattr(run, "_bounded_fail", None)
    if b is not None:
        return {"kind": "bounded", "failure": b}, True
    from vf.genlab import run_isolated
    f = run_isolated("props.C12_native", "scenarios")
    fails = [x for x in f["failures"] if not x.get("known")]
    return ({"kind": "names", "failures": fails[:6]}, True) if fails else (None, False)


def replay(path):
    import json
    from vf.genlab import run_isolated
    f = run_isolated("props.C12_native", "scenarios")
    fails = [x for x in f["failures"] if not x.get("known")]
    print("reserved-name scenarios ->", json.dumps(fails[:4]) if fails else "conform (known findings aside)")
    return 1 if fails else 0
