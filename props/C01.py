"""C01 - every generated library is valid, importable Python with the requested clients (partial: the clauses a contract can carry).

Decided deductively:
  (a) transport gating: Generator._is_desired_transport is proved under C11; here the async-client / rest_base / rest_asyncio gates of
      Generator._render_template are read off its AST, and the registry fragment of client.py.j2 (both template sets) is checked on every variant:
      keys = requested transports in the order grpc, grpc_asyncio, rest; get_transport_class() returns the first entry, i.e. gRPC when requested,
      REST otherwise.
  (b) conditional typing imports: Service.any_client_streaming / any_server_streaming are proved to be `exists method: method.<flag>`; every use
      of a conditionally imported typing name in the sync and asyncio client templates sits under a condition that implies the import's condition.
  (c) Proto.python_modules drops exactly the module's own import (compared by the whole python_import, not by the bare module name) - AST provenance.
  (d) every variant of every fragment under contract in the other properties parses (recorded there); whole-template render safety is bounded.
Native stand-in (bounded): generate-and-import over 9 option sets, one interpreter each; names bound nowhere in a module are reported even when
the import itself succeeds.
"""
import ast, re
import z3
from jinja2 import nodes
from vf.core import Run, Result, find_def, REPO
from vf.pyvc import Contract
from vf.schema import SchemaModel
from vf.types import *        # noqa
from vf import j2sym as J
from vf.emit import parse_variant, frag_info

W = "gapic/schema/wrappers.py"
A = "gapic/schema/api.py"
GEN = "gapic/generator/generator.py"
SD = J.SERVICE_DIR


def stage1(run: Run):
    m = SchemaModel()
    m.classes["Method"].update({"client_streaming": "Bool", "server_streaming": "Bool"})
    for flag in ("client_streaming", "server_streaming"):
        c = Contract(f"Service.any_{flag}", source=(W, f"Service.any_{flag}"), params={"self": "Service"}, result="Bool",
                     ensures=[f"result == exists(lambda x: x.{flag}, self.methods.values())"])
        m.add_contract(c)
        run.verify(m, c)
    run.assume(*m.assumptions)
    # gates of _render_template (AST provenance)
    fdef, h = find_def(GEN, "Generator._render_template")
    src = ast.unparse(fdef)
    run.functions.append({"qualname": "Generator._render_template (gates)", "source": GEN, "sha256_16": h, "obligations": "AST patterns"})
    g = "import.gates:_render_template"
    run.table("import.gates:transport-modules-only-when-desired", "'transport' in template_name and (not self._is_desired_transport(template_name, opts))" in src, group=g)
    run.table("import.gates:async-client-only-with-grpc", "'async_client' in template_name and 'grpc' not in opts.transport" in src, group=g)
    run.table("import.gates:rest_base-only-with-rest", "'rest_base' in template_name and 'rest' not in opts.transport" in src, group=g)
    run.table("import.gates:one-file-per-service-and-per-proto", "for service in api_schema.services.values():" in src and "for proto in api_schema.protos.values():" in src, group=g)
    # Proto.python_modules: self-import filter
    f2, h2 = find_def(A, "Proto.python_modules")
    s2 = ast.unparse(f2)
    run.functions.append({"qualname": "Proto.python_modules", "source": A, "sha256_16": h2, "obligations": "AST pattern"})
    run.table("import.modules:only-the-module's-own-import-is-dropped", "self_reference = self.meta.address.python_import" in s2 and
              "if t.ident.python_import != self_reference" in s2 and "t.ident.python_import for" in s2.replace("\n", " ").replace("  ", " "),
              detail=s2[-400:], group="import.modules:self-import-filter")


def registry(run: Run):
    for tdir, label in ((None, "default"), ("ads", "ads")):
        env = J.make_env() if tdir is None else J.make_env(template_dir="ads-templates")
        tname = (SD if tdir is None else "%namespace/%name/%version/%sub/services/%service/") + "client.py.j2"
        try:
            tree = J.parse(env, tname)
        except Exception as e:      # noqa
            run.table(f"import.registry:{label}:template-present", False, detail=repr(e)[:200], group="import.registry:present")
            continue
        # the class body region: from `_transport_registry = OrderedDict()` to the end of get_transport_class
        cls_out = next((n for n in tree.find_all(nodes.Output) if J.has_data(n, "_transport_registry = OrderedDict()")), None)
        run.table(f"import.registry:{label}:region-present", cls_out is not None, group="import.registry:present")
        if cls_out is None:
            continue
        holder = next(h for h in tree.find_all((nodes.Block, nodes.Template)) if cls_out in getattr(h, "body", []))
        body = holder.body
        i0 = body.index(cls_out)
        before, after = J.split_output(cls_out, lambda t: (t.rfind("\n", 0, t.find("_transport_registry = OrderedDict()")) + 1) if "_transport_registry = OrderedDict()" in t else -1)
        region = [nodes.Output(after, lineno=cls_out.lineno)]
        for n in body[i0 + 1:]:
            if isinstance(n, nodes.Output) and J.has_data(n, "return next(iter(cls._transport_registry.values()))"):
                b2, a2 = J.split_output(n, lambda t: (t.find("return next(iter(cls._transport_registry.values()))") + len("return next(iter(cls._transport_registry.values()))")) if "return next(iter(cls._transport_registry.values()))" in t else -1)
                region.append(nodes.Output(b2, lineno=n.lineno))
                break
            region.append(n)
        vs = J.render_nodes(env, tree, region, ["service", "opts", "rest_async_io_enabled", "api"], maxlen=2)
        run.fragments.append(frag_info(tname, "_transport_registry .. get_transport_class", vs))
        seen = set()
        for vi, var in enumerate(vs):
            tag = f"import.registry:{label}:v{vi}"
            if var.error:
                run.table(f"{tag}:render-safe", False, detail=var.error, group="import.registry:render-safe")
                continue
            try:
                tree_py, _ = parse_variant("class _Meta:\n" + var.text)
            except SyntaxError as e:
                run.table(f"{tag}:parses", False, detail=str(e) + var.text[:300], group="import.registry:parses")
                continue
            grpc = var.d(("in", "'grpc'", "opts.transport"))
            rest = var.d(("in", "'rest'", "opts.transport"))
            if grpc is None or rest is None:
                run.table(f"{tag}:transport-decisions-asked", False, detail=str(var.decisions), group="import.registry:keys")
                continue
            seen.add((bool(grpc), bool(rest)))
            cls = tree_py.body[0]
            keys = []
            for s in ast.walk(cls):
                if isinstance(s, ast.Assign) and isinstance(s.targets[0], ast.Subscript) and ast.unparse(s.targets[0].value) == "_transport_registry":
                    keys.append((s.lineno, s.targets[0].slice.value, ast.unparse(s.value)))
            keys = [k for _, k, _v in sorted(keys)]
            want = (["grpc", "grpc_asyncio"] if grpc else []) + (["rest"] if rest else [])
            if label == "ads":
                want = [k for k in want if k != "grpc_asyncio"]
            core = [k for k in keys if k != "rest_asyncio"]
            run.table(f"{tag}:keys-are-the-requested-transports-grpc-first", core == want and ("rest_asyncio" not in keys or bool(rest)), detail=f"{keys} requested grpc={grpc} rest={rest}",
                      group="import.registry:keys")
            gt = next((n for n in cls.body if isinstance(n, ast.FunctionDef) and n.name == "get_transport_class"), None)
            ok = gt is not None
            if ok:
                st = [s for s in gt.body if not (isinstance(s, ast.Expr) and isinstance(s.value, ast.Constant))]
                tail = [ast.unparse(s) for s in st[-2:]]
                ok = tail == ["if label:\n    return cls._transport_registry[label]", "return next(iter(cls._transport_registry.values()))"]
            run.table(f"{tag}:default-is-the-first-registered-transport", ok, group="import.registry:default")
        run.table(f"import.registry:{label}:cover", {(True, False), (False, True), (True, True)} <= seen, detail=str(sorted(seen)), group="import.registry:cover")


IMPLIES = {"method.client_streaming": "service.any_client_streaming", "method.server_streaming": "service.any_server_streaming"}


def _parents(tree):
    par = {}
    for n in tree.find_all(nodes.Node):
        for c in n.iter_child_nodes():
            par[id(c)] = n
    return par


def _lit(test, positive=True):
    """(path, polarity) literals that hold when `test` is true (positive) / false; attribute chains, `not`, and conjunctions only."""
    if isinstance(test, nodes.Not):
        return _lit(test.node, not positive)
    pth = J.expr_path(test)
    if pth:
        return [(pth, positive)]
    if isinstance(test, nodes.And) and positive:
        return _lit(test.left, True) + _lit(test.right, True)
    if isinstance(test, nodes.Or) and not positive:
        return _lit(test.left, False) + _lit(test.right, False)
    return []


def _conditions(node, par):
    """Attribute chains known to be true at a node: its branch's test plus the negations of the earlier tests of the same if/elif/else chain."""
    lits = []
    cur = node
    while id(cur) in par:
        p = par[id(cur)]
        if isinstance(p, nodes.If):
            tests = [p.test] + [e.test for e in p.elif_]
            bodies = [p.body] + [e.body for e in p.elif_] + [p.else_]
            k = next((i for i, b in enumerate(bodies) if any(cur is x for x in b)), None)
            if k is not None:
                for j in range(min(k, len(tests))):
                    lits += _lit(tests[j], False)
                if k < len(tests):
                    lits += _lit(tests[k], True)
            if isinstance(cur, nodes.If) and any(cur is e for e in p.elif_):
                i = next(i for i, e in enumerate(p.elif_) if e is cur)
                lits += _lit(p.test, False)
                for e in p.elif_[:i]:
                    lits += _lit(e.test, False)
        cur = p
    return [pth for pth, pol in lits if pol]


def typing_agreement(run: Run):
    env = J.make_env()
    for tname, use_templates in ((SD + "client.py.j2", [SD + "client.py.j2", SD + "_client_macros.j2"]),
                                 (SD + "async_client.py.j2", [SD + "async_client.py.j2"])):
        tree = J.parse(env, tname)
        line = next((n for n in tree.find_all(nodes.Output) if J.has_data(n, "from typing import")), None)
        run.table(f"import.typing:{tname.rsplit('/', 1)[1]}:import-line-present", line is not None, group="import.typing:present")
        if line is None:
            continue
        imported = {}
        # the import line spans sibling nodes: Output(text) If(...) If(...) Output(rest of the line)
        holder = next(h for h in tree.find_all((nodes.Block, nodes.Template, nodes.Macro, nodes.For, nodes.If)) if line in getattr(h, "body", []))
        sibs = holder.body[holder.body.index(line):]
        started = done = False
        for sib in sibs:
            if done:
                break
            if isinstance(sib, nodes.Output):
                for ch in sib.nodes:
                    if not isinstance(ch, nodes.TemplateData):
                        continue
                    txt = ch.data
                    if not started:
                        if "from typing import" not in txt:
                            continue
                        txt = txt[txt.index("from typing import") + len("from typing import"):]
                        started = True
                    for nm in re.findall(r"[A-Za-z_]\w*", txt.split("\n")[0]):
                        imported[nm] = None
                    if "\n" in txt:
                        done = True
                        break
            elif isinstance(sib, nodes.If) and started:
                cond = J.expr_path(sib.test)
                for td in sib.find_all(nodes.TemplateData):
                    for nm in re.findall(r"[A-Za-z_]\w*", td.data):
                        if nm[0].isupper():
                            imported.setdefault(nm, cond)
        cond_names = {k: v for k, v in imported.items() if v is not None}
        run.table(f"import.typing:{tname.rsplit('/', 1)[1]}:conditional-names-found", len(cond_names) >= 2, detail=str(cond_names), group="import.typing:present")
        for ut in use_templates:
            utree = J.parse(env, ut)
            par = _parents(utree)
            for td in utree.find_all(nodes.TemplateData):
                if "from typing import" in td.data:
                    continue
                for nm, cond in cond_names.items():
                    for mt in re.finditer(r"(?<![\w.])" + nm + r"\[", td.data):
                        # docstrings mention the names too; only annotation uses matter, but an unguarded mention is harmless, so every hit is checked
                        conds = _conditions(td, par)
                        ok = cond in conds or any(IMPLIES.get(c) == cond for c in conds)
                        run.results.append(Result(f"import.typing:{ut.rsplit('/', 1)[1]}@L{td.lineno}:{nm}", "discharged" if ok else "open", "jinja-ast", 0, "structural",
                                                  detail=f"use under {conds}; imported under {cond}", group=f"import.typing:{nm}-imported-wherever-used"))
    run.assume("a `method` rendered by the client templates ranges over service.methods.values(), so method.<flag> implies service.any_<flag> (contract of Service.any_*_streaming, proved)")


_C = {}


def _scen():
    if "f" not in _C:
        from vf.genlab import run_isolated
        _C["f"] = run_isolated("props.C01_native", "scenarios", timeout=1500)
    return _C["f"]


def witness_still_fails(k):
    return any(x.get("known") == k["witness"] for x in _scen()["failures"])


def subpackages(run: Run):
    """Proto sub-packages: the unversioned package's __init__ iterates api.subpackages|dictsort as if it yielded names, and types/__init__ lists
    every proto regardless of the sub-package view."""
    env = J.make_env()
    tree = J.parse(env, "%namespace/%name/__init__.py.j2")
    bad = [f for f in tree.find_all(nodes.For) if isinstance(f.iter, nodes.Filter) and f.iter.name == "dictsort" and J.expr_path(f.iter.node) == "api.subpackages"
           and isinstance(f.target, nodes.Name)]
    t2 = J.parse(env, "%namespace/%name_%version/%sub/types/__init__.py.j2")
    filt = any("subpackage" in (J.expr_path(getattr(n, "left", None)) or "") or "subpackage_view" in str(n) for n in t2.find_all(nodes.Compare))
    run.results.append(Result("import.subpackages:unversioned-__init__-unpacks-dictsort-pairs", "open" if bad else "discharged", "jinja-ast", 0, "structural",
                              detail="`for subpackage in api.subpackages|dictsort` binds a (name, API) pair and renders it into an import statement", group="import.subpackages:render"))
    run.results.append(Result("import.subpackages:types-__init__-restricted-to-the-sub-package-view", "discharged" if filt else "open", "jinja-ast", 0, "structural",
                              detail="types/__init__.py.j2 imports every proto of api.protos; the modules of a sub-package live under <sub>/types/", group="import.subpackages:render"))


def flattened_parameter_names(run: Run):
    """The client method's keyword parameters are the *leaf* names of the flattened fields (field.name), keyed in flattened_fields by their
    dotted paths: two paths with the same leaf give a duplicate parameter, which Python rejects at compile time."""
    env = J.make_env()
    src = J.template_source(env, SD + "_client_macros.j2")
    leaf = "{% for field in method.flattened_fields.values() %}" in src and "{{ field.name }}: Optional[{{ field.ident }}] = None," in src
    f2, h2 = find_def(W, "Method._fields_mapping")
    s2 = ast.unparse(f2)
    dedup = "name" in s2 and ("seen" in s2 or "duplicate" in s2.lower())
    run.results.append(Result("import.params:flattened-parameter-names-are-distinct", "open" if (leaf and not dedup) else "discharged", "jinja-ast", 0, "structural",
                              detail="parameters are named by field.name (the leaf) while Method._fields_mapping keys by the dotted signature entry and does not reject equal leaves",
                              group="import.params:distinct-names"))


def types_init_parses(run: Run):
    """Every variant of types/__init__.py.j2 (<= 2 target files, <= 2 messages / enums each) is valid Python: an import statement is emitted for
    a file only when it has something to import.  Also: Proto.names collects the names of *all* messages of the file, nested ones included
    (they become the collision set that decides module aliases)."""
    env = J.make_env()
    tname = "%namespace/%name_%version/%sub/types/__init__.py.j2"
    tree = J.parse(env, tname)
    blk = next(iter(tree.find_all(nodes.Block)), None)
    run.table("import.types_init:block-present", blk is not None, group="import.types_init:present")
    if blk is None:
        return

    def consistent(d):
        # a mapping is truthy iff it has items (also when viewed through |dictsort); api.protos only holds files to generate
        lens = {k[1][:-len("|dictsort")]: v for k, v in d.items() if k[0] == "len" and k[1].endswith("|dictsort")}
        for k, v in d.items():
            if k[0] == "bool" and k[1] in lens and bool(v) != (lens[k[1]] > 0):
                return False
            if k[0] == "bool" and k[1].endswith(".file_to_generate") and not v:
                return False
        return J.container_consistent(d)
    vs = J.render_nodes(env, tree, blk.body, ["api"], maxlen=2, prune=consistent)
    run.fragments.append(frag_info(tname, "whole module", vs))
    bad = []
    for vi, var in enumerate(vs):
        if var.error:
            bad.append((vi, var.error))
            continue
        try:
            compile(var.text, "<types/__init__>", "exec")
        except SyntaxError as e:
            bad.append((vi, f"{e}: {var.text[:160]!r} decisions={var.decisions}"))
    run.table("import.types_init:every-variant-compiles", not bad and len(vs) > 20, detail=f"{len(vs)} variants; " + "; ".join(str(b) for b in bad[:2])[:600],
              group="import.types_init:compiles")
    f2, h2 = find_def(A, "Proto.names")
    s2 = ast.unparse(f2)
    run.functions.append({"qualname": "Proto.names", "source": A, "sha256_16": h2, "obligations": "AST pattern"})
    run.table("import.names:collision-set-covers-every-message-of-the-file-nested-included",
              "for message in self.all_messages.values():\n        answer.update((f.name for f in message.fields.values()))\n        answer.add(message.name)" in s2 and
              "{e.name for e in self.all_enums.values()}" in s2, detail=s2[:400], group="import.names:collision-set")


def declared_dependencies(run: Run):
    """API.requires_package (setup.py / constraints declare a distribution iff the API needs it): true for every package that a message of ANY proto
    known to the API - target files and their imports - lives in; the only other reason is the IAM mixin."""
    from vf.schema import SchemaModel
    from vf.pyvc import Contract
    m = SchemaModel()
    m.add_class("Proto", {"all_messages": "Map[Str,MessageType]"})
    m.classes["API"].update({"all_protos": "Map[Str,Proto]", "has_iam_mixin": "Bool"})
    c = Contract("API.requires_package", source=("gapic/schema/api.py", "API.requires_package"), params={"self": "API", "pkg": "Seq[Str]"}, result="Bool",
                 ensures=["forall(lambda p: forall(lambda msg: implies(msg.ident.package == pkg, result), p.all_messages.values()), self.all_protos.values())",
                          "implies(result and not self.has_iam_mixin, exists(lambda p: exists(lambda msg: msg.ident.package == pkg, p.all_messages.values()), "
                          "self.all_protos.values()))"])
    m.add_contract(c)
    run.verify(m, c)
    run.assume(*m.assumptions)


def run(run: Run):
    run.witness_check = witness_still_fails
    declared_dependencies(run)
    types_init_parses(run)
    flattened_parameter_names(run)
    stage1(run)
    registry(run)
    typing_agreement(run)
    subpackages(run)
    run.native_standin("props.C01_native", "scenarios",
                       "one API (nested types, maps, oneofs, proto3 optional, recursion, cross-file and dependency-package references incl. a file named like its "
                       "dependency, two services, unary / paged / LRO / void / server / bidi / client-only streaming, resources, http rules) x 9 option sets "
                       "(transport grpc / rest / grpc+rest, numeric enums, metadata, snippets off, name / namespace / warehouse overrides, service yaml with mixins, "
                       "alternative template set, proto sub-package): compile, undefined-name scan, import of every sub-module, client / registry exposure, JSON artefacts")
    run.not_decided += ["`every emitted .py parses / the package imports` for all descriptor sets: a joint property of ~100 templates and the schema model; only the clauses above "
                        "are carried by contracts, the rest is the bounded native stand-in",
                        "collision binding (with_context family) is not under contract"]


def falsify(run, group, info):
    fails = [x for x in _scen()["failures"] if not x.get("known")]
    return ({"kind": "import", "failures": fails[:6]}, True) if fails else (None, False)


def replay(path):
    import json
    fails = [x for x in _scen()["failures"] if not x.get("known")]
    print("generate-and-import ->", json.dumps(fails[:4])[:1500] if fails else f"conform ({_scen()['cases']} checks; known findings aside)")
    return 1 if fails else 0
