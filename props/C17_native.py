"""C17 replay: service YAMLs with mixin APIs -> generated library -> exposed methods, gRPC paths, types, routing headers.  Bounded."""
import asyncio, itertools


def files(with_iam_named_rpc=None):
    from vf import genlab as G
    fd = G.new_file("acme/lab/v1/lab.proto", "acme.lab.v1")
    G.add_message(fd, "Req", [G.F("name", 1, G.T.TYPE_STRING)])
    G.add_message(fd, "Resp", [G.F("x", 1, G.T.TYPE_STRING)])
    svc = G.add_service(fd, "Lab")
    G.add_method(svc, "Fetch", ".acme.lab.v1.Req", ".acme.lab.v1.Resp", http=("get", "/v1/{name=a/*}"))
    if with_iam_named_rpc:
        G.add_method(svc, with_iam_named_rpc, ".acme.lab.v1.Req", ".acme.lab.v1.Resp", http=("post", "/v1/{name=a/*}:iam"), body="*")
    return [fd]


SERVICES = {"google.longrunning.Operations": ["ListOperations", "GetOperation", "DeleteOperation", "CancelOperation", "WaitOperation"],
            "google.iam.v1.IAMPolicy": ["SetIamPolicy", "GetIamPolicy", "TestIamPermissions"],
            "google.cloud.location.Locations": ["ListLocations", "GetLocation"]}


def yaml_for(apis, rules):
    verbs = {"List": "get", "Get": "get", "Delete": "delete"}
    out = []
    for sel in rules:
        m = sel.rsplit(".", 1)[1]
        verb = next((v for k, v in verbs.items() if m.startswith(k) and m != "GetIamPolicy"), "post")
        field = "resource" if "Iam" in m else "name"
        r = {"selector": sel, verb: "/v1/{%s=things/*}:%s" % (field, m[0].lower() + m[1:])}
        if verb == "post":
            r["body"] = "*"
        out.append(r)
    return {"type": "google.api.Service", "config_version": 3, "name": "lab.example.com", "apis": [{"name": a} for a in apis], "http": {"rules": out}}


def snake(n):
    import re
    return re.sub(r"(?<!^)(?=[A-Z])", "_", n).lower()


def one(apis, rules, iam_rpc=None, opts="", drive=False):
    """Returns (expected exposed set, failures) for one configuration, in this process (library imported once -> call in a subprocess)."""
    from vf import genlab as G
    from google.auth.credentials import AnonymousCredentials
    from google.longrunning import operations_pb2
    from google.iam.v1 import iam_policy_pb2, policy_pb2
    from google.cloud.location import locations_pb2
    from google.protobuf import empty_pb2
    failures = []
    api, res = G.generate(files(iam_rpc), "autogen-snippets=false" + ("," + opts if opts else ""), service_yaml=yaml_for(apis, rules),
                          extra_dep_modules=(iam_policy_pb2, locations_pb2))
    want = set()
    for s, ms in SERVICES.items():
        if s in apis:
            conf = [m for m in ms if f"{s}.{m}" in rules]
            if s.endswith("IAMPolicy") and iam_rpc in conf:
                conf = []
            want |= set(conf)
    with G.materialised(res):
        from acme import lab_v1
        from acme.lab_v1.services.lab.transports import LabGrpcTransport, LabGrpcAsyncIOTransport
        allm = [m for ms in SERVICES.values() for m in ms]
        for cls in (lab_v1.LabClient, lab_v1.LabAsyncClient):
            got = {m for m in allm if hasattr(cls, snake(m)) and m != iam_rpc}
            if got != {m for m in want}:
                failures.append({"apis": apis, "rules": [r.rsplit(".", 1)[1] for r in rules], "iam_rpc": iam_rpc, "client": cls.__name__, "exposed": sorted(got), "expected": sorted(want)})
        if drive and not failures:
            seen = []
            replies = {"Operation": operations_pb2.Operation(name="op", done=True), "ListOperationsResponse": operations_pb2.ListOperationsResponse(next_page_token="t"),
                       "Policy": policy_pb2.Policy(version=3), "TestIamPermissionsResponse": iam_policy_pb2.TestIamPermissionsResponse(permissions=["p"]),
                       "Location": locations_pb2.Location(name="loc"), "ListLocationsResponse": locations_pb2.ListLocationsResponse(next_page_token="n"),
                       "Empty": empty_pb2.Empty()}

            def handler(kind, path, raw, md, deser, timeout):
                seen.append((path, raw, [v for k, v in md if k == "x-goog-request-params"]))
                svc_name, m = path.strip("/").split("/")
                import importlib
                mod = {"google.longrunning.Operations": operations_pb2, "google.iam.v1.IAMPolicy": iam_policy_pb2, "google.cloud.location.Locations": locations_pb2}[svc_name]
                out = mod.DESCRIPTOR.services_by_name[svc_name.rsplit(".", 1)[1]].methods_by_name[m].output_type.name
                r = replies[out]
                return deser(r.SerializeToString()) if deser else r.SerializeToString()
            client = lab_v1.LabClient(transport=LabGrpcTransport(channel=G.fake_channel(handler), credentials=AnonymousCredentials()))
            aclient = lab_v1.LabAsyncClient(transport=LabGrpcAsyncIOTransport(channel=G.fake_aio_channel(handler), credentials=AnonymousCredentials()))
            for s, ms in SERVICES.items():
                for m in ms:
                    if m not in want:
                        continue
                    mod = {"google.longrunning.Operations": operations_pb2, "google.iam.v1.IAMPolicy": iam_policy_pb2, "google.cloud.location.Locations": locations_pb2}[s]
                    md = mod.DESCRIPTOR.services_by_name[s.rsplit(".", 1)[1]].methods_by_name[m]
                    field = md.input_type.fields[0].name
                    for which, cl in (("sync", client), ("async", aclient)):
                        seen.clear()
                        try:
                            r = getattr(cl, snake(m))(request={field: "things/1"})
                            if which == "async":
                                r = asyncio.run(_aw(r))
                        except Exception as e:      # noqa
                            failures.append({"method": m, "client": which, "error": repr(e)[:200]})
                            continue
                        import urllib.parse
                        hdr = [dict(urllib.parse.parse_qsl(h)) for h in seen[0][2]] if seen else None
                        if not seen or seen[0][0] != f"/{s}/{m}" or hdr != [{field: "things/1"}]:
                            failures.append({"method": m, "client": which, "wire": seen[:1]})
                        exp = replies[md.output_type.name]
                        if md.output_type.name == "Empty":
                            if r is not None:
                                failures.append({"method": m, "client": which, "returned": repr(r)[:80], "expected": None})
                        elif r != exp:
                            failures.append({"method": m, "client": which, "returned": repr(r)[:80], "expected": repr(exp)[:80]})
    return failures


async def _aw(x):
    return await x


CONFIGS = [
    (["google.longrunning.Operations", "google.iam.v1.IAMPolicy", "google.cloud.location.Locations"],
     [f"{s}.{m}" for s, ms in SERVICES.items() for m in ms], None, "", True),
    ([], [f"{s}.{m}" for s, ms in SERVICES.items() for m in ms], None, "", False),
    (["google.longrunning.Operations"], ["google.longrunning.Operations.GetOperation", "google.iam.v1.IAMPolicy.SetIamPolicy"], None, "", True),
    (["google.iam.v1.IAMPolicy"], ["google.iam.v1.IAMPolicy.SetIamPolicy", "google.iam.v1.IAMPolicy.GetIamPolicy"], "TestIamPermissions", "", True),
    (["google.iam.v1.IAMPolicy"], ["google.iam.v1.IAMPolicy.SetIamPolicy", "google.iam.v1.IAMPolicy.GetIamPolicy"], "SetIamPolicy", "", False),
    (["google.cloud.location.Locations", "google.iam.v1.IAMPolicy"], ["google.cloud.location.Locations.ListLocations", "google.iam.v1.IAMPolicy.TestIamPermissions"], None, "", True),
]


# the API defines GetIamPolicy itself (the IAM mixins yield) while the Operations and Locations mixins are configured too: those stay
CONFIGS.append((["google.longrunning.Operations", "google.iam.v1.IAMPolicy", "google.cloud.location.Locations"],
                ["google.iam.v1.IAMPolicy.GetIamPolicy", "google.longrunning.Operations.GetOperation", "google.longrunning.Operations.CancelOperation",
                 "google.cloud.location.Locations.GetLocation"], "GetIamPolicy", "", False))
# rules for services that merely share the short name of a mixin service select nothing
CONFIGS.append((["google.longrunning.Operations", "google.iam.v1.IAMPolicy"],
                ["google.longrunning.Operations.CancelOperation", "acme.other.v1.Operations.GetOperation", "other.iam.v9.IAMPolicy.SetIamPolicy"], None, "", False))
# every single-rule and every all-but-one-rule subset of each mixin service (exposure on both clients only): a block of one RPC guarded by the
# switch of another shows up exactly in these
for _s, _ms in SERVICES.items():
    for _m in _ms:
        CONFIGS.append(([_s], [f"{_s}.{_m}"], None, "", False))
        if len(_ms) > 2:
            CONFIGS.append(([_s], [f"{_s}.{_x}" for _x in _ms if _x != _m], None, "", False))


def run_config(i):
    apis, rules, iam_rpc, opts, drive = CONFIGS[i]
    return one(apis, rules, iam_rpc, opts, drive)


def scenarios():
    import subprocess, sys, json, os
    failures = []
    from concurrent.futures import ThreadPoolExecutor

    def _one(i):
        code = "import json\nfrom props.C17_native import run_config\nprint('@@'+json.dumps(run_config(%d), default=str))" % i
        return i, subprocess.run([sys.executable, "-c", code], capture_output=True, text=True, env=dict(os.environ))
    with ThreadPoolExecutor(max_workers=8) as tp:
        outs = list(tp.map(_one, range(len(CONFIGS))))
    for i, p in outs:
        if "@@" not in p.stdout:
            failures.append({"config": i, "error": p.stderr[-500:]})
        else:
            failures += [dict(f, config=i) for f in json.loads(p.stdout.rsplit("@@", 1)[1])]
    # legacy add-iam-methods (together with the IAM mixin configured: both switches on)
    code = ("import json\nfrom props.C17_native import legacy\nprint('@@'+json.dumps(legacy(), default=str))")
    p = subprocess.run([sys.executable, "-c", code], capture_output=True, text=True, env=dict(os.environ))
    failures += json.loads(p.stdout.rsplit("@@", 1)[1]) if "@@" in p.stdout else [{"config": "legacy", "error": p.stderr[-500:]}]
    for fn_ in ("legacy_calls", "rest_mixin_bindings", "rest_mixin_calls"):
        code = ("import json\nfrom props.C17_native import %s as f\nprint('@@'+json.dumps(f(), default=str))" % fn_)
        p = subprocess.run([sys.executable, "-c", code], capture_output=True, text=True, env=dict(os.environ))
        failures += json.loads(p.stdout.rsplit("@@", 1)[1]) if "@@" in p.stdout else [{"config": fn_, "error": p.stderr[-500:]}]
    return {"cases": len(CONFIGS) + 3, "failures": failures}


def legacy_calls():
    """add-iam-methods without the IAM mixin in the YAML: the three RPCs must be *callable* on the sync and the asyncio client."""
    from vf import genlab as G
    from google.auth.credentials import AnonymousCredentials
    from google.iam.v1 import iam_policy_pb2, policy_pb2
    from google.cloud.location import locations_pb2
    failures = []
    api, res = G.generate(files(), "autogen-snippets=false,add-iam-methods", service_yaml=yaml_for([], []), extra_dep_modules=(iam_policy_pb2, locations_pb2))
    with G.materialised(res):
        from acme import lab_v1
        from acme.lab_v1.services.lab.transports import LabGrpcTransport, LabGrpcAsyncIOTransport
        seen = []
        replies = {"SetIamPolicy": policy_pb2.Policy(version=3), "GetIamPolicy": policy_pb2.Policy(version=3),
                   "TestIamPermissions": iam_policy_pb2.TestIamPermissionsResponse(permissions=["p"])}

        def handler(kind, path, raw, md, deser, timeout):
            seen.append(path)
            r = replies[path.rsplit("/", 1)[1]]
            return deser(r.SerializeToString()) if deser else r
        client = lab_v1.LabClient(transport=LabGrpcTransport(channel=G.fake_channel(handler), credentials=AnonymousCredentials()))
        aclient = lab_v1.LabAsyncClient(transport=LabGrpcAsyncIOTransport(channel=G.fake_aio_channel(handler), credentials=AnonymousCredentials()))
        for m in ("SetIamPolicy", "GetIamPolicy", "TestIamPermissions"):
            for which, cl in (("sync", client), ("async", aclient)):
                seen.clear()
                try:
                    r = getattr(cl, snake(m))(request={"resource": "things/1"})
                    if which == "async":
                        r = asyncio.run(_aw(r))
                    if seen != [f"/google.iam.v1.IAMPolicy/{m}"] or r != replies[m]:
                        failures.append({"option": "add-iam-methods", "method": m, "client": which, "wire": list(seen), "returned": repr(r)[:80]})
                except Exception as e:      # noqa
                    f_ = {"option": "add-iam-methods", "method": m, "client": which, "what": "the legacy IAM method cannot be called", "error": repr(e)[:200]}
                    if which == "async" and isinstance(e, KeyError):
                        f_["known"] = "async-legacy-iam-not-wrapped"
                    failures.append(f_)
    return failures


def rest_mixin_calls():
    """Mixin rpcs called over REST: verb and path of the rule, and a JSON body exactly when the rule has one."""
    import importlib, json as _json
    from vf import genlab as G
    from google.auth.credentials import AnonymousCredentials
    from google.iam.v1 import iam_policy_pb2, policy_pb2
    from google.cloud.location import locations_pb2
    from google.longrunning import operations_pb2
    failures = []
    rules = ["google.iam.v1.IAMPolicy.SetIamPolicy", "google.iam.v1.IAMPolicy.TestIamPermissions", "google.longrunning.Operations.CancelOperation",
             "google.longrunning.Operations.GetOperation", "google.cloud.location.Locations.GetLocation"]
    y = yaml_for(list(SERVICES), rules)
    api, res = G.generate(files(), "autogen-snippets=false,transport=grpc+rest", service_yaml=y, extra_dep_modules=(iam_policy_pb2, locations_pb2))
    with G.materialised(res):
        lab_v1 = importlib.import_module("acme.lab_v1")
        tr_mod = importlib.import_module("acme.lab_v1.services.lab.transports.rest")
        calls = []

        class Reply:
            status_code = 200
            content = b"{}"
            headers = {}
            request = None

        class Session:
            def _do(self, verb, url, data=None, **kw):
                calls.append((verb, url, data))
                return Reply()

            def close(self):
                pass
        for v in ("get", "post", "put", "patch", "delete"):
            setattr(Session, v, (lambda vv: lambda self, url, **kw: self._do(vv, url, **kw))(v))
        tr_mod.AuthorizedSession = lambda *a, **k: Session()
        client = lab_v1.LabClient(transport=tr_mod.LabRestTransport(credentials=AnonymousCredentials()))
        reqs = {"SetIamPolicy": iam_policy_pb2.SetIamPolicyRequest(resource="things/1", policy=policy_pb2.Policy(version=3)),
                "TestIamPermissions": iam_policy_pb2.TestIamPermissionsRequest(resource="things/1", permissions=["p"]),
                "CancelOperation": operations_pb2.CancelOperationRequest(name="things/1"), "GetOperation": operations_pb2.GetOperationRequest(name="things/1"),
                "GetLocation": locations_pb2.GetLocationRequest(name="things/1")}
        for rule in y["http"]["rules"]:
            m = rule["selector"].rsplit(".", 1)[1]
            verb = next(v for v in ("get", "post", "delete") if v in rule)
            del calls[:]
            try:
                getattr(client, snake(m))(request=reqs[m])
            except Exception as e:      # noqa
                failures.append({"mixin": m, "transport": "rest", "what": "the call raised", "error": repr(e)[:200]})
                continue
            if len(calls) != 1 or calls[0][0] != verb or not calls[0][1].endswith(rule[verb].replace("{name=things/*}", "things/1").replace("{resource=things/*}", "things/1")):
                failures.append({"mixin": m, "transport": "rest", "what": "verb / path", "got": calls[:1], "rule": rule})
                continue
            body = calls[0][2]
            has_body = body not in (None, "", b"")
            if has_body != bool(rule.get("body")):
                failures.append({"mixin": m, "transport": "rest", "what": "a JSON body is sent exactly when the rule has a body", "rule_body": rule.get("body"), "sent": repr(body)[:100]})
            elif has_body and m == "SetIamPolicy" and _json.loads(body).get("policy", {}).get("version") != 3:
                failures.append({"mixin": m, "transport": "rest", "what": "body content", "sent": repr(body)[:200]})
    return failures


def rest_mixin_bindings():
    """Over REST a mixin method carries every binding of its YAML rule (primary and additional), in order."""
    import importlib
    from vf import genlab as G
    from google.iam.v1 import iam_policy_pb2
    from google.cloud.location import locations_pb2
    failures = []
    y = yaml_for(["google.cloud.location.Locations", "google.iam.v1.IAMPolicy"], ["google.cloud.location.Locations.GetLocation", "google.iam.v1.IAMPolicy.SetIamPolicy"])
    for r in y["http"]["rules"]:
        if r["selector"].endswith("GetLocation"):
            r["additional_bindings"] = [{"get": "/v1/{name=organizations/*/locations/*}"}, {"get": "/v1/{name=folders/*/locations/*}"}]
        if r["selector"].endswith("SetIamPolicy"):
            r["additional_bindings"] = [{"post": "/v1/{resource=boxes/*}:setIamPolicy", "body": "*"}]
    api, res = G.generate(files(), "autogen-snippets=false,transport=grpc+rest", service_yaml=y, extra_dep_modules=(iam_policy_pb2, locations_pb2))
    with G.materialised(res):
        tr = importlib.import_module("acme.lab_v1.services.lab.transports.rest_base")
        base = tr._BaseLabRestTransport
        for rule in y["http"]["rules"]:
            m = rule["selector"].rsplit(".", 1)[1]
            want = []
            for b in [rule] + rule.get("additional_bindings", []):
                verb = next(v for v in ("get", "post", "put", "delete", "patch") if v in b)
                e = {"method": verb, "uri": b[verb]}
                if b.get("body"):
                    e["body"] = b["body"]
                want.append(e)
            got = getattr(base, "_Base" + m)._get_http_options()
            if got != want:
                failures.append({"mixin": m, "what": "REST bindings of the mixin differ from the YAML rule", "got": got, "want": want})
    return failures


def legacy():
    from vf import genlab as G
    from google.iam.v1 import iam_policy_pb2
    from google.cloud.location import locations_pb2
    failures = []
    for apis in ([], ["google.iam.v1.IAMPolicy"]):
        rules = [f"google.iam.v1.IAMPolicy.{m}" for m in SERVICES["google.iam.v1.IAMPolicy"]] if apis else []
        api, res = G.generate(files(), "autogen-snippets=false,add-iam-methods", service_yaml=yaml_for(apis, rules), extra_dep_modules=(iam_policy_pb2, locations_pb2))
        srcs = {f.name: f.content for f in res.file}
        for fname in ("acme/lab_v1/services/lab/client.py", "acme/lab_v1/services/lab/async_client.py"):
            for m in ("set_iam_policy", "get_iam_policy", "test_iam_permissions"):
                if f"def {m}(" not in srcs[fname]:
                    failures.append({"option": "add-iam-methods", "apis": apis, "file": fname, "missing": m})
    return failures
