"""C04 replay: the generated REST transport against a recording session; the request is re-assembled from verb + path + query + body using
the *input* http annotations and descriptors only (nothing of the generator's schema layer), and compared with what was sent.  Bounded."""
import json, random, re, urllib.parse

PKG = "acme.lab.v1"


def files():
    from vf import genlab as G
    T = G.T
    P = "." + PKG
    fd = G.new_file("acme/lab/v1/lab.proto", PKG)
    col = fd.enum_type.add(name="Color")
    for n, v in (("COLOR_UNSPECIFIED", 0), ("RED", 1), ("BLUE", 2)):
        col.value.add(name=n, number=v)
    G.add_message(fd, "Inner", [G.F("id", 1, T.TYPE_STRING), G.F("level", 2, T.TYPE_INT32), G.F("shade", 3, T.TYPE_ENUM, type_name=P + ".Color")])
    G.add_message(fd, "Thing", [G.F("name", 1, T.TYPE_STRING), G.F("title", 2, T.TYPE_STRING), G.F("count", 3, T.TYPE_INT32),
                                G.F("color", 4, T.TYPE_ENUM, type_name=P + ".Color"), G.F("inner", 5, T.TYPE_MESSAGE, type_name=P + ".Inner"),
                                G.F("tags", 6, T.TYPE_STRING, label=G.REPEATED), G.F("ratio", 7, T.TYPE_DOUBLE), G.F("flag", 8, T.TYPE_BOOL),
                                G.F("big", 9, T.TYPE_INT64), G.F("display_name", 10, T.TYPE_STRING),
                                G.F("colors", 11, T.TYPE_ENUM, label=G.REPEATED, type_name=P + ".Color")])
    R = dict(required=True)
    G.add_message(fd, "GetThingRequest", [G.F("name", 1, T.TYPE_STRING, **R), G.F("view", 2, T.TYPE_STRING), G.F("page_size", 3, T.TYPE_INT32, **R),
                                          G.F("color", 4, T.TYPE_ENUM, type_name=P + ".Color", **R), G.F("flag", 5, T.TYPE_BOOL, **R),
                                          G.F("ratio", 6, T.TYPE_DOUBLE, **R), G.F("big", 7, T.TYPE_INT64, **R), G.F("etag_value", 8, T.TYPE_STRING, **R),
                                          G.F("tags", 9, T.TYPE_STRING, label=G.REPEATED), G.F("filter", 10, T.TYPE_MESSAGE, type_name=P + ".Inner"),
                                          G.F("u32", 11, T.TYPE_UINT32, **R), G.F("f32", 12, T.TYPE_FLOAT, **R), G.F("u64", 13, T.TYPE_UINT64, **R),
                                          G.F("raw", 14, T.TYPE_BYTES, **R)])
    G.add_message(fd, "UpdateThingRequest", [G.F("thing", 1, T.TYPE_MESSAGE, type_name=P + ".Thing", **R), G.F("update_mask", 2, T.TYPE_STRING, **R),
                                             G.F("validate_only", 3, T.TYPE_BOOL), G.F("mode", 4, T.TYPE_ENUM, type_name=P + ".Color")])
    G.add_message(fd, "CreateThingRequest", [G.F("parent", 1, T.TYPE_STRING, **R), G.F("thing", 2, T.TYPE_MESSAGE, type_name=P + ".Thing"),
                                             G.F("thing_id", 3, T.TYPE_STRING, **R), G.F("color", 4, T.TYPE_ENUM, type_name=P + ".Color")])
    G.add_message(fd, "DeleteThingRequest", [G.F("name", 1, T.TYPE_STRING), G.F("force", 2, T.TYPE_BOOL), G.F("reason_code", 3, T.TYPE_INT32)])
    G.add_message(fd, "SearchRequest", [G.F("query", 1, T.TYPE_STRING), G.F("opts", 2, T.TYPE_MESSAGE, type_name=P + ".Inner"),
                                        G.F("ids", 3, T.TYPE_INT32, label=G.REPEATED), G.F("c", 4, T.TYPE_ENUM, type_name=P + ".Color"),
                                        G.F("cs", 5, T.TYPE_ENUM, label=G.REPEATED, type_name=P + ".Color"), G.F("page_token", 6, T.TYPE_STRING)])
    G.add_message(fd, "WordsRequest", [G.F("name", 1, T.TYPE_STRING), G.F("type", 2, T.TYPE_STRING, **R), G.F("max", 3, T.TYPE_INT32, **R),
                                       G.F("format", 4, T.TYPE_STRING), G.F("class", 5, T.TYPE_STRING)])
    svc = G.add_service(fd, "Lab")
    m = lambda *a, **k: G.add_method(svc, *a, **k)
    m("GetThing", P + ".GetThingRequest", P + ".Thing", http=("get", "/v1/{name=things/*}"))
    u = m("UpdateThing", P + ".UpdateThingRequest", P + ".Thing", http=("patch", "/v1/{thing.name=things/*}"), body="thing")
    from google.api import annotations_pb2
    ab = u.options.Extensions[annotations_pb2.http].additional_bindings.add()
    ab.patch = "/v1/{thing.name=shelves/*/things/*}"
    ab.body = "thing"
    m("CreateThing", P + ".CreateThingRequest", P + ".Thing", http=("post", "/v1/{parent=shelves/*}/things"), body="*")
    m("DeleteThing", P + ".DeleteThingRequest", P + ".Thing", http=("delete", "/v1/{name=things/*}"))
    m("PutThing", P + ".UpdateThingRequest", P + ".Thing", http=("put", "/v1/{thing.name=things/*}:put"), body="thing")
    s = m("Search", P + ".SearchRequest", P + ".Thing", http=("get", "/v1/things:search"))
    ab = s.options.Extensions[annotations_pb2.http].additional_bindings.add()
    ab.post = "/v1/things:search"
    ab.body = "*"
    m("Simple", P + ".DeleteThingRequest", P + ".Thing", http=("get", "/v1/simple/{name}"))
    m("Tail", P + ".DeleteThingRequest", P + ".Thing", http=("get", "/v1/{name=things/**}:tail"))
    m("Words", P + ".WordsRequest", P + ".Thing", http=("get", "/v1/{name=words/*}"))
    m("TwoVars", P + ".CreateThingRequest", P + ".Thing", http=("post", "/v1/{parent=shelves/*}/things/{thing_id}"), body="thing")
    # reserved words as path variable and as body field (the generator rewrites both to the python attribute names)
    G.add_message(fd, "KindRequest", [G.F("type", 1, T.TYPE_STRING), G.F("format", 2, T.TYPE_MESSAGE, type_name=P + ".Inner"), G.F("note", 3, T.TYPE_STRING)])
    m("ByKind", P + ".KindRequest", P + ".Thing", http=("post", "/v1/{type=kinds/*}/things"), body="format")
    # ... and one whose template contains the variable's own (reserved) name as a substring
    m("ByType", P + ".KindRequest", P + ".Thing", http=("get", "/v1/{type=types/*/subtypes/*}/things"))
    # a nested path variable whose PARENT segment is a reserved word (`format` is the message-typed field of KindRequest)
    m("ByFormat", P + ".KindRequest", P + ".Thing", http=("get", "/v1/{format.id=formats/*}/things"))
    # a REQUIRED reserved-word field as the path variable
    G.add_message(fd, "ReqKindRequest", [G.F("type", 1, T.TYPE_STRING, **R), G.F("note", 2, T.TYPE_STRING)])
    m("ByReqType", P + ".ReqKindRequest", P + ".Thing", http=("get", "/v1/{type=rtypes/*}"))
    # DELETE bindings with a body (field / *)
    G.add_message(fd, "PurgeRequest", [G.F("name", 1, T.TYPE_STRING), G.F("criteria", 2, T.TYPE_MESSAGE, type_name=P + ".Inner"), G.F("dry_run", 3, T.TYPE_BOOL)])
    m("PurgeThing", P + ".PurgeRequest", P + ".Thing", http=("delete", "/v1/{name=things/*}:purge"), body="criteria")
    m("WipeThings", P + ".PurgeRequest", P + ".Thing", http=("delete", "/v1/{name=things/*}:wipe"), body="*")
    # a required scalar that is a path variable of an additional binding only
    G.add_message(fd, "ListInRequest", [G.F("parent", 1, T.TYPE_STRING, **R), G.F("zone", 2, T.TYPE_STRING, **R), G.F("rack", 3, T.TYPE_INT32, **R),
                                        G.F("recursive", 4, T.TYPE_BOOL)])
    li = m("ListIn", P + ".ListInRequest", P + ".Thing", http=("get", "/v1/{parent=shelves/*}/things"))
    ab = li.options.Extensions[annotations_pb2.http].additional_bindings.add()
    ab.get = "/v1/{parent=buildings/*}/zones/{zone}/racks/{rack}/things"
    m("NoHttp", P + ".DeleteThingRequest", P + ".Thing")
    return [fd]


# --------------------------------------------------------------------------------------- independent reading of the input annotations
def bindings_of(method_pb):
    from google.api import annotations_pb2
    if not method_pb.options.HasExtension(annotations_pb2.http):
        return []
    out = []
    http = method_pb.options.Extensions[annotations_pb2.http]
    for rule in [http] + list(http.additional_bindings):
        for verb in ("get", "put", "post", "delete", "patch"):
            if getattr(rule, verb):
                out.append((verb, getattr(rule, verb), rule.body))
    return out


def uri_regex(uri):
    """google.api.http path template -> regex with one named group per variable (group names v0, v1...; returns the field paths)."""
    out, vars_, pos = "", [], 0
    for mt in re.finditer(r"\{([^}=]+)(?:=([^}]+))?\}", uri):
        out += re.escape(uri[pos:mt.start()])
        pat = mt.group(2) or "*"
        rx = "/".join("(?:.+)" if seg == "**" else ("[^/]+" if seg == "*" else re.escape(seg)) for seg in pat.split("/"))
        out += f"(?P<v{len(vars_)}>{rx})"
        vars_.append(mt.group(1))
        pos = mt.end()
    out += re.escape(uri[pos:])
    return re.compile("^" + out + "$"), vars_


def set_path(msg, dotted, value_str):
    from google.protobuf.descriptor import FieldDescriptor as FD
    parts = dotted.split(".")
    cur = msg
    for p in parts[:-1]:
        cur = getattr(cur, _field(cur, p).name)
    f = _field(cur, parts[-1])
    v = convert(f, value_str)
    if f.label == FD.LABEL_REPEATED:
        getattr(cur, f.name).append(v)
    else:
        setattr(cur, f.name, v)


def _field(msg, json_or_name):
    d = msg.DESCRIPTOR
    for f in d.fields:
        if f.name == json_or_name or f.json_name == json_or_name:
            return f
    raise KeyError(f"{d.full_name} has no field {json_or_name!r}")


def convert(f, s):
    from google.protobuf.descriptor import FieldDescriptor as FD
    import base64
    t = f.type
    if t in (FD.TYPE_STRING,):
        return s
    if t == FD.TYPE_BOOL:
        if s not in ("true", "false"):
            raise ValueError(f"bool query value {s!r}")
        return s == "true"
    if t in (FD.TYPE_DOUBLE, FD.TYPE_FLOAT):
        return float(s)
    if t == FD.TYPE_ENUM:
        return int(s) if re.fullmatch(r"-?\d+", s) else f.enum_type.values_by_name[s].number
    if t == FD.TYPE_BYTES:
        return base64.b64decode(s)
    return int(s)


class Resp:
    def __init__(self, content):
        self.status_code, self.content, self.headers, self.text = 200, content, {"x-reply": "1"}, content.decode()
        self.request = None


class Session:
    def __init__(self, reply):
        self.calls, self.reply = [], reply

    def _do(self, verb, url, timeout=None, headers=None, params=None, data=None, **kw):
        self.calls.append({"verb": verb, "url": url, "params": list(params or []), "data": data, "headers": dict(headers or {})})
        return Resp(self.reply)

    def close(self):
        pass


for _v in ("get", "put", "post", "delete", "patch"):
    setattr(Session, _v, (lambda v: lambda self, url, **kw: self._do(v, url, **kw))(_v))


REQUESTS = {
    "GetThing": [{"name": "things/t1"}, {"name": "things/a b", "view": "FULL", "page_size": 5, "color": 2, "flag": True, "ratio": 0.5, "big": 2 ** 40,
                                        "etag_value": "e", "tags": ["x", "y z"], "filter": {"id": "i", "level": 3, "shade": 1}, "u32": 7, "f32": 1.5, "u64": 2 ** 63, "raw": b"\x00\xff"},
                 {"name": "things/t3", "page_size": 0, "color": 0, "flag": False, "tags": ["only"]}],
    "UpdateThing": [{"thing": {"name": "things/t1", "title": "T", "color": 1, "inner": {"id": "x", "shade": 2}, "tags": ["a"], "colors": [1, 2]}, "update_mask": "title"},
                    {"thing": {"name": "shelves/s/things/t9", "count": 3}, "update_mask": "", "validate_only": True, "mode": 2},
                    {"thing": {"name": "things/t1"}}],
    "CreateThing": [{"parent": "shelves/s1", "thing": {"title": "new", "color": 2, "ratio": 2.5, "big": 12345678901}, "thing_id": "id7", "color": 1},
                    {"parent": "shelves/s1"}],
    "DeleteThing": [{"name": "things/t1"}, {"name": "things/t1", "force": True, "reason_code": 9}],
    "PutThing": [{"thing": {"name": "things/p", "display_name": "Shown"}, "update_mask": "display_name"}],
    "Search": [{"query": "q", "opts": {"id": "o", "level": 2, "shade": 2}, "ids": [1, 2, 3], "c": 1, "cs": [1, 2], "page_token": "tok"}, {}],
    "Simple": [{"name": "n1", "force": True}],
    "Tail": [{"name": "things/a/b/c", "reason_code": 4}],
    "Words": [{"name": "words/w", "type": "wooden", "max": 3, "format": "f", "class": "c"}, {"name": "words/w"}],
    "TwoVars": [{"parent": "shelves/s1", "thing_id": "t5", "thing": {"title": "tv"}, "color": 2}],
    "PurgeThing": [{"name": "things/t1", "criteria": {"id": "old", "level": 3}, "dry_run": True}, {"name": "things/t1"}],
    "WipeThings": [{"name": "things/t1", "criteria": {"id": "old"}, "dry_run": True}],
    "ListIn": [{"parent": "shelves/s1"}, {"parent": "shelves/s1", "zone": "z", "rack": 2, "recursive": True},
               {"parent": "buildings/b1", "zone": "z1", "rack": 4}],
    "ByType": [{"type": "types/t1/subtypes/s2", "note": "n"}],
    "ByReqType": [{"type": "rtypes/r1", "note": "n"}, {"type": "rtypes/r2"}],
    "ByFormat": [{"format": {"id": "formats/f1", "level": 2}, "note": "n"}, {"format": {"id": "formats/f2"}}],
    "ByKind": [{"type": "kinds/k1", "format": {"id": "f", "level": 2}, "note": "n"}, {"type": "kinds/k2"}],
}


def scenarios():
    from vf import genlab as G
    G.stub_pandoc_if_absent()
    failures, n = [], 0
    for func in ("config_off", "config_on"):
        r = G.run_isolated("props.C04_native", func)
        n += r["cases"]
        failures += r["failures"]
    return {"cases": n, "failures": failures}


def config_off():
    return one_config(False)


def config_on():
    return one_config(True)


def one_config(numeric):
    """One option setting in this process (a generated package can be imported once per process)."""
    import importlib
    from vf import genlab as G
    from google.auth.credentials import AnonymousCredentials
    from google.protobuf import descriptor_pool, message_factory, json_format
    from google.api import field_behavior_pb2
    G.stub_pandoc_if_absent()
    failures, n = [], 0
    fs = files()
    api, res = G.generate(fs, "autogen-snippets=false,transport=grpc+rest" + (",rest-numeric-enums" if numeric else ""))
    pool = descriptor_pool.DescriptorPool()
    for fp in G.dep_files() + fs:
        pool.Add(fp)
    svc_pb = fs[0].service[0]
    thing_cls = message_factory.GetMessageClass(pool.FindMessageTypeByName(PKG + ".Thing"))
    reply = thing_cls(name="things/reply", title="Reply", color=2, tags=["r"], inner={"id": "in", "shade": 1}, colors=[1, 2], big=2 ** 50, display_name="Shown")
    with G.materialised(res):
        lab_v1 = importlib.import_module("acme.lab_v1")
        tr_mod = importlib.import_module("acme.lab_v1.services.lab.transports.rest")
        for use_ints_reply in (False, True):
            reply_json = json_format.MessageToJson(reply, use_integers_for_enums=use_ints_reply).encode()
            for mpb in svc_pb.method:
                binds = bindings_of(mpb)
                snake = re.sub(r"(?<!^)(?=[A-Z])", "_", mpb.name).lower()
                req_cls = message_factory.GetMessageClass(pool.FindMessageTypeByName(mpb.input_type.lstrip(".")))
                if not binds:
                    n += 1
                    sess0 = Session(reply_json)
                    tr_mod.AuthorizedSession = lambda *a, **k: sess0        # the transport builds its session in __init__
                    transport = tr_mod.LabRestTransport(credentials=AnonymousCredentials())
                    client = lab_v1.LabClient(transport=transport)
                    try:
                        getattr(client, snake)(request={"name": "x"})
                        failures.append({"method": mpb.name, "what": "a method without an http binding did not refuse the REST transport"})
                    except NotImplementedError:
                        if transport._session.calls:
                            failures.append({"method": mpb.name, "what": "something was sent for a method without a binding"})
                    except Exception as e:      # noqa
                        failures.append({"method": mpb.name, "what": "a method without an http binding raised something other than NotImplementedError", "error": repr(e)[:200]})
                    continue
                for rq in REQUESTS[mpb.name]:
                    n += 1
                    label = {"method": mpb.name, "request": json.dumps(rq, default=repr)[:200], "numeric_enums": numeric}
                    sess = Session(reply_json)
                    tr_mod.AuthorizedSession = lambda *a, **k: sess
                    transport = tr_mod.LabRestTransport(credentials=AnonymousCredentials())
                    client = lab_v1.LabClient(transport=transport)
                    want = req_cls()
                    json_format.ParseDict(_jsonable(rq), want)
                    try:
                        # python attribute names carry a trailing underscore on reserved words
                        inp_cls = getattr(importlib.import_module("acme.lab_v1.types"), mpb.input_type.rsplit(".", 1)[1])
                        got = getattr(client, snake)(request=inp_cls.deserialize(want.SerializeToString()))
                    except Exception as e:      # noqa
                        failures.append(dict(label, what="the call raised", error=repr(e)[:300]))
                        continue
                    if len(sess.calls) != 1:
                        failures.append(dict(label, what="not exactly one HTTP request", calls=len(sess.calls)))
                        continue
                    failures += [dict(label, **f) for f in check_call(sess.calls[0], binds, want, req_cls, numeric)]
                    # reply decoded into the declared response type
                    out_pb = type(got).pb(got) if hasattr(type(got), "pb") else got
                    if out_pb.DESCRIPTOR.full_name != PKG + ".Thing" or out_pb.SerializeToString(deterministic=True) != reply.SerializeToString(deterministic=True):
                        failures.append(dict(label, what="the JSON reply is not decoded into the declared response type with the same content",
                                             got=json_format.MessageToJson(out_pb)[:200]))
    return {"cases": n, "failures": failures}


def _jsonable(x):
    import base64
    if isinstance(x, dict):
        return {k: _jsonable(v) for k, v in x.items()}
    if isinstance(x, list):
        return [_jsonable(v) for v in x]
    if isinstance(x, bytes):
        return base64.b64encode(x).decode()
    return x


def check_call(call, binds, want, req_cls, numeric):
    from google.protobuf import json_format
    from google.protobuf.descriptor import FieldDescriptor as FD
    from google.api import field_behavior_pb2
    out = []
    u = urllib.parse.urlsplit(call["url"])
    path = urllib.parse.unquote(u.path)
    matched = None
    for verb, uri, body in binds:
        rx, vars_ = uri_regex(uri)
        mt = rx.match(path)
        if verb == call["verb"] and mt:
            matched = (verb, uri, body, vars_, mt)
            break
    if matched is None:
        return [{"what": "verb and path instantiate none of the declared bindings", "verb": call["verb"], "path": path, "bindings": [b[:2] for b in binds]}]
    verb, uri, body, vars_, mt = matched
    rebuilt = req_cls()
    sources = {}
    for i, v in enumerate(vars_):
        try:
            set_path(rebuilt, v, mt.group(f"v{i}"))
        except Exception as e:      # noqa
            out.append({"what": "path variable does not name a request field", "variable": v, "error": repr(e)[:100]})
        sources[v] = "path"
    params = []
    for k, v in call["params"]:
        if not isinstance(v, str):
            # query values are handed to the HTTP library as text in the proto3 JSON spelling (true/false, not True/False)
            out.append({"what": "a query parameter value is not text in the JSON spelling", "key": k, "value": repr(v)})
            v = str(v)
        params.append((k, v))
    alt = [v for k, v in params if k == "$alt"]
    params = [(k, v) for k, v in params if k != "$alt"]
    if numeric != (alt == ["json;enum-encoding=int"]) or (not numeric and alt):
        out.append({"what": "$alt=json;enum-encoding=int must be sent iff numeric enums are requested", "alt": alt, "numeric_enums": numeric})
    data = call["data"]
    if body:
        if data is None:
            out.append({"what": "binding has a body but none was sent"})
        else:
            target = rebuilt if body == "*" else getattr(rebuilt, _field(rebuilt, body).name)
            try:
                bj = json.loads(data)
                json_format.ParseDict(bj, target)
                if body != "*" and bj:
                    target.SetInParent()      # an unset body field travels as `{}`: presence of an empty message is not observable in the JSON
                if _has_enum_encoding(bj, numeric) is False:
                    out.append({"what": "enum encoding in the JSON body does not follow the numeric-enums option", "body": data[:200]})
                # JSON uses the proto field names in lowerCamel
                bad_keys = _non_json_keys(bj, target)
                if bad_keys:
                    out.append({"what": "JSON body keys are not the lowerCamel proto field names", "keys": bad_keys[:5]})
            except Exception as e:      # noqa
                out.append({"what": "body is not the JSON of the body field", "error": repr(e)[:200], "body": str(data)[:200]})
            sources[body] = "body"
    elif data not in (None, "", b""):
        out.append({"what": "a body was sent for a binding without body", "body": str(data)[:100]})
    seen_q = set()
    for k, v in params:
        top = k.split(".")[0]
        try:
            f_top = _field(rebuilt, top)
        except KeyError:
            out.append({"what": "query parameter is not a (lowerCamel) field of the request", "key": k})
            continue
        if body == "*" or f_top.name == body or any(f_top.name == pv.split(".")[0] and (pv == _dotted_name(rebuilt, k) or "." not in pv) for pv in vars_):
            f_ = {"what": "a field travels twice (query and path/body)", "key": k}
            if (verb, uri, body) != binds[0] and f_top.name in [pv.split(".")[0] for pv in vars_] and \
                    f_top.name not in [pv.split(".")[0] for pv in uri_regex(binds[0][1])[1]]:
                f_["known"] = "required-field-bound-by-additional-binding"
            out.append(f_)
            continue
        try:
            set_path(rebuilt, k, v)
        except Exception as e:      # noqa
            f_ = {"what": "query parameter value does not decode into the field", "key": k, "value": v, "error": repr(e)[:100]}
            if f_top.type == FD.TYPE_BYTES and v == "b''":
                f_["known"] = "required-bytes-default"
            out.append(f_)
        if f_top.type == FD.TYPE_ENUM and (re.fullmatch(r"-?\d+", v) is not None) != numeric:
            out.append({"what": "enum encoding in the query does not follow the numeric-enums option", "key": k, "value": v})
        seen_q.add(f_top.name)
    # required scalar fields that are bound neither by the path nor by the body travel in the query even when default-valued
    for f in req_cls.DESCRIPTOR.fields:
        opts = f.GetOptions()
        req = field_behavior_pb2.REQUIRED in list(opts.Extensions[field_behavior_pb2.field_behavior])
        # (enum-typed required fields are left out: the statement says "scalar", and the template gives them the same `{}` default as messages)
        if req and f.type not in (FD.TYPE_MESSAGE, FD.TYPE_ENUM) and body != "*" and f.name != body and f.name not in [v.split(".")[0] for v in vars_] and f.name not in seen_q:
            out.append({"what": "a required scalar field not bound to path or body is missing from the query", "field": f.name})
    if rebuilt != want:
        out.append({"what": "path + query + body do not reconstruct the request", "sent": json_format.MessageToJson(want)[:300],
                    "reconstructed": json_format.MessageToJson(rebuilt)[:300]})
    return out


def _dotted_name(msg, json_dotted):
    cur, names = msg, []
    for p in json_dotted.split("."):
        f = _field(cur, p)
        names.append(f.name)
        if f.message_type is not None and f.label != 3:
            cur = getattr(cur, f.name)
    return ".".join(names)


def _has_enum_encoding(j, numeric):
    """True/False when an enum-valued key (color/shade/mode/c/cs/colors) is present and (does not) follow the option, None when absent."""
    res = None
    def walk(x):
        nonlocal res
        if isinstance(x, dict):
            for k, v in x.items():
                if k in ("color", "shade", "mode", "c", "cs", "colors"):
                    vals = v if isinstance(v, list) else [v]
                    for y in vals:
                        ok = isinstance(y, int) == numeric
                        res = ok if res is None else (res and ok)
                walk(v)
        elif isinstance(x, list):
            for y in x:
                walk(y)
    walk(j)
    return res


def _non_json_keys(j, msg):
    bad = []
    if isinstance(j, dict):
        names = {f.json_name: f for f in msg.DESCRIPTOR.fields}
        for k, v in j.items():
            if k not in names:
                bad.append(k)
            elif names[k].message_type is not None and isinstance(v, dict) and names[k].label != 3:
                bad += _non_json_keys(v, getattr(msg, names[k].name))
    return bad
