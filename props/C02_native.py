"""C02 replay: descriptor sets over the quantifier's shapes -> generated types modules -> runtime descriptors, byte round trips and JSON keys
compared with the input descriptors.  The oracle uses protobuf's own dynamic messages built from the *input* FileDescriptorProtos; nothing of
the generator's schema layer is consulted.  Bounded."""
import json, random

PKG = "acme.lab.v1"
SCALARS = ["DOUBLE", "FLOAT", "INT64", "UINT64", "INT32", "FIXED64", "FIXED32", "BOOL", "STRING", "BYTES", "UINT32", "SFIXED32", "SFIXED64",
           "SINT32", "SINT64"]
MAP_KEYS = ["INT32", "INT64", "UINT32", "UINT64", "SINT32", "SINT64", "FIXED32", "FIXED64", "SFIXED32", "SFIXED64", "BOOL", "STRING"]


def _t(name):
    from vf import genlab as G
    return getattr(G.T, "TYPE_" + name)


def add_map(msg, full_parent, name, number, key, value, value_type_name=""):
    """map<key, value> name = number;  (the nested *Entry message with map_entry, as protoc emits it)"""
    from vf import genlab as G
    entry_name = "".join(p.capitalize() for p in name.split("_")) + "Entry"
    e = msg.nested_type.add(name=entry_name)
    e.options.map_entry = True
    e.field.append(G.F("key", 1, _t(key)))
    e.field.append(G.F("value", 2, _t(value), type_name=value_type_name))
    msg.field.append(G.F(name, number, G.T.TYPE_MESSAGE, label=G.REPEATED, type_name=f".{full_parent}.{entry_name}"))


def files(f4_witness=False, name_collision=False):
    from vf import genlab as G
    T = G.T
    P = "." + PKG
    a = G.new_file("acme/lab/v1/shapes.proto", PKG, deps=G.STD_DEPS + ["google/rpc/status.proto", "google/type/date.proto", "google/rpc/error_details.proto"])
    col = a.enum_type.add(name="Color")
    for n, v in (("COLOR_UNSPECIFIED", 0), ("RED", 1), ("BLUE", 5), ("DEEP_BLUE", 2147483647)):
        col.value.add(name=n, number=v)
    al = a.enum_type.add(name="Aliased")
    al.options.allow_alias = True
    for n, v in (("ALIASED_UNSPECIFIED", 0), ("ONE", 1), ("UNO", 1)):
        al.value.add(name=n, number=v)
    sc = G.add_message(a, "Scalars")
    for i, s in enumerate(SCALARS):
        sc.field.append(G.F("f_" + s.lower(), i + 1, _t(s)))
        sc.field.append(G.F("r_" + s.lower(), i + 21, _t(s), label=G.REPEATED))
    sc.field.append(G.F("e", 50, T.TYPE_ENUM, type_name=P + ".Color"))
    sc.field.append(G.F("re", 51, T.TYPE_ENUM, label=G.REPEATED, type_name=P + ".Color"))
    sc.field.append(G.F("big_number", 536870911, T.TYPE_INT32))          # the largest legal field number
    # proto3 optional (explicit presence): synthetic oneofs come after the real ones
    op = G.add_message(a, "Presence")
    op.oneof_decl.add(name="choice")
    op.oneof_decl.add(name="solo")
    op.field.append(G.F("a", 1, T.TYPE_STRING, oneof_index=0))
    op.field.append(G.F("b", 2, T.TYPE_INT32, oneof_index=0))
    op.field.append(G.F("c", 3, T.TYPE_MESSAGE, type_name=P + ".Scalars", oneof_index=0))
    op.field.append(G.F("d", 4, T.TYPE_ENUM, type_name=P + ".Color", oneof_index=0))
    op.field.append(G.F("only", 5, T.TYPE_STRING, oneof_index=1))
    for i, (n, ty, tn) in enumerate((("opt_s", "STRING", ""), ("opt_i", "INT64", ""), ("opt_b", "BOOL", ""), ("opt_e", "ENUM", P + ".Color"),
                                     ("opt_m", "MESSAGE", P + ".Scalars"), ("opt_d", "DOUBLE", ""))):
        op.oneof_decl.add(name="_" + n)
        op.field.append(G.F(n, 10 + i, _t(ty), type_name=tn, oneof_index=2 + i, proto3_optional=True))
    op.field.append(G.F("plain", 30, T.TYPE_STRING))
    mp = G.add_message(a, "Maps")
    for i, k in enumerate(MAP_KEYS):
        add_map(mp, f"{PKG}.Maps", "by_" + k.lower(), i + 1, k, "STRING")
    add_map(mp, f"{PKG}.Maps", "to_msg", 20, "STRING", "MESSAGE", P + ".Scalars")
    add_map(mp, f"{PKG}.Maps", "to_enum", 21, "INT32", "ENUM", P + ".Color")
    add_map(mp, f"{PKG}.Maps", "to_bytes", 22, "STRING", "BYTES")
    add_map(mp, f"{PKG}.Maps", "to_double", 23, "BOOL", "DOUBLE")
    # nesting depth 4, references to descendants at every depth
    outer = G.add_message(a, "Outer")
    mid = G.add_message(outer, "Mid")
    inner = G.add_message(mid, "Inner")
    deep = G.add_message(inner, "Deep", [G.F("x", 1, T.TYPE_STRING)])
    inner.field.append(G.F("d", 1, T.TYPE_MESSAGE, type_name=P + ".Outer.Mid.Inner.Deep"))
    inner.field.append(G.F("up", 2, T.TYPE_MESSAGE, type_name=P + ".Outer"))                         # back-reference to the top
    mid.field.append(G.F("i", 1, T.TYPE_MESSAGE, type_name=P + ".Outer.Mid.Inner"))
    kind = mid.enum_type.add(name="Kind")
    kind.value.add(name="K0", number=0)
    kind.value.add(name="K1", number=1)
    mid.field.append(G.F("k", 2, T.TYPE_ENUM, type_name=P + ".Outer.Mid.Kind"))
    outer.field.append(G.F("x", 1, T.TYPE_MESSAGE, type_name=P + ".Outer.Mid.Inner"))
    outer.field.append(G.F("m", 2, T.TYPE_MESSAGE, type_name=P + ".Outer.Mid"))
    outer.field.append(G.F("k", 3, T.TYPE_ENUM, type_name=P + ".Outer.Mid.Kind"))
    outer.field.append(G.F("deep", 4, T.TYPE_MESSAGE, type_name=P + ".Outer.Mid.Inner.Deep"))
    outer.field.append(G.F("rk", 5, T.TYPE_ENUM, label=G.REPEATED, type_name=P + ".Outer.Mid.Kind"))
    add_map(outer, f"{PKG}.Outer", "deeps", 6, "STRING", "MESSAGE", P + ".Outer.Mid.Inner.Deep")
    # siblings nested under a common parent
    par = G.add_message(a, "Parent")
    ca = G.add_message(par, "ChildA", [G.F("b", 1, T.TYPE_MESSAGE, type_name=P + ".Parent.ChildB")])
    cb = G.add_message(par, "ChildB", [G.F("a", 1, T.TYPE_MESSAGE, type_name=P + ".Parent.ChildA"), G.F("c", 2, T.TYPE_ENUM, type_name=P + ".Color"),
                                       G.F("pk", 3, T.TYPE_ENUM, type_name=P + ".Parent.PKind")])
    pk = par.enum_type.add(name="PKind")
    pk.value.add(name="PK0", number=0)
    par.field.append(G.F("a", 1, T.TYPE_MESSAGE, type_name=P + ".Parent.ChildA"))
    par.field.append(G.F("pk", 2, T.TYPE_ENUM, type_name=P + ".Parent.PKind"))
    # recursion and forward references
    tree = G.add_message(a, "Tree", [G.F("left", 1, T.TYPE_MESSAGE, type_name=P + ".Tree"), G.F("kids", 2, T.TYPE_MESSAGE, label=G.REPEATED, type_name=P + ".Tree"),
                                     G.F("label", 3, T.TYPE_STRING)])
    add_map(tree, f"{PKG}.Tree", "named", 4, "STRING", "MESSAGE", P + ".Tree")
    G.add_message(a, "Ping", [G.F("p", 1, T.TYPE_MESSAGE, type_name=P + ".Pong"), G.F("n", 2, T.TYPE_INT32)])
    G.add_message(a, "Pong", [G.F("p", 1, T.TYPE_MESSAGE, type_name=P + ".Ping"), G.F("s", 2, T.TYPE_STRING)])
    G.add_message(a, "Early", [G.F("l", 1, T.TYPE_MESSAGE, type_name=P + ".Late"), G.F("s", 2, T.TYPE_MESSAGE, type_name=P + ".Late.Sub"),
                               G.F("e", 3, T.TYPE_ENUM, type_name=P + ".LateEnum")])
    late = G.add_message(a, "Late")
    G.add_message(late, "Sub", [G.F("v", 1, T.TYPE_INT32)])
    le = a.enum_type.add(name="LateEnum")
    le.value.add(name="LATE_ENUM_UNSPECIFIED", number=0)
    le.value.add(name="LATER", number=7)
    # reserved words as field names, JSON camel-casing
    G.add_message(a, "Words", [G.F("class", 1, T.TYPE_STRING), G.F("import", 2, T.TYPE_INT32), G.F("from", 3, T.TYPE_BOOL), G.F("in", 4, T.TYPE_STRING),
                               G.F("lambda", 5, T.TYPE_STRING, label=G.REPEATED), G.F("snake_case_name", 6, T.TYPE_STRING),
                               G.F("next_page_token", 7, T.TYPE_STRING), G.F("type", 8, T.TYPE_STRING), G.F("property", 9, T.TYPE_STRING),
                               G.F("x_2fa_code", 10, T.TYPE_STRING), G.F("none", 11, T.TYPE_STRING)])
    # dependency packages
    G.add_message(a, "UsesDeps", [G.F("ts", 1, T.TYPE_MESSAGE, type_name=".google.protobuf.Timestamp"), G.F("st", 2, T.TYPE_MESSAGE, type_name=".google.protobuf.Struct"),
                                  G.F("status", 3, T.TYPE_MESSAGE, type_name=".google.rpc.Status"), G.F("date", 4, T.TYPE_MESSAGE, type_name=".google.type.Date"),
                                  G.F("durs", 5, T.TYPE_MESSAGE, label=G.REPEATED, type_name=".google.protobuf.Duration"),
                                  G.F("w", 6, T.TYPE_MESSAGE, type_name=".google.protobuf.Int32Value"), G.F("any", 7, T.TYPE_MESSAGE, type_name=".google.protobuf.Any"),
                                  G.F("nv", 8, T.TYPE_ENUM, type_name=".google.protobuf.NullValue"),
                                  # types nested inside messages of a dependency (pb2) package
                                  G.F("violation", 10, T.TYPE_MESSAGE, type_name=".google.rpc.BadRequest.FieldViolation"),
                                  G.F("quota", 11, T.TYPE_MESSAGE, label=G.REPEATED, type_name=".google.rpc.QuotaFailure.Violation"),
                                  G.F("kind", 12, T.TYPE_ENUM, type_name=".google.protobuf.FieldDescriptorProto.Type")])
    usesdeps = a.message_type[-1]
    add_map(usesdeps, f"{PKG}.UsesDeps", "stamps", 9, "STRING", "MESSAGE", ".google.protobuf.Timestamp")
    if f4_witness:
        # a nested message whose simple name equals a top-level message's name, referring to a type nested in that top-level message
        x = G.add_message(a, "X")
        xo = G.add_message(x, "Outer", [G.F("f", 1, T.TYPE_MESSAGE, type_name=P + ".Outer.Mid"), G.F("v", 2, T.TYPE_STRING)])
        x.field.append(G.F("o", 1, T.TYPE_MESSAGE, type_name=P + ".X.Outer"))
    if name_collision:
        G.add_message(a, "Clash", [G.F("in", 1, T.TYPE_STRING), G.F("in_", 2, T.TYPE_STRING)])
    b = G.new_file("acme/lab/v1/more.proto", PKG, deps=G.STD_DEPS + ["acme/lab/v1/shapes.proto"])
    ub = G.add_message(b, "UsesOther", [G.F("s", 1, T.TYPE_MESSAGE, type_name=P + ".Scalars"), G.F("i", 2, T.TYPE_MESSAGE, type_name=P + ".Outer.Mid.Inner"),
                                        G.F("c", 3, T.TYPE_ENUM, type_name=P + ".Color"), G.F("k", 4, T.TYPE_ENUM, type_name=P + ".Outer.Mid.Kind"),
                                        G.F("trees", 5, T.TYPE_MESSAGE, label=G.REPEATED, type_name=P + ".Tree")])
    add_map(ub, f"{PKG}.UsesOther", "m", 6, "STRING", "MESSAGE", P + ".Scalars")
    add_map(ub, f"{PKG}.UsesOther", "ek", 7, "STRING", "ENUM", P + ".Outer.Mid.Kind")
    # a NESTED message whose field is called like the sibling module its type comes from (only the nested message uses that name)
    hold = G.add_message(b, "Holder")
    G.add_message(hold, "Inner", [G.F("shapes", 1, T.TYPE_MESSAGE, type_name=P + ".Scalars"), G.F("c", 2, T.TYPE_ENUM, type_name=P + ".Color"),
                                  G.F("t", 3, T.TYPE_MESSAGE, type_name=P + ".Tree")])
    hold.field.append(G.F("i", 1, T.TYPE_MESSAGE, type_name=P + ".Holder.Inner"))
    svc = G.add_service(b, "Lab")
    G.add_method(svc, "Get", P + ".UsesOther", P + ".Scalars", http=("get", "/v1/things"))
    # files whose base name equals the base name of the dependency file they take a type from
    c = G.new_file("acme/lab/v1/status.proto", PKG, deps=G.STD_DEPS + ["google/rpc/status.proto"])
    G.add_message(c, "StatusHolder", [G.F("status", 1, T.TYPE_MESSAGE, type_name=".google.rpc.Status"), G.F("at", 2, T.TYPE_MESSAGE, type_name=".google.protobuf.Timestamp"),
                                      G.F("note", 3, T.TYPE_STRING)])
    d = G.new_file("acme/lab/v1/date.proto", PKG, deps=G.STD_DEPS + ["google/type/date.proto", "acme/lab/v1/shapes.proto"])
    G.add_message(d, "DateRange", [G.F("first", 1, T.TYPE_MESSAGE, type_name=".google.type.Date"), G.F("last", 2, T.TYPE_MESSAGE, type_name=".google.type.Date"),
                                   G.F("c", 3, T.TYPE_ENUM, type_name=P + ".Color")])
    return [a, b, c, d]


# ---------------------------------------------------------------------------------------------------------------- the oracle
def desc_view(dp, full, pool_files, input_names=None):
    """View of a DescriptorProto (input side or runtime side): what the statement lists.  On the runtime side a field called `<n>_` whose
    stem is an input field name (and which is not itself one) is the python attribute of the reserved word <n> (statement: one trailing
    underscore on reserved words); JSON keys are compared separately."""
    oneofs = [o.name for o in dp.oneof_decl]
    entries = {n.name: n for n in dp.nested_type if n.options.map_entry}
    fields = {}
    for f in dp.field:
        synthetic = f.proto3_optional
        v = {"number": f.number, "type": f.type, "label": f.label, "type_name": f.type_name.lstrip("."),
             "oneof": (oneofs[f.oneof_index] if f.HasField("oneof_index") and not synthetic else None), "optional": bool(f.proto3_optional)}
        if f.type == 11 and f.label == 3 and f.type_name.lstrip(".").startswith(full + ".") and f.type_name.rsplit(".", 1)[-1] in entries:
            e = entries[f.type_name.rsplit(".", 1)[-1]]
            k, val = e.field[0], e.field[1]
            v = {"number": f.number, "map": True, "key_type": k.type, "value_type": val.type, "value_type_name": val.type_name.lstrip(".")}
        fname = f.name
        if input_names is not None and fname not in input_names and fname.endswith("_") and fname[:-1] in input_names:
            fname = fname[:-1]
        fields[fname] = v
    nested = {n.name: desc_view(n, full + "." + n.name, pool_files, None if input_names is None else ()) for n in dp.nested_type if not n.options.map_entry}
    enums = {e.name: [(x.name, x.number) for x in e.value] for e in dp.enum_type}
    return {"fields": fields, "nested": nested, "enums": enums}


def diff_views(a, b, path, out):
    for key in ("fields", "enums"):
        for n in sorted(set(a[key]) | set(b[key])):
            if a[key].get(n) != b[key].get(n):
                out.append({"at": f"{path}.{n}", "kind": key, "input": a[key].get(n), "generated": b[key].get(n)})
    for n in sorted(set(a["nested"]) | set(b["nested"])):
        if n not in a["nested"] or n not in b["nested"]:
            out.append({"at": f"{path}.{n}", "kind": "nested", "input": n in a["nested"], "generated": n in b["nested"]})
        else:
            diff_views(a["nested"][n], b["nested"][n], f"{path}.{n}", out)


def fill(msg, rng, depth=0):
    """Random valuation of a dynamic message (every field kind; recursion cut at depth 3)."""
    from google.protobuf.descriptor import FieldDescriptor as FD
    d = msg.DESCRIPTOR
    if d.full_name in ("google.protobuf.Timestamp", "google.protobuf.Duration"):
        msg.seconds, msg.nanos = rng.randint(0, 10 ** 6), rng.randint(0, 999999999)
        return
    if d.full_name == "google.protobuf.FieldMask":
        return
    chosen_oneof = {}
    for o in d.oneofs:
        real = [f for f in o.fields]
        if real and not (len(real) == 1 and real[0].has_presence and o.name.startswith("_")):
            chosen_oneof[o.name] = rng.choice(real).name
    for f in d.fields:
        if f.containing_oneof is not None and f.containing_oneof.name in chosen_oneof and chosen_oneof[f.containing_oneof.name] != f.name:
            continue
        if rng.random() < 0.15 and depth > 0:
            continue
        if d.full_name.startswith("google.protobuf.") and d.name in ("Struct", "Any", "Value", "ListValue"):
            continue

        def scalar():
            t = f.type if not is_map else None
            return _scalar(f, rng)
        is_map = f.message_type is not None and f.message_type.GetOptions().map_entry
        if is_map:
            kf, vf = f.message_type.fields_by_name["key"], f.message_type.fields_by_name["value"]
            for _ in range(rng.randint(0, 3)):
                k = _scalar(kf, rng)
                if vf.type == FD.TYPE_MESSAGE:
                    if depth < 3:
                        fill(getattr(msg, f.name)[k], rng, depth + 1)
                    else:
                        getattr(msg, f.name)[k].SetInParent()
                else:
                    getattr(msg, f.name)[k] = _scalar(vf, rng)
        elif f.type == FD.TYPE_MESSAGE:
            if depth >= 3:
                continue
            if f.label == FD.LABEL_REPEATED:
                for _ in range(rng.randint(0, 2)):
                    fill(getattr(msg, f.name).add(), rng, depth + 1)
            else:
                sub = getattr(msg, f.name)
                sub.SetInParent()
                fill(sub, rng, depth + 1)
        elif f.label == FD.LABEL_REPEATED:
            getattr(msg, f.name).extend(_scalar(f, rng) for _ in range(rng.randint(0, 3)))
        else:
            setattr(msg, f.name, _scalar(f, rng))


def _scalar(f, rng):
    from google.protobuf.descriptor import FieldDescriptor as FD
    t = f.type
    if t in (FD.TYPE_DOUBLE,):
        return rng.choice([0.0, 1.5, -2.25, 1e300, 3.141592653589793])
    if t == FD.TYPE_FLOAT:
        return rng.choice([0.0, 1.5, -2.25, 1024.0])
    if t in (FD.TYPE_INT64, FD.TYPE_SINT64, FD.TYPE_SFIXED64):
        return rng.choice([0, 1, -1, 2 ** 63 - 1, -2 ** 63, rng.randint(-10 ** 12, 10 ** 12)])
    if t in (FD.TYPE_UINT64, FD.TYPE_FIXED64):
        return rng.choice([0, 1, 2 ** 64 - 1, rng.randint(0, 10 ** 15)])
    if t in (FD.TYPE_INT32, FD.TYPE_SINT32, FD.TYPE_SFIXED32):
        return rng.choice([0, 1, -1, 2 ** 31 - 1, -2 ** 31, rng.randint(-10 ** 6, 10 ** 6)])
    if t in (FD.TYPE_UINT32, FD.TYPE_FIXED32):
        return rng.choice([0, 1, 2 ** 32 - 1, rng.randint(0, 10 ** 6)])
    if t == FD.TYPE_BOOL:
        return rng.choice([True, False])
    if t == FD.TYPE_STRING:
        return rng.choice(["", "a", "héllo", "x" * 40, "line\nbreak", "☃"])
    if t == FD.TYPE_BYTES:
        return rng.choice([b"", b"\x00\xff", b"bytes", bytes(range(32))])
    if t == FD.TYPE_ENUM:
        return rng.choice([v.number for v in f.enum_type.values])
    raise ValueError(t)


def json_keys(x, out, prefix=""):
    if isinstance(x, dict):
        for k, v in x.items():
            out.add(prefix + k)
            json_keys(v, out, prefix + k + ".")
    elif isinstance(x, list):
        for v in x:
            json_keys(v, out, prefix)


def generated_class(types_pkg, module_of, path):
    import importlib
    mod = importlib.import_module(f"{types_pkg}.{module_of}")
    obj = mod
    for p in path:
        obj = getattr(obj, p)
    return obj


def walk_messages(fd):
    def rec(m, path):
        if m.options.map_entry:
            return
        yield m, path + (m.name,)
        for n in m.nested_type:
            yield from rec(n, path + (m.name,))
    for m in fd.message_type:
        yield from rec(m, ())


def check_files(fs, label, failures, rng, valuations=6):
    """Generate, import and compare everything; returns the number of comparisons."""
    import importlib, keyword
    from vf import genlab as G
    from google.protobuf import descriptor_pb2, descriptor_pool, message_factory, json_format
    from google.rpc import status_pb2, error_details_pb2
    from google.type import date_pb2
    from google.protobuf import descriptor_pb2 as _dpb
    n = 0
    try:
        api, res = G.generate(fs, "autogen-snippets=false", extra_dep_modules=(status_pb2, date_pb2, error_details_pb2, _dpb))
    except Exception as e:      # noqa
        failures.append(dict(label, what="generation failed", error=repr(e)[:300]))
        return 1
    pool = descriptor_pool.DescriptorPool()
    for fp in G.dep_files((status_pb2, date_pb2, error_details_pb2, _dpb)) + list(fs):
        pool.Add(fp)
    with G.materialised(res):
        try:
            pkg = importlib.import_module("acme.lab_v1.types")
        except Exception as e:      # noqa
            failures.append(dict(label, what="the generated types package does not import", error=repr(e)[:300]))
            return 1
        for fd in fs:
            module_of = fd.name.rsplit("/", 1)[1][:-len(".proto")]
            # enums (top-level)
            mod = importlib.import_module(f"acme.lab_v1.types.{module_of}")
            for e in fd.enum_type:
                n += 1
                cls = getattr(mod, e.name, None)
                got = None if cls is None else [(k, int(m.value)) for k, m in cls.__members__.items()] if hasattr(cls, "__members__") else None
                want = [(v.name, v.number) for v in e.value]
                if got is None or sorted(got) != sorted(want):
                    failures.append(dict(label, what="enum values differ", enum=e.name, input=want, generated=got))
            for m, path in walk_messages(fd):
                n += 1
                full = PKG + "." + ".".join(path)
                try:
                    cls = generated_class("acme.lab_v1.types", module_of, path)
                except AttributeError as ex:
                    failures.append(dict(label, what="generated class missing", message=full, error=str(ex)))
                    continue
                try:
                    rd = cls.pb(cls()).DESCRIPTOR
                except Exception as ex:     # noqa
                    failures.append(dict(label, what="generated class cannot be instantiated", message=full, error=repr(ex)[:300]))
                    continue
                if rd.full_name != full:
                    failures.append(dict(label, what="runtime full name differs", message=full, generated=rd.full_name))
                rdp = descriptor_pb2.DescriptorProto()
                rd.CopyToProto(rdp)
                diffs = []
                diff_views(desc_view(m, full, None), desc_view(rdp, full, None, {f.name for f in m.field}), full, diffs)
                for d in diffs[:6]:
                    failures.append(dict(label, what="declared view differs from the input descriptor", **d))
                # python attribute names
                for f in m.field:
                    # keywords cannot be attributes: exactly one trailing underscore; which further words are "reserved" is the generator's choice
                    ok_attrs = {f.name + "_"} if keyword.iskeyword(f.name) else {f.name, f.name + "_"}
                    if len(ok_attrs & set(cls.meta.fields)) != 1:
                        failures.append(dict(label, what="python attribute is not the proto name (+ '_' on reserved words)", message=full, field=f.name,
                                             attributes=sorted(cls.meta.fields)[:20]))
                # two-way round trip + JSON keys
                dyn_cls = message_factory.GetMessageClass(pool.FindMessageTypeByName(full))
                for _ in range(valuations):
                    n += 1
                    dyn = dyn_cls()
                    fill(dyn, rng)
                    raw = dyn.SerializeToString(deterministic=True)
                    try:
                        obj = cls.deserialize(raw)
                        back = dyn_cls.FromString(cls.serialize(obj))
                    except Exception as ex:     # noqa
                        failures.append(dict(label, what="round trip raised", message=full, error=repr(ex)[:300]))
                        break
                    if back != dyn:
                        failures.append(dict(label, what="bytes do not round-trip losslessly through the generated class", message=full,
                                             sent=json_format.MessageToJson(dyn)[:300], returned=json_format.MessageToJson(back)[:300]))
                        break
                    try:
                        theirs = json.loads(json_format.MessageToJson(dyn))
                        try:
                            mine = json.loads(cls.to_json(obj, including_default_value_fields=False))
                        except TypeError:
                            mine = json.loads(cls.to_json(obj, always_print_fields_with_no_presence=False))
                    except Exception as ex:     # noqa
                        failures.append(dict(label, what="to_json raised", message=full, error=repr(ex)[:300]))
                        break
                    k1, k2 = set(), set()
                    json_keys(theirs, k1)
                    json_keys(mine, k2)
                    if k1 != k2:
                        failures.append(dict(label, what="JSON keys differ from the lowerCamel mapping of the proto names", message=full,
                                             only_input=sorted(k1 - k2)[:6], only_generated=sorted(k2 - k1)[:6]))
                        break
    return n


RESERVED_EXTRA = {"next", "property", "type", "format", "max", "min", "id", "input", "object", "any", "all", "filter", "map", "set", "list", "dict", "hash",
                  "license", "none", "mro", "credits", "copyright", "exit", "quit", "help"}


def _reserved():
    """The generator's own reserved-word list is not consulted: the statement says `reserved words` - Python keywords (the only names that
    cannot be attributes); builtins that the generator also suffixes are accepted either way."""
    return RESERVED_EXTRA


def subpackage_names():
    """A target file in a sub-package of the API: its classes carry the full names of the input descriptors (package of the FILE, not of the API) -
    what google.protobuf.Any and JSON type URLs compare.  The module is loaded by path (the package __init__ of such layouts is C01's subject)."""
    import importlib.util, os
    from vf import genlab as G
    from google.protobuf import any_pb2, descriptor_pool, message_factory
    T = G.T
    root = G.new_file("acme/lab/v1/base.proto", PKG)
    G.add_message(root, "Base", [G.F("x", 1, T.TYPE_STRING)])
    sub = G.new_file("acme/lab/v1/storage/shelf.proto", PKG + ".storage")
    en = sub.enum_type.add(name="Grade")
    en.value.add(name="GRADE_UNSPECIFIED", number=0); en.value.add(name="FINE", number=1)
    G.add_message(sub, "Slot", [G.F("n", 1, T.TYPE_INT32)])
    G.add_message(sub, "Shelf", [G.F("name", 1, T.TYPE_STRING), G.F("slot", 2, T.TYPE_MESSAGE, type_name=f".{PKG}.storage.Slot"),
                                 G.F("grade", 3, T.TYPE_ENUM, type_name=f".{PKG}.storage.Grade")])
    failures = []
    try:
        api, res = G.generate([root, sub], "autogen-snippets=false")
    except Exception as e:      # noqa
        return {"cases": 1, "failures": [{"what": "generation failed for an API with a types-only sub-package", "error": repr(e)[:200]}]}
    with G.materialised(res) as rootdir:
        path = os.path.join(rootdir, "acme/lab_v1/storage/types/shelf.py")
        if not os.path.exists(path):
            return {"cases": 1, "failures": [{"what": "no types module for the sub-package file", "want": "acme/lab_v1/storage/types/shelf.py"}]}
        spec = importlib.util.spec_from_file_location("verif_subpkg_shelf", path)
        mod = importlib.util.module_from_spec(spec)
        import sys
        sys.modules[spec.name] = mod            # proto-plus finds the module manifest through sys.modules
        try:
            spec.loader.exec_module(mod)
        except Exception as e:      # noqa
            return {"cases": 1, "failures": [{"what": "the types module of the sub-package file does not load", "error": repr(e)[:200]}]}
        for name in ("Slot", "Shelf"):
            cls = getattr(mod, name)
            got = cls.pb(cls()).DESCRIPTOR.full_name
            if got != f"{PKG}.storage.{name}":
                failures.append({"what": "runtime full name differs from the input descriptor's", "message": f"{PKG}.storage.{name}", "generated": got})
        # Any round trip against a dynamic message of the input descriptor
        pool = descriptor_pool.DescriptorPool()
        for fp in G.dep_files() + [root, sub]:
            pool.Add(fp)
        dyn = message_factory.GetMessageClass(pool.FindMessageTypeByName(f"{PKG}.storage.Shelf"))(name="s1")
        a = any_pb2.Any()
        a.Pack(dyn)
        try:
            target = mod.Shelf.pb(mod.Shelf())
            if not a.Unpack(target) or target.name != "s1":
                failures.append({"what": "an Any packed under the input descriptor does not unpack into the generated class", "type_url": a.type_url,
                                 "generated_full_name": target.DESCRIPTOR.full_name})
        except Exception as e:      # noqa
            failures.append({"what": "Any unpack raised", "error": repr(e)[:200]})
    return {"cases": 3, "failures": failures}


def scenarios():
    import keyword
    from vf import genlab as G
    G.stub_pandoc_if_absent()
    import os
    thorough = os.environ.get("VERIF_TIER") == "thorough"
    rng = random.Random(20261002 + int(os.environ.get("VERIF_SEED", "0") or 0))
    failures = []
    n = check_files(files(f4_witness=True), {"corpus": "main"}, failures, rng, valuations=40 if thorough else 6)
    n += rel_cases(failures)
    return {"cases": n, "failures": failures}


def rel_cases(failures):
    """Address.rel over every pair of same-module addresses with nesting depth <= 3 over a small name alphabet, against the scoping rule
    evaluated directly: a quoted result must be the target's full dotted path; an unquoted one must resolve in the class body of the
    message being written (only its direct children are bound there) to the target."""
    import itertools
    from gapic.schema import metadata, naming
    nm = naming.NewNaming(name="Lab", namespace=("Acme",), version="v1", product_name="Lab", proto_package=PKG)
    names = ("A", "B")
    paths = [p for d in range(1, 4) for p in itertools.product(names, repeat=d)]
    n = 0
    for tp in paths:
        for mp in paths:
            n += 1
            T = metadata.Address(name=tp[-1], parent=tp[:-1], module="shapes", package=tuple(PKG.split(".")), api_naming=nm)
            M = metadata.Address(name=mp[-1], parent=mp[:-1], module="shapes", package=tuple(PKG.split(".")), api_naming=nm)
            r = T.rel(M)
            if r.startswith("'") and r.endswith("'"):
                ok = r[1:-1] == ".".join(tp)
            else:
                # evaluated in M's class body: the first component must be a direct child of M
                ok = tuple(mp) + tuple(r.split(".")) == tuple(tp)
            if not ok:
                failures.append({"case": "Address.rel", "target": ".".join(tp), "written_in": ".".join(mp), "result": r,
                                 "what": "the reference does not resolve to the target type from the class body of the message being written"})
    return n


