"""C11 replay: file sets of real responses, clause by clause.  Bounded."""
import re


def req_files(package, files=("things.proto",), dep=True, two_services=True, subpkg=False):
    from vf import genlab as G
    T = G.T
    out = []
    path = package.replace(".", "/")
    if dep:
        d = G.new_file("other/dep/v1/dep.proto", "other.dep.v1")
        G.add_message(d, "DepMsg", [G.F("x", 1, T.TYPE_STRING)])
        out.append(d)
    for i, fname in enumerate(files):
        fd = G.new_file(f"{path}/{fname}", package, deps=G.STD_DEPS + (["other/dep/v1/dep.proto"] if dep else []))
        G.add_message(fd, f"Req{i}", [G.F("name", 1, T.TYPE_STRING)] + ([G.F("d", 2, T.TYPE_MESSAGE, type_name=".other.dep.v1.DepMsg")] if dep else []))
        G.add_message(fd, f"Resp{i}", [G.F("x", 1, T.TYPE_STRING)])
        if i == 0:
            for s in (("Lab", "Archive") if two_services else ("Lab",)):
                svc = G.add_service(fd, s)
                G.add_method(svc, "Get" + s, f".{package}.Req0", f".{package}.Resp0", http=("get", "/v1/{name=%s/*}" % s.lower()))
        out.append(fd)
    return out


def types_module_spec(proto_file):
    """Independent statement of the documented sanitising: base name without .proto, '.' -> '_', a Python keyword or reserved client
    word gets a trailing '_', then snake case."""
    import keyword
    base = proto_file.rsplit("/", 1)[-1][:-len(".proto")].replace(".", "_")
    if base in set(keyword.kwlist) | {"metadata", "retry", "timeout", "request"}:
        base += "_"
    base = re.sub(r"(?<=[a-z])([A-Z])", r"_\1", base)
    base = re.sub(r"(?<=[^_])([A-Z])(?=[a-z])", r"_\1", base)
    return base.lower()


def check_response(label, res, api, package_dir, target_files, services, failures):
    names = [f.name for f in res.file]
    if len(names) != len(set(names)):
        dup = sorted({n for n in names if names.count(n) > 1})
        failures.append(dict(label, what="duplicate file names", names=dup[:5]))
    for n in names:
        if n.startswith("/") or "//" in n or any(s in ("", ".", "..") for s in n.split("/")) or "%" in n:
            failures.append(dict(label, what="file name not relative/normalised", name=n))
    py = [n for n in names if n.endswith(".py") and not n.startswith(("tests/", "samples/", "scripts/", "docs/", "setup.py", "noxfile.py"))]
    outside = [n for n in py if not n.startswith(package_dir.rsplit("/", 1)[0] + "/") and not n.startswith(package_dir)]
    if outside:
        failures.append(dict(label, what="python sources outside the package-derived directory", names=outside[:5], expected_prefix=package_dir))
    types = sorted(n for n in names if n.startswith(package_dir + "/types/") and not n.endswith("/__init__.py"))
    # one module per target file; two files whose sanitised names coincide are told apart by trailing underscores
    specs = sorted(types_module_spec(t) for t in target_files)
    got_stems = sorted(t.rsplit("/", 1)[1][:-3] for t in types)
    ok = len(types) == len(target_files) and len(set(types)) == len(types)
    if ok:
        pool_ = list(specs)
        for stem in got_stems:
            base = next((x for x in pool_ if stem == x or (stem.startswith(x) and set(stem[len(x):]) <= {"_"})), None)
            if base is None:
                ok = False
                break
            pool_.remove(base)
    if not ok:
        failures.append(dict(label, what="types modules != one per target proto file", got=types, want=[f"{package_dir}/types/{x}.py" for x in specs]))
    for s in services:
        if f"{package_dir}/services/{s}/client.py" not in names:
            failures.append(dict(label, what="service package missing", service=s))
    svc_dirs = sorted({n.split("/services/")[1].split("/")[0] for n in names if "/services/" in n and n.startswith(package_dir) and n.count("/") > package_dir.count("/") + 2})
    if svc_dirs != sorted(services):
        failures.append(dict(label, what="service packages", got=svc_dirs, want=sorted(services)))
    if any("dep" in n.lower() and "other" in n for n in names):
        failures.append(dict(label, what="something emitted for a dependency-only file", names=[n for n in names if "other" in n][:3]))
    if any(n.rsplit("/", 1)[-1].startswith("_") and not n.endswith("__init__.py") for n in names):
        failures.append(dict(label, what="underscore-prefixed template emitted", names=[n for n in names if n.rsplit("/", 1)[-1].startswith("_")][:3]))
    bad_seg = sorted({seg for n in py for seg in n[:-3].split("/") if not seg.isidentifier()})
    if bad_seg:
        failures.append(dict(label, what="a directory or module on the package's import path is not a Python identifier", segments=bad_seg[:5]))
    dirs = {n.rsplit("/", 1)[0] for n in names if n.endswith(".py") and n.startswith(package_dir)}
    for d in sorted(dirs):
        cur = d
        while len(cur) >= len(package_dir):
            if cur + "/__init__.py" not in names:
                failures.append(dict(label, what="directory on an import path without __init__.py", dir=cur))
                break
            cur = cur.rsplit("/", 1)[0]
    if not (res.supported_features & 1):
        failures.append(dict(label, what="FEATURE_PROTO3_OPTIONAL not advertised"))
    for f in res.file:
        if f.name.endswith(".py") and not f.content.strip() and not f.name.endswith(("__init__.py",)):
            failures.append(dict(label, what="empty module emitted", name=f.name))


def scenarios():
    from vf import genlab as G
    failures, cases = [], 0
    grid = [("acme.lab.v1", "acme/lab_v1"), ("acme.cloud.lab.v1beta1", "acme/cloud/lab_v1beta1"), ("a.b.c.lab.v1p1beta1", "a/b/c/lab_v1p1beta1"),
            ("acme.lab", "acme/lab"), ("acme.lab.v2alpha", "acme/lab_v2alpha"),
            # every target file BELOW the version segment: name / namespace / version come from the part up to the version, nothing moves into a sub-package
            ("acme.lab.v1.admin", "acme/lab_v1")]
    for package, pdir in grid:
        for files in (("things.proto",), ("things.proto", "more_things.proto", "OddName.v2.proto", "import.proto", "retry.proto", "metrics_core.proto", "metrics.core.proto")):
            cases += 1
            label = {"package": package, "files": list(files)}
            try:
                api, res = G.generate(req_files(package, files), "autogen-snippets=false",
                                      to_generate=[f"{package.replace('.', '/')}/{f}" for f in files])
            except Exception as e:       # noqa
                failures.append(dict(label, what="generation failed", error=repr(e)[:200]))
                continue
            check_response(label, res, api, pdir, list(files), ["lab", "archive"], failures)
    # name / namespace overrides
    for opt, pdir in (("python-gapic-name=widgets", "acme/widgets_v1"), ("python-gapic-namespace=Foo.Bar", "foo/bar/lab_v1"), ("python-gapic-namespace=Foo,python-gapic-namespace=Bar", "foo/bar/lab_v1"),
                      ("python-gapic-namespace=Foo.Bar,python-gapic-name=widgets", "foo/bar/widgets_v1"),
                      # repeated scalar override: protoc joins all --python_gapic_opt values with ',', defaults first - the later value takes effect
                      ("python-gapic-name=draft,python-gapic-name=catalog", "acme/catalog_v1"),
                      ("python-gapic-name=draft,metadata,python-gapic-name=shelves,python-gapic-namespace=Foo.Bar", "foo/bar/shelves_v1"),
                      # override values that are not identifiers: the directory is the lower-cased name with every other character made '_'
                      ("python-gapic-name=book_catalog", "acme/book_catalog_v1"), ("python-gapic-name=Book Catalog", "acme/book_catalog_v1"),
                      ("python-gapic-name=my-lib", "acme/my_lib_v1"),
                      # repeated namespace keys, one of them dotted: every value is split on '.'
                      ("python-gapic-namespace=Foo.Bar,python-gapic-namespace=Baz", "foo/bar/baz/lab_v1")):
        cases += 1
        label = {"package": "acme.lab.v1", "option": opt}
        try:
            api, res = G.generate(req_files("acme.lab.v1"), "autogen-snippets=false," + opt, to_generate=["acme/lab/v1/things.proto"])
            check_response(label, res, api, pdir, ["things.proto"], ["lab", "archive"], failures)
        except Exception as e:       # noqa
            failures.append(dict(label, what="generation failed", error=repr(e)[:200]))
    # option strings: unknown / repeated / valued options are ignored
    base_api, base = G.generate(req_files("acme.lab.v1"), "autogen-snippets=false", to_generate=["acme/lab/v1/things.proto"])
    base_names = sorted(f.name for f in base.file)
    for opt in ("foo", "foo=bar", "python-gapic-unknown=1", "foo=a=b", "metadata,metadata", "transport=grpc,transport=grpc", " spaced = x ", "k=v,,,"):
        cases += 1
        try:
            import warnings
            with warnings.catch_warnings():
                warnings.simplefilter("ignore")
                api, res = G.generate(req_files("acme.lab.v1"), "autogen-snippets=false," + opt, to_generate=["acme/lab/v1/things.proto"])
            got = sorted(f.name for f in res.file)
            if opt.startswith(("foo", "python-gapic-unknown", " spaced", "k=v")) and got != base_names:
                failures.append({"option": opt, "what": "unknown option changed the file set"})
        except Exception as e:       # noqa
            failures.append({"option": opt, "what": "option string rejected", "error": repr(e)[:160], "known": "option-with-two-equals" if opt == "foo=a=b" else None})
    # namespace-less package and proto sub-package (recorded findings)
    for package, known in (("lab.v1", "no-namespace"),):
        cases += 1
        try:
            G.generate(req_files(package, dep=False), "autogen-snippets=false", to_generate=[f"{package.replace('.', '/')}/things.proto"])
        except Exception as e:       # noqa
            failures.append({"package": package, "what": "generation failed", "error": repr(e)[:160], "known": known})
    # a target file that declares a service and nothing else still has its types module (one per target proto file)
    cases += 1
    fs = req_files("acme.lab.v1")
    so = G.new_file("acme/lab/v1/admin_service.proto", "acme.lab.v1", deps=G.STD_DEPS + ["acme/lab/v1/things.proto"])
    G.add_method(G.add_service(so, "Admin"), "GetAdmin", ".acme.lab.v1.Req0", ".acme.lab.v1.Resp0", http=("get", "/v1/{name=admin/*}"))
    try:
        api, res = G.generate(fs + [so], "autogen-snippets=false", to_generate=["acme/lab/v1/things.proto", "acme/lab/v1/admin_service.proto"])
        check_response({"package": "acme.lab.v1", "files": ["things.proto", "admin_service.proto (service only)"]}, res, api, "acme/lab_v1",
                       ["things.proto", "admin_service.proto"], ["lab", "archive", "admin"], failures)
    except Exception as e:       # noqa
        failures.append({"what": "generation failed for a service-only target file", "error": repr(e)[:200]})
    # a types-only sub-package below the versioned package: its directories are packages too
    cases += 1
    fs = req_files("acme.lab.v1")
    sp = G.new_file("acme/lab/v1/common/shapes.proto", "acme.lab.v1.common")
    G.add_message(sp, "Shape", [G.F("sides", 1, G.T.TYPE_INT32)])
    try:
        api, res = G.generate(fs + [sp], "autogen-snippets=false", to_generate=["acme/lab/v1/things.proto", "acme/lab/v1/common/shapes.proto"])
        names = [f.name for f in res.file]
        if "acme/lab_v1/common/types/shapes.py" not in names:
            failures.append({"what": "no types module for the target file of a sub-package", "want": "acme/lab_v1/common/types/shapes.py"})
        for d_ in sorted({n.rsplit("/", 1)[0] for n in names if n.endswith(".py") and n.startswith("acme/lab_v1/")}):
            cur = d_
            while len(cur) >= len("acme/lab_v1"):
                if cur + "/__init__.py" not in names:
                    failures.append({"what": "directory on an import path without __init__.py", "dir": cur, "layout": "sub-package acme.lab.v1.common"})
                    break
                cur = cur.rsplit("/", 1)[0]
    except Exception as e:       # noqa
        failures.append({"what": "generation failed for an API with a types-only sub-package", "error": repr(e)[:200]})
    # a sub-package of a sub-package (acme.lab.v1.geo.shapes): its file has its types module and its service its package, below geo/shapes/
    cases += 1
    fs = req_files("acme.lab.v1")
    g1 = G.new_file("acme/lab/v1/geo/point.proto", "acme.lab.v1.geo")
    G.add_message(g1, "Point", [G.F("x", 1, G.T.TYPE_INT32)])
    g2 = G.new_file("acme/lab/v1/geo/shapes/poly.proto", "acme.lab.v1.geo.shapes", deps=G.STD_DEPS + ["acme/lab/v1/geo/point.proto"])
    G.add_message(g2, "Poly", [G.F("name", 1, G.T.TYPE_STRING), G.F("corner", 2, G.T.TYPE_MESSAGE, type_name=".acme.lab.v1.geo.Point")])
    G.add_method(G.add_service(g2, "Polys"), "GetPoly", ".acme.lab.v1.geo.shapes.Poly", ".acme.lab.v1.geo.shapes.Poly", http=("get", "/v1/{name=polys/*}"))
    try:
        api, res = G.generate(fs + [g1, g2], "autogen-snippets=false",
                              to_generate=["acme/lab/v1/things.proto", "acme/lab/v1/geo/point.proto", "acme/lab/v1/geo/shapes/poly.proto"])
        names = [f.name for f in res.file]
        tm = sorted(n for n in names if "/types/" in n and n.startswith("acme/lab_v1/") and not n.endswith("__init__.py"))
        want = ["acme/lab_v1/geo/shapes/types/poly.py", "acme/lab_v1/geo/types/point.py", "acme/lab_v1/types/things.py"]
        if tm != want:
            failures.append({"what": "types modules != one per target proto file, each below the directory of its (nested) sub-package", "got": tm, "want": want})
        sv = sorted(n for n in names if n.startswith("acme/lab_v1/") and n.endswith("/client.py"))
        want = ["acme/lab_v1/geo/shapes/services/polys/client.py", "acme/lab_v1/services/archive/client.py", "acme/lab_v1/services/lab/client.py"]
        if sv != want:
            failures.append({"what": "service packages != one per service, each below the directory of its (nested) sub-package", "got": sv, "want": want})
        for d_ in sorted({n.rsplit("/", 1)[0] for n in names if n.endswith(".py") and n.startswith("acme/lab_v1/")}):
            cur = d_
            while len(cur) >= len("acme/lab_v1"):
                if cur + "/__init__.py" not in names:
                    failures.append({"what": "directory on an import path without __init__.py", "dir": cur, "layout": "nested sub-package acme.lab.v1.geo.shapes"})
                    break
                cur = cur.rsplit("/", 1)[0]
        if len(names) != len(set(names)):
            failures.append({"what": "duplicate file names", "layout": "nested sub-package", "names": sorted({n for n in names if names.count(n) > 1})[:5]})
    except Exception as e:       # noqa
        failures.append({"what": "generation failed for an API with a nested sub-package", "error": repr(e)[:200]})
    # two target files with the same base name in different directories
    cases += 1
    fs = req_files("acme.lab.v1", ("x.proto",), dep=False)
    import copy
    other = copy.deepcopy(fs[-1])
    other.name = "acme/lab/v1/sub/x.proto"
    del other.service[:]
    other.message_type[0].name, other.message_type[1].name = "ReqB", "RespB"
    try:
        api, res = G.generate(fs + [other], "autogen-snippets=false", to_generate=[fs[-1].name, other.name])
        names = [f.name for f in res.file]
        tm = [n for n in names if "/types/" in n and not n.endswith("__init__.py")]
        if len(tm) != 2:
            failures.append({"what": "two target files with the same base name map to one types module", "types_modules": tm, "known": "same-base-name"})
    except Exception as e:       # noqa
        failures.append({"what": "same-base-name request failed", "error": repr(e)[:160], "known": "same-base-name"})
    return {"cases": cases, "failures": failures}


def options_bounded():
    """Bounded check of the real Options.build over option strings built from <= 4 items out of a small alphabet (known scalar overrides repeated with
    different values, the list-valued namespace, flags, unknown keys, blanks): the scalar override is the LAST value given, the namespace the
    concatenation of all values split on '.', unknown items change nothing."""
    import itertools, warnings
    from gapic.utils.options import Options
    items = ["python-gapic-name=a", "python-gapic-name=b", "python-gapic-namespace=X.Y", "python-gapic-namespace=Z", "metadata", "foo", "foo=bar", "  python-gapic-name=c ",
             "transport=grpc", "transport=rest", "python-gapic-unknown=1", ""]
    failures, n = [], 0
    for k in range(0, 4):
        for combo in itertools.product(items, repeat=k):
            n += 1
            opt = ",".join(combo)
            with warnings.catch_warnings():
                warnings.simplefilter("ignore")
                try:
                    o = Options.build(opt)
                except Exception as e:      # noqa
                    failures.append({"options": opt, "what": "rejected", "error": repr(e)[:120]})
                    continue
            names = [c.strip().split("=", 1)[1] for c in combo if c.strip().startswith("python-gapic-name=")]
            ns = tuple(c.strip().split("=", 1)[1] for c in combo if c.strip().startswith("python-gapic-namespace="))       # (split on '.' happens in Naming)
            tr = [c.split("=", 1)[1] for c in combo if c.startswith("transport=")]
            want = {"name": names[-1] if names else "", "namespace": ns, "metadata": "metadata" in combo, "transport": (tr[0].split("+") if tr else ["grpc"])}
            got = {"name": o.name, "namespace": tuple(o.namespace), "metadata": bool(o.metadata), "transport": list(o.transport)}
            if got["name"] != want["name"] or got["namespace"] != want["namespace"] or got["metadata"] != want["metadata"]:
                failures.append({"options": opt, "what": "Options.build", "got": {k2: got[k2] for k2 in ("name", "namespace", "metadata")},
                                 "want": {k2: want[k2] for k2 in ("name", "namespace", "metadata")}})
                if len(failures) > 5:
                    return {"cases": n, "failures": failures}
    return {"cases": n, "failures": failures}
