"""C05 (stage 1) - collision binding: a flattened parameter must not shadow the module that qualifies a type used in the method body.

The emitted client method refers to the request type as `<module alias or module>.<Name>` and takes the flattened fields as keyword
parameters.  The alias decision is made by Address.module_alias from the address's collision set (contract proved under C12: an alias is
used iff the module name is in the collision set or reserved, and the alias ends with `_<module>`).  So the obligation on the schema side is:

    for every method m of a service bound to its file (Service.with_context) and every key k of m.flattened_fields,
    k is in the collision set carried by m.input's address.

It is proved through the with_context chain: Address -> Metadata -> MessageType -> Method -> Service.
"""
import z3
from vf.core import Run, Result
from vf.pyvc import Contract
from vf.schema import SchemaModel
from vf.smt import Ref, fn
from vf.types import *        # noqa

W = "gapic/schema/wrappers.py"
MD = "gapic/schema/metadata.py"
SAME = "forall(lambda x: (x in {a}) == (x in collisions), str)"


def run(run: Run):
    m = SchemaModel()
    # truthiness of a set <=> it has an element
    s_, x_ = z3.Const("ns", Ref), z3.Const("nx", z3.StringSort())
    m.add_axiom(z3.ForAll([s_], fn("set.nonempty", Ref, z3.BoolSort())(s_) == z3.Exists([x_], set_mem(s_, x_, STR)), patterns=[fn("set.nonempty", Ref, z3.BoolSort())(s_)]))
    m.specs["truthy"] = lambda ex, args, st: V(ex.truth(args[0]), BOOL)
    m.classes["Address"].update({"with_context": "method", "_fields": ["name", "module", "package", "collisions", "parent", "module_path", "api_naming"]})
    m.classes["Metadata"].update({"with_context": "method", "_fields": ["address", "documentation"], "documentation": "Opaque"})
    m.classes["MessageType"].update({"with_context": "method", "_fields": ["fields", "nested_enums", "nested_messages", "meta", "message_pb", "oneofs"]})
    m.classes["Field"].update({"with_context": "method"})
    m.classes["EnumType"].update({"with_context": "method"})
    m.classes["OperationInfo"].update({"with_context": "method"})
    m.classes["ExtendedOperationInfo"].update({"with_context": "method"})
    m.classes["Method"].update({"with_context": "method", "flattened_fields": "Map[Str,Field]",
                                "_fields": ["method_pb", "input", "output", "lro", "extended_lro", "meta"]})
    m.classes["Service"].update({"with_context": "method", "_fields": ["service_pb", "methods", "meta"]})
    cs = []
    cs.append(Contract("Address.with_context", source=(MD, "Address.with_context"), params={"self": "Address", "collisions": "Set[Str]"}, result="Address",
                       ensures=["implies(truthy(collisions), " + SAME.format(a="result.collisions") + ")",
                                "implies(not truthy(collisions), result is self)",
                                "result.module == self.module and result.name == self.name"]))
    cs.append(Contract("Metadata.with_context", source=(MD, "Metadata.with_context"), params={"self": "Metadata", "collisions": "Set[Str]"}, result="Metadata",
                       ensures=["implies(truthy(collisions), " + SAME.format(a="result.address.collisions") + ")",
                                "result.address.module == self.address.module and result.address.name == self.address.name"]))
    # callees of MessageType.with_context that are not on the path of the lemma: minimal (assumed) contracts - they return a wrapper
    for q, cls, extra in (("Field.with_context", "Field", {"visited_messages": "Opt[Set[MessageType]]"}), ("EnumType.with_context", "EnumType", {}),
                          ("OperationInfo.with_context", "OperationInfo", {"visited_messages": "Opt[Set[MessageType]]"}),
                          ("ExtendedOperationInfo.with_context", "ExtendedOperationInfo", {"visited_messages": "Opt[Set[MessageType]]"})):
        m.add_contract(Contract(q, params=dict({"self": cls, "collisions": "Set[Str]"}, **extra), result=cls, kind="assumed", defaults={"visited_messages": None},
                                note="not on the path of the lemma; returns a wrapper of the same class"))
    cs.append(Contract("MessageType.with_context", source=(W, "MessageType.with_context"),
                       params={"self": "MessageType", "collisions": "Set[Str]", "skip_fields": "Bool", "visited_messages": "Opt[Set[MessageType]]"}, result="MessageType",
                       defaults={"skip_fields": False, "visited_messages": None},
                       ensures=["implies(truthy(collisions), " + SAME.format(a="result.meta.address.collisions") + ")",
                                "result.meta.address.module == self.meta.address.module"]))
    cs.append(Contract("Method.with_context", source=(W, "Method.with_context"),
                       params={"self": "Method", "collisions": "Set[Str]", "visited_messages": "Opt[Set[MessageType]]"}, result="Method", defaults={"visited_messages": None},
                       ensures=["implies(truthy(collisions), " + SAME.format(a="result.input.meta.address.collisions") + ")",
                                "implies(truthy(collisions), " + SAME.format(a="result.output.meta.address.collisions") + ")",
                                "result.input.meta.address.module == self.input.meta.address.module"]))
    cs.append(Contract("Service.with_context", source=(W, "Service.with_context"),
                       params={"self": "Service", "collisions": "Set[Str]", "visited_messages": "Opt[Set[MessageType]]"}, result="Service", defaults={"visited_messages": None},
                       # the lemma: every flattened key of every method is in the collision set of that method's request address
                       ensures=["forall(lambda n: implies(n in self.methods, n in result.methods and forall(lambda k: implies(k in self.methods[n].flattened_fields, "
                                "k in result.methods[n].input.meta.address.collisions), str)), str)"]))
    for c in cs:
        m.add_contract(c)
    for c in cs:
        try:
            run.verify(m, c)
        except Exception as e:      # noqa
            run.unsupported.append(f"{c.qualname}: {e!r}"[:300])
    # consequence, with the contract of Address.module_alias (C12): a parameter named like the request's module never shadows it
    mod, alias, k = z3.Strings("mod alias k")
    incoll = z3.Bool("mod_in_collisions")
    sol = z3.Solver()
    sol.set(timeout=5000)
    qualifier = z3.If(alias != z3.StringVal(""), alias, mod)
    sol.add(z3.Implies(incoll, z3.And(alias != z3.StringVal(""), z3.SuffixOf(z3.Concat(z3.StringVal("_"), mod), alias))))      # C12: Address.module_alias
    sol.add(k == mod, incoll)                 # the parameter is named like the module and (lemma above) is in the collision set
    sol.add(qualifier == k)                   # ... and yet shadows it
    from vf.smt import guarded_check
    r = guarded_check(sol, 5000)[0]
    run.results.append(Result("flatten.binding:parameter-named-like-the-request's-module-does-not-shadow-it", "discharged" if r == z3.unsat else "unknown", "z3", 0, "lemma",
                              group="flatten.binding:no-shadowing"))
    run.assume(*m.assumptions)
