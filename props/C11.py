"""C11 - the emitted file set is well-formed and placed by package-derived naming.

Stage 1 (pyvc): Generator._is_desired_transport (a transport module is rendered iff its kind is requested, plus __init__/base/README);
Options.build in safety-only mode: no implicit exception for any option string that names no file-reading option (unknown options are
ignored) - calls outside the model are havoc'ed, arity of tuple unpacking, subscripts and next() remain obligations.
Structural (template tree, enumerated on every run): every directory of the emitted package tree that holds a module has an __init__.py
template; private-template and empty-module skipping and FEATURE_PROTO3_OPTIONAL are read off the real get_response / _get_file AST.
Bounded: Generator._get_filename against an independent specification over namespaces x versions x all shipped template names.
Native stand-in: requests with 0..3 namespace segments, versions none/v1/v1beta1/v1p1beta1, several target files, dependency files, names
needing sanitising; the response's file set is checked clause by clause.
"""
import ast, itertools, os, re
import z3
from vf.core import Run, Result, find_def, REPO
from vf.pyvc import Contract
from vf.schema import SchemaModel
from vf.types import *         # noqa

GEN = "gapic/generator/generator.py"


def stage1(run: Run):
    m = SchemaModel()
    m.add_class("Generator", {})
    m.add_class("Options", {"transport": "Seq[Str]"})
    c = Contract("Generator._is_desired_transport", source=(GEN, "Generator._is_desired_transport"),
                 params={"self": "Generator", "template_name": "Str", "opts": "Options"}, result="Bool",
                 ensures=["result == ('__init__' in template_name or 'base' in template_name or 'README' in template_name or "
                          "exists(lambda t: t in template_name, opts.transport))"])
    m.add_contract(c)
    run.verify(m, c)
    # Options.build: safety-only
    m2 = SchemaModel()
    from vf.model import Native
    m2.globals["warnings"] = pyv(("module", "warnings"))
    m2.globals["path"] = pyv(("module", "path"))
    m2.globals["defaultdict"] = pyv(("module", "defaultdict"))
    m2.globals["cls"] = pyv(("class", "OptionsCls"))
    m2.add_class("OptionsCls", {})
    # class constants, read from the class body on every run
    cdef, _ = find_def("gapic/utils/options.py", "Options")
    consts = {}
    for s in cdef.body:
        tgt = s.target if isinstance(s, ast.AnnAssign) else (s.targets[0] if isinstance(s, ast.Assign) else None)
        if isinstance(tgt, ast.Name) and tgt.id in ("OPT_FLAGS", "PYTHON_GAPIC_PREFIX"):
            consts[tgt.id] = eval(compile(ast.Expression(s.value), "<options>", "eval"), {"frozenset": frozenset})
    m2.globals["OptionsCls.OPT_FLAGS"] = pyv(consts["OPT_FLAGS"])
    m2.globals["OptionsCls.PYTHON_GAPIC_PREFIX"] = const(consts["PYTHON_GAPIC_PREFIX"])
    c2 = Contract("Options.build", source=("gapic/utils/options.py", "Options.build"), params={"opt_string": "Str"}, result=None,
                  # "any option string that names no file-reading option parses without error": file-reading options are exactly these
                  requires=["not contains(opt_string, 'retry-config') and not contains(opt_string, 'service-yaml') and not contains(opt_string, 'samples')"],
                  invariants={"for#1": ["True"], "for#2": ["True"], "for#3": ["True"]})
    c2.lenient = True
    m2.specs["contains"] = lambda ex, args, st: V(z3.Contains(args[0].term, args[1].term), BOOL)
    m2.add_contract(c2)
    rs = run.verify(m2, c2)
    run.assume(*m2.assumptions)
    run.assume("Options.build is analysed in safety-only mode: calls that are not modelled (defaultdict, path.*, warnings.warn, Options(...)) are havoc'ed and assumed not to raise")


def sanitised_names(run: Run):
    """API.build.disambiguate_keyword_sanitize_fname: the name under which a file is registered is never one already taken (so every target file
    keeps its own types module) - proved on the real nested function; os.path and str.replace are uninterpreted (the clause needs neither)."""
    import keyword
    from vf.model import FuncV
    from vf.smt import Ref, fn
    m = SchemaModel()
    m.globals["invalid_module_names"] = pyv(frozenset(set(keyword.kwlist) | {"metadata", "retry", "timeout", "request"}))
    m.globals["os"] = pyv(("module", "os"))
    for nm, res in (("os.path.split", "Opaque"), ("os.path.splitext", "Opaque"), ("os.path.join", "Str")):
        pass
    split_h, split_t = fn("os.split.head", z3.StringSort(), z3.StringSort()), fn("os.split.tail", z3.StringSort(), z3.StringSort())
    ext_r, ext_e = fn("os.splitext.root", z3.StringSort(), z3.StringSort()), fn("os.splitext.ext", z3.StringSort(), z3.StringSort())
    join_ = fn("os.join", z3.StringSort(), z3.StringSort(), z3.StringSort())
    repl_ = fn("str.replace_all", z3.StringSort(), z3.StringSort(), z3.StringSort(), z3.StringSort())
    m.known_calls = {}
    orig_call_node = m.call_node

    def call_node(ex, e, st):
        src = ast.unparse(e.func)
        if src == "os.path.split":
            a = ex.ev(e.args[0], st)
            return tup([V(split_h(a.term), STR), V(split_t(a.term), STR)])
        if src == "os.path.splitext":
            a = ex.ev(e.args[0], st)
            return tup([V(ext_r(a.term), STR), V(ext_e(a.term), STR)])
        if src == "os.path.join":
            a, b = ex.ev(e.args[0], st), ex.ev(e.args[1], st)
            return V(join_(a.term, b.term), STR)
        if isinstance(e.func, ast.Attribute) and e.func.attr == "replace" and len(e.args) == 2:
            recv = ex.ev(e.func.value, st)
            if recv.ty is STR:
                a, b = ex.ev(e.args[0], st), ex.ev(e.args[1], st)
                return V(repl_(recv.term, a.term, b.term), STR)
        return orig_call_node(ex, e, st)
    m.call_node = call_node
    c = Contract("disambiguate_keyword_sanitize_fname", source=("gapic/schema/api.py", "API.build.disambiguate_keyword_sanitize_fname"),
                 params={"full_path": "Str", "visited_names": "Map[Str,Opaque]"}, result="Str",
                 ensures=["result not in visited_names"])
    m.add_contract(c)
    m.globals["disambiguate_keyword_sanitize_fname"] = pyv(FuncV("contract", "disambiguate_keyword_sanitize_fname", recv=None))
    run.verify(m, c)
    run.assume("os.path.split / splitext / join and str.replace are uninterpreted in the proof that a registered file name is never one already taken; "
               "termination of the recursion is not proved")
    # the caller registers every descriptor under the returned name, in order
    fdef, h = find_def("gapic/schema/api.py", "API.build")
    src = ast.unparse(fdef)
    run.table("files.names:every-descriptor-registered-under-its-disambiguated-name",
              "fd.name = disambiguate_keyword_sanitize_fname(fd.name, pre_protos)\n        pre_protos[fd.name] = Proto.build(" in src, group="files.names:registered-under-fresh-name")


def structural(run: Run):
    # __init__.py completeness of the template tree: every directory (below the package root) that contains a python module template
    # or a sub-directory with one also has an __init__.py template
    for tdir in ("gapic/templates", "gapic/ads-templates"):
        root = os.path.join(REPO, tdir)
        # `%sub` is the (possibly empty) sub-package path: a template below it is rendered once per sub-package view, the empty one
        # included, so for completeness the segment collapses
        norm = lambda rel: "/".join(x for x in rel.split("/") if x != "%sub")
        dirs_with_py, dirs_with_init = set(), set()
        for dp, dn, fn in os.walk(root):
            rel = os.path.relpath(dp, root)
            if not rel.startswith("%namespace/"):
                continue
            if any(f.endswith(".py.j2") for f in fn):
                cur = norm(rel)
                while cur != "%namespace":
                    dirs_with_py.add(cur)
                    cur = cur.rsplit("/", 1)[0]
            if "__init__.py.j2" in fn:
                dirs_with_init.add(norm(rel))
        missing = sorted(dirs_with_py - dirs_with_init)
        run.table(f"files.tree:{tdir}:every-package-directory-has-an-__init__", not missing, detail=str(missing), group="files.tree:init-completeness")
    # get_response: private templates skipped except __init__.py.j2; proto3-optional advertised; names are keys of an ordered dict
    fdef, h = find_def(GEN, "Generator.get_response")
    src = ast.unparse(fdef)
    run.functions.append({"qualname": "Generator.get_response", "source": GEN, "sha256_16": h, "obligations": "AST patterns"})
    run.table("files.response:private-templates-skipped", "if filename.startswith('_') and filename != '__init__.py.j2':\n            continue" in src,
              group="files.response:private-skipped")
    run.table("files.response:advertises-proto3-optional", "res.supported_features |= CodeGeneratorResponse.Feature.FEATURE_PROTO3_OPTIONAL" in src,
              group="files.response:proto3-optional")
    run.table("files.response:file-names-unique-by-construction", "output_files: Dict[str, CodeGeneratorResponse.File] = OrderedDict()" in src
              and "file=[i for i in output_files.values()]" in src and src.count("output_files.update(") == 2, group="files.response:unique-names")
    fdef, h = find_def(GEN, "Generator._get_file")
    src = ast.unparse(fdef)
    run.table("files.response:empty-modules-skipped-except-markers", "if utils.empty(cgr_file.content) and (not fn.endswith(('py.typed', '__init__.py'))):\n        return {}" in src,
              detail=src[-300:], group="files.response:empty-skipped")
    fdef, h = find_def(GEN, "Generator._render_template")
    src = ast.unparse(fdef)
    run.table("files.response:one-file-per-target-proto", "for proto in api_schema.protos.values():" in src, group="files.response:per-proto")
    run.table("files.response:one-package-per-service", "for service in api_schema.services.values():" in src, group="files.response:per-service")


def naming_lemmas(run: Run):
    """Ground regex lemmas over the patterns read from Naming.build on every run."""
    from vf import regex2z3 as R
    fdef, h = find_def("gapic/schema/naming.py", "Naming.build")
    consts = {}
    for n in ast.walk(fdef):
        if isinstance(n, ast.Assign) and isinstance(n.targets[0], ast.Name) and n.targets[0].id in ("pattern", "version") \
                and isinstance(n.value, ast.Constant):
            consts[n.targets[0].id] = n.value.value
    run.functions.append({"qualname": "Naming.build (patterns)", "source": "gapic/schema/naming.py", "sha256_16": h, "obligations": "regex language lemmas"})
    ver = consts.get("version", "")
    m = re.fullmatch(r"\\\.\(\?P<version>(.*)\)", ver)
    run.table("files.naming:version-pattern-shape", bool(m), detail=ver, group="files.naming:version-language")
    if m:
        # the version segment language: v<digits>, optional point release p<digits>, optional stability alpha|beta with optional number
        spec = "v[0-9]+(p[0-9]+)?((alpha|beta)[0-9]*)?"
        res, w = R.equivalent(R.language(m.group(1)), R.language(spec))
        run.results.append(Result("files.naming:version-language == v<n>[p<n>][(alpha|beta)[<n>]]", "discharged" if res == "unsat" else ("open" if res == "sat" else "unknown"),
                                  "z3-re", 0, "lemma", detail=f"witness {w!r}" if w is not None else "", group="files.naming:version-language"))
        run._version_witness = w
    pat = consts.get("pattern", "")
    run.table("files.naming:package-pattern", pat == r"^((?P<namespace>[a-z0-9_.]+)\.)?(?P<name>[a-z0-9_]+)", detail=pat, group="files.naming:package-pattern")
    # the version is appended only when present; the unversioned form is what makes `<name>` alone the directory
    src = ast.unparse(fdef)
    run.table("files.naming:version-appended-iff-present", "if re.search(version, root_package):\n        pattern += version" in src, group="files.naming:package-pattern")
    run.table("files.naming:root-is-common-prefix", "root_package = os.path.commonprefix(tuple(proto_packages)).rstrip('.')" in src, group="files.naming:package-pattern")
    # the directory names derived from the parsed package: `<name>_<version>` (`<name>` alone when unversioned; the old naming uses `.`), and the
    # cumulative namespace packages - contracts on the real properties (they replaced an AST-text comparison that a harmless rewrite defeated)
    N = "gapic/schema/naming.py"
    m = SchemaModel()
    m.add_class("NewNaming", {"module_name": "Str", "version": "Str"})
    m.add_class("OldNaming", {"module_name": "Str", "version": "Str"})
    m.classes["Naming"].update({"namespace": "Seq[Str]"})
    cs = []
    for cls, sep in (("NewNaming", "_"), ("OldNaming", ".")):
        cs.append(Contract(f"{cls}.versioned_module_name", source=(N, f"{cls}.versioned_module_name"), params={"self": cls}, result="Str",
                           ensures=[f"result == (self.module_name + '{sep}' + self.version if self.version != '' else self.module_name)"]))
    step = "(self.namespace[i].lower() if i == 0 else {a}[i - 1] + '.' + self.namespace[i].lower())"
    cs.append(Contract("Naming.namespace_packages", source=(N, "Naming.namespace_packages"), params={"self": "Naming"}, result="Seq[Str]",
                       locals={"answer": "Seq[Str]"},
                       ensures=["len(result) == len(self.namespace)", "forall(lambda i: result[i] == " + step.format(a="result") + ", 0, len(self.namespace))"],
                       invariants={"for#1": ["len(answer) == _k", "forall(lambda i: answer[i] == " + step.format(a="answer") + ", 0, _k)"]}))
    for c in cs:
        m.add_contract(c)
    for c in cs:
        run.verify(m, c)


def render_safety(run: Run):
    """Template expressions taking the first element of a namespace-derived tuple raise (StrictUndefined) when the package has no
    namespace segment; each such site is an obligation that needs `namespace non-empty`, which the property's quantifier does not grant."""
    import jinja2
    from jinja2 import nodes
    n_sites = 0
    for tdir in ("gapic/templates", "gapic/ads-templates"):
        root = os.path.join(REPO, tdir)
        env = jinja2.Environment(extensions=["jinja2.ext.do"])
        for dp, _, fs in os.walk(root):
            for f in sorted(fs):
                if not f.endswith(".j2"):
                    continue
                rel = os.path.relpath(os.path.join(dp, f), REPO)
                try:
                    tree = env.parse(open(os.path.join(dp, f)).read())
                except Exception:     # noqa
                    continue
                for n in tree.find_all((nodes.Filter, nodes.Getitem)):
                    if isinstance(n, nodes.Filter) and n.name not in ("first", "last"):
                        continue
                    if isinstance(n, nodes.Getitem) and not (isinstance(n.arg, nodes.Const) and isinstance(n.arg.value, int)):
                        continue
                    base = n.node
                    if isinstance(base, nodes.Getattr) and base.attr in ("namespace", "module_namespace", "namespace_packages"):
                        n_sites += 1
                        run.results.append(Result(f"files.render:{rel}@L{n.lineno}:{base.attr}", "open", "jinja-ast", 0, "structural",
                                                  detail="first element of a possibly empty namespace tuple (StrictUndefined raises at output)",
                                                  group="files.render:first-namespace-segment"))
    if n_sites == 0:
        run.table("files.render:first-namespace-segment", True, group="files.render:first-namespace-segment")


def subpackage_tree(run: Run):
    """`exactly one types module per target proto file and one service package per service`, for files of proto sub-packages: the generator
    renders the %sub templates once per API object of the tree spanned by API.subpackages (recursively), and a file is rendered by the object
    whose subpackage_view equals the file's sub-package.  API.subpackages under contract: at view v (length n) the keys are exactly the n-th
    segments of the files strictly below v, and the value under k views v + (k,) over the same protos.  Lemma (over that contract, no code):
    a file below the view of an API object is below-or-at the view of one of its children, one level deeper - so by induction on
    len(file.subpackage) - len(view) every target file is reached at the view that equals its own sub-package."""
    from vf.model import pyv
    m = SchemaModel()
    m.add_class("Proto", {"meta": "Metadata", "file_to_generate": "Bool"})
    m.classes["Address"]["subpackage"] = "Seq[Str]"
    m.classes["API"].update({"protos": "Map[Str,Proto]", "subpackage_view": "Seq[Str]", "all_protos": "Map[Str,Proto]", "naming": "Naming",
                             "_fields": ["naming", "all_protos", "service_yaml_config", "subpackage_view"]})
    m.globals["collections"] = pyv(("module", "collections"))
    m.globals["dataclasses"] = pyv(("module", "dataclasses"))
    # stated elementwise (the code compares a slice; tuples are compared by value)
    m.add_spec("below", ["p", "view"], "len(p.meta.address.subpackage) > len(view) and forall(lambda i: p.meta.address.subpackage[i] == view[i], 0, len(view))")
    m.add_spec("extends", ["v2", "v", "k"], "len(v2) == len(v) + 1 and forall(lambda i: v2[i] == v[i], 0, len(v)) and v2[len(v)] == k")
    m.add_spec("prefix_of", ["v", "s"], "len(v) <= len(s) and forall(lambda i: v[i] == s[i], 0, len(v))")
    # API.protos: the files to generate whose sub-package starts with the view, each under its own key (read by contract from here on)
    cp = Contract("API.protos", source=("gapic/schema/api.py", "API.protos"), params={"self": "API"}, result="Map[Str,Proto]",
                  ensures=["forall(lambda k: (k in result) == (self.all_protos[k].file_to_generate and "
                           "prefix_of(self.subpackage_view, self.all_protos[k].meta.address.subpackage)), self.all_protos.keys())",
                           "forall(lambda k: k in self.all_protos and result[k] is self.all_protos[k], result.keys())"])
    m.add_contract(cp)
    run.verify(m, cp)
    seg = "p.meta.address.subpackage[len(self.subpackage_view)]"
    same = "{0}[k].all_protos is self.all_protos and {0}[k].naming is self.naming"
    c = Contract("API.subpackages", source=("gapic/schema/api.py", "API.subpackages"), params={"self": "API"}, result="Map[Str,API]",
                 locals={"answer": "Map[Str,API]"},
                 ensures=[f"forall(lambda p: implies(below(p, self.subpackage_view), {seg} in result), self.protos.values())",
                          "forall(lambda k: extends(result[k].subpackage_view, self.subpackage_view, k) and " + same.format("result") + ", result.keys())",
                          f"forall(lambda k: exists(lambda p: below(p, self.subpackage_view) and {seg} == k, self.protos.values()), result.keys())"],
                 invariants={"for#1": ["forall(lambda i: _seq[i] in answer, 0, _k)",
                                       "forall(lambda k: extends(answer[k].subpackage_view, self.subpackage_view, k) and " + same.format("answer") + ", answer.keys())",
                                       f"forall(lambda k: exists(lambda p: below(p, self.subpackage_view) and {seg} == k, self.protos.values()), answer.keys())"]})
    m.add_contract(c)
    run.verify(m, c)
    # the induction step, from the contract alone (the property `subpackages` is read by contract)
    m.classes["API"]["subpackages"] = "Map[Str,API]"
    fdef = ast.parse("def reach_step(api, p):\n    return api.subpackages\n").body[0]
    child = "result[p.meta.address.subpackage[len(api.subpackage_view)]]"
    lem = Contract("lemma.subpackage-tree-reaches-every-file:step", source=("<ghost>", "reach_step"), params={"api": "API", "p": "Proto"}, result="Map[Str,API]",
                   ghost={"key": "Str"},
                   requires=["key in api.protos and api.protos[key] is p", "len(p.meta.address.subpackage) > len(api.subpackage_view)"],
                   ensures=["p.meta.address.subpackage[len(api.subpackage_view)] in result",
                            f"prefix_of({child}.subpackage_view, p.meta.address.subpackage)",
                            f"len({child}.subpackage_view) == len(api.subpackage_view) + 1",
                            f"{child}.all_protos is api.all_protos",
                            # ... and the child's own `protos` (by the API.protos contract) still holds the file, under the same key
                            f"key in {child}.protos and {child}.protos[key] is p"])
    run.verify(m, lem, body_override=(fdef, "ghost"))
    # the base case: the root API object (empty view) holds exactly the files to generate
    m.classes["API"]["protos"] = "Map[Str,Proto]"
    fbase = ast.parse("def reach_base(api):\n    return api.protos\n").body[0]
    base = Contract("lemma.subpackage-tree-reaches-every-file:base", source=("<ghost>", "reach_base"), params={"api": "API"}, result="Map[Str,Proto]",
                    requires=["len(api.subpackage_view) == 0"],
                    ensures=["forall(lambda k: (k in result) == api.all_protos[k].file_to_generate, api.all_protos.keys())",
                             "forall(lambda k: k in api.all_protos and result[k] is api.all_protos[k], result.keys())"])
    run.verify(m, base, body_override=(fbase, "ghost"))
    # the generator walks exactly this tree: _render_template recurses over api_schema.subpackages.values() for %sub templates
    fdef2, h2 = find_def(GEN, "Generator._render_template")
    src = ast.unparse(fdef2)
    run.functions.append({"qualname": "Generator._render_template (sub-package recursion)", "source": GEN, "sha256_16": h2, "obligations": "AST pattern"})
    run.table("files.subpackages:render-recurses-over-API.subpackages",
              "for subpackage in api_schema.subpackages.values():" in src and "api_schema=subpackage" in src and "skip_subpackages = True" in src
              and "proto.meta.address.subpackage != api_schema.subpackage_view" in src and "service.meta.address.subpackage != api_schema.subpackage_view" in src,
              detail="%sub templates are rendered once per child of API.subpackages (recursively); per-proto and per-service templates skip files / services whose "
                     "sub-package differs from the view", group="files.subpackages:tree")
    run.assume(*m.assumptions)
    run.assume("the tree of API objects is finite because each level consumes one segment of some file's sub-package (termination of the recursion is not proved); "
               "cached_property: API.protos / API.subpackages are evaluated once per object and are functions of its fields")


def types_module_injectivity(run: Run):
    """`exactly one types module per target proto file` needs Proto.module_name to be injective on the target files; the real property
    body depends only on the base name of the (sanitised) file name."""
    fdef, h = find_def("gapic/schema/api.py", "Proto.module_name")
    src = ast.unparse(fdef.body[-1])
    run.functions.append({"qualname": "Proto.module_name", "source": "gapic/schema/api.py", "sha256_16": h, "obligations": "AST pattern"})
    base_only = "self.name.split('/')[-1]" in src
    run.results.append(Result("files.names:types-module-injective-on-target-files", "open" if base_only else "unknown", "ast", 0, "structural",
                              detail=f"module_name = {src!r}: a function of the base name only; two target files in different directories with "
                                     "the same base name get the same types module and the later one overwrites the earlier in get_response",
                              group="files.names:types-module-per-target-file"))


def filename_spec(template, ns, module_name, version, sub, service=None, proto=None):
    name = template[:-3]
    vm = module_name + ("_" + version if version else "")
    parts = []
    for seg in name.split("/"):
        if seg == "%namespace":
            parts += [n.lower() for n in ns]
        elif seg == "%sub":
            parts += list(sub)
        else:
            seg = seg.replace("%name_%version", vm).replace("%version", version).replace("%name", module_name)
            if service is not None:
                seg = seg.replace("%service", service)
            if proto is not None:
                seg = seg.replace("%proto", proto)
            parts.append(seg)
    return "/".join(p for p in parts if p != "")


def bounded_filenames(run: Run):
    from gapic.generator.generator import Generator
    from gapic.utils import Options
    from types import SimpleNamespace as NS
    g = Generator(Options.build(""))
    templates = [t for t in g._env.loader.list_templates() if t.endswith(".j2")]
    n, bad = 0, []
    for ns in ((), ("Acme",), ("Google", "Cloud"), ("a", "B", "c")):
        for version in ("", "v1", "v1beta1", "v1p1beta1"):
            for sub in ((), ("sub",)):
                naming = NS(namespace=ns, module_name="lab", version=version, versioned_module_name="lab" + ("_" + version if version else ""))
                api = NS(naming=naming, subpackage_view=sub)
                for t in templates:
                    ctx = {}
                    if "%service" in t:
                        ctx["service"] = NS(module_name="my_svc")
                    if "%proto" in t:
                        ctx["proto"] = NS(module_name="my_proto")
                    n += 1
                    got = g._get_filename(t, api_schema=api, context=ctx)
                    want = filename_spec(t, ns, "lab", version, sub, ctx.get("service") and "my_svc", ctx.get("proto") and "my_proto")
                    ok = got == want and not got.startswith("/") and "//" not in got and all(s not in ("", ".", "..") for s in got.split("/")) and "%" not in got
                    if not ok:
                        bad.append({"template": t, "namespace": ns, "version": version, "sub": sub, "got": got, "want": want})
    run.bounded.append({"what": "Generator._get_filename == segment-wise substitution; relative, normalised, no leftover variable",
                        "bound": f"{n} cases: 4 namespaces x 4 versions x 2 sub-packages x {len(templates)} shipped templates", "cases": n, "failures": bad[:4]})
    if bad:
        run.results.append(Result("files.names:_get_filename", "open", "enumeration", 0, "bounded", detail=str(bad[:2]), group="files.names:_get_filename"))
        run._bounded_fail = bad[0]


_CACHE = {}


def _scenarios():
    if "f" not in _CACHE:
        from vf.genlab import run_isolated
        _CACHE["f"] = run_isolated("props.C11_native", "scenarios")
    return _CACHE["f"]


def witness_still_fails(k):
    f = _scenarios()
    return any(x.get("known") == k["witness"] for x in f["failures"])


def run(run: Run):
    run.witness_check = witness_still_fails
    stage1(run)
    sanitised_names(run)
    structural(run)
    naming_lemmas(run)
    render_safety(run)
    types_module_injectivity(run)
    subpackage_tree(run)
    bounded_filenames(run)
    run.native_standin("props.C11_native", "options_bounded",
                       "BOUNDED: the real Options.build over all option strings of <= 3 items from a 12-item alphabet (repeated scalar overrides, list-valued namespace, "
                       "flags, unknown keys, blanks): last scalar value wins, namespace values concatenate, unknown items are ignored", group="native.C11:options")
    run.native_standin("props.C11_native", "scenarios", "requests over namespaces / versions / target and dependency files / option strings: file set checked clause by clause")
    run.not_decided.append("Naming.build's regex-based package parsing and API.build's file flags are exercised by the native stand-in only")


def falsify(run, group, info):
    b = getattr(run, "_bounded_fail", None)
    if b is not None:
        return {"kind": "bounded", "failure": b}, True
    f = _scenarios()
    fails = [x for x in f["failures"] if not x.get("known")]
    return ({"kind": "files", "failures": fails[:6]}, True) if fails else (None, False)


def replay(path):
    import json
    from vf.genlab import run_isolated
    f = run_isolated("props.C11_native", "scenarios")
    _g = run_isolated("props.C11_native", "options_bounded")
    f = {"cases": f.get("cases", 0) + _g.get("cases", 0), "failures": list(f["failures"]) + list(_g["failures"])}
    fails = [x for x in f["failures"] if not x.get("known")]
    print("file-set scenarios ->", json.dumps(fails[:4]) if fails else "conform (known findings aside)")
    return 1 if fails else 0
