"""C07 replay for the emitted pagers: a generated library with list- and map-paged methods, driven over a loopback channel
with scripted page histories (sync and asyncio).  Bounded; never counted as proof."""
import asyncio, itertools


def lab_files():
    from vf import genlab as G
    resf = G.new_file("acme/lab/v1/resources.proto", "acme.lab.v1")
    G.add_message(resf, "Widget", [G.F("name", 1, G.T.TYPE_STRING)])
    fd = G.new_file("acme/lab/v1/lab.proto", "acme.lab.v1", deps=G.STD_DEPS + ["acme/lab/v1/resources.proto"])
    # items declared in ANOTHER file of the same package (resources.proto / service file split)
    G.add_message(fd, "ListWidgetsResp", [G.F("widgets", 1, G.T.TYPE_MESSAGE, label=G.REPEATED, type_name=".acme.lab.v1.Widget"), G.F("next_page_token", 2, G.T.TYPE_STRING)])
    G.add_message(fd, "Item", [G.F("name", 1, G.T.TYPE_STRING)])
    G.add_message(fd, "ListReq", [G.F("parent", 1, G.T.TYPE_STRING), G.F("page_size", 2, G.T.TYPE_INT32), G.F("page_token", 3, G.T.TYPE_STRING),
                                  G.F("filter", 4, G.T.TYPE_STRING)])
    G.add_message(fd, "ListResp", [G.F("total_size", 1, G.T.TYPE_INT32),
                                   G.F("items", 2, G.T.TYPE_MESSAGE, label=G.REPEATED, type_name=".acme.lab.v1.Item"),
                                   G.F("other", 3, G.T.TYPE_STRING, label=G.REPEATED), G.F("next_page_token", 4, G.T.TYPE_STRING)])
    mr = G.add_message(fd, "MapResp", [G.F("next_page_token", 2, G.T.TYPE_STRING)])
    e = mr.nested_type.add(name="ItemsEntry")
    e.field.append(G.F("key", 1, G.T.TYPE_STRING)); e.field.append(G.F("value", 2, G.T.TYPE_MESSAGE, type_name=".acme.lab.v1.Item"))
    e.options.map_entry = True
    mr.field.insert(0, G.F("items", 1, G.T.TYPE_MESSAGE, label=G.REPEATED, type_name=".acme.lab.v1.MapResp.ItemsEntry"))
    svc = G.add_service(fd, "Lab")
    G.add_method(svc, "ListThings", ".acme.lab.v1.ListReq", ".acme.lab.v1.ListResp", http=("get", "/v1/{parent=p/*}/things"))
    G.add_method(svc, "ListMap", ".acme.lab.v1.ListReq", ".acme.lab.v1.MapResp", http=("get", "/v1/{parent=p/*}/map"))
    G.add_method(svc, "ListWidgets", ".acme.lab.v1.ListReq", ".acme.lab.v1.ListWidgetsResp", http=("get", "/v1/{parent=p/*}/widgets"))
    # Compute-style: every field declared proto3 `optional` (tokens and size sit in synthetic oneofs) - still paginated
    orq = G.add_message(fd, "OptReq", [G.F("parent", 1, G.T.TYPE_STRING), G.F("page_size", 2, G.T.TYPE_INT32, proto3_optional=True, oneof_index=0),
                                       G.F("page_token", 3, G.T.TYPE_STRING, proto3_optional=True, oneof_index=1)])
    orq.oneof_decl.add(name="_page_size"); orq.oneof_decl.add(name="_page_token")
    ors = G.add_message(fd, "OptResp", [G.F("items", 1, G.T.TYPE_MESSAGE, label=G.REPEATED, type_name=".acme.lab.v1.Item"),
                                        G.F("next_page_token", 2, G.T.TYPE_STRING, proto3_optional=True, oneof_index=0)])
    ors.oneof_decl.add(name="_next_page_token")
    G.add_method(svc, "ListOpt", ".acme.lab.v1.OptReq", ".acme.lab.v1.OptResp", http=("get", "/v1/{parent=p/*}/opt"))
    # a paginated rpc whose request and response are plain protobuf types of another package
    G.add_method(svc, "ListOps", ".google.longrunning.ListOperationsRequest", ".google.longrunning.ListOperationsResponse", http=("get", "/v1/{name=ops}"))
    return [resf, fd]


HISTORIES = [
    [(["a", "b"], "t1"), ([], "t2"), (["c"], "")],
    [(["a"], "")],
    [([], "x"), ([], "y"), (["z", "w", "v"], "")],
    [(["a"], "t"), (["b"], "t"), (["c"], "")],          # the same token twice
]


def pager_scenarios():
    from vf import genlab as G
    from google.auth.credentials import AnonymousCredentials
    failures = []
    api, res = G.generate(lab_files(), "autogen-snippets=false")
    with G.materialised(res):
        from acme import lab_v1
        from acme.lab_v1.services.lab.transports import LabGrpcTransport
        for hi, hist in enumerate(HISTORIES):
            for method in ("list_things", "list_map"):
                calls = []

                def reply(i):
                    names, tok = hist[i]
                    if method == "list_things":
                        return lab_v1.ListResp(items=[lab_v1.Item(name=n) for n in names], other=["o"], next_page_token=tok, total_size=100 + i)
                    return lab_v1.MapResp(items={n: lab_v1.Item(name=n) for n in names}, next_page_token=tok)

                def handler(kind, path, raw, md, deser, timeout):
                    calls.append((lab_v1.ListReq.deserialize(raw), tuple(m for m in md if m[0] == "x-test"), timeout))
                    r = reply(len(calls) - 1)
                    return deser(type(r).serialize(r))
                client = lab_v1.LabClient(transport=LabGrpcTransport(channel=G.fake_channel(handler), credentials=AnonymousCredentials()))
                req = lab_v1.ListReq(parent="p/1", page_size=7, filter="f")
                pager = getattr(client, method)(request=req, timeout=12.5, metadata=(("x-test", "1"),), retry=None)
                got, seen_sizes = [], []
                it = iter(pager)
                while True:
                    try:
                        x = next(it)
                    except StopIteration:
                        break
                    got.append(x[0] if method == "list_map" else x.name)
                    if method == "list_things":
                        seen_sizes.append((got[-1], pager.total_size))
                want = [n for names, _ in hist for n in names]
                label = f"history#{hi} sync {method}"
                if method == "list_map":          # map iteration order within a page is protobuf's, not insertion order
                    got, want = sorted(got), sorted(want)
                if got != want:
                    failures.append({"case": label, "what": "items", "got": got, "want": want})
                if len(calls) != len(hist):
                    failures.append({"case": label, "what": "number of calls", "got": len(calls), "want": len(hist)})
                toks = [c[0].page_token for c in calls]
                if toks != [""] + [t for _, t in hist[:-1]][:len(toks) - 1]:
                    failures.append({"case": label, "what": "page tokens sent", "got": toks})
                for c in calls:
                    if (c[0].parent, c[0].page_size, c[0].filter) != ("p/1", 7, "f") or c[1] != (("x-test", "1"),) or c[2] != 12.5:
                        failures.append({"case": label, "what": "other request fields / call options changed", "got": str(c)})
                if method == "list_things":
                    exp = [(n, 100 + i) for i, (names, _) in enumerate(hist) for n in names]
                    if seen_sizes != exp:
                        failures.append({"case": label, "what": "pager attribute is not the most recent page's", "got": seen_sizes, "want": exp})
                if req.page_token != "":
                    failures.append({"case": label, "what": "caller's request mutated"})
        # the all-optional shape
        opages = [(["a"], "t1"), (["b", "c"], "")]
        ocalls = []

        def opt_handler(kind, path, raw, md, deser, timeout):
            ocalls.append(lab_v1.OptReq.deserialize(raw))
            names, tok = opages[len(ocalls) - 1]
            r = lab_v1.OptResp(items=[lab_v1.Item(name=n_) for n_ in names], **({"next_page_token": tok} if tok else {}))
            return deser(lab_v1.OptResp.serialize(r))
        oc = lab_v1.LabClient(transport=LabGrpcTransport(channel=G.fake_channel(opt_handler), credentials=AnonymousCredentials()))
        try:
            res_ = oc.list_opt(request=lab_v1.OptReq(parent="p/1", page_size=2))
            if not type(res_).__name__.endswith("Pager"):
                failures.append({"case": "sync list_opt (proto3-optional tokens)", "what": "a method that fulfils the pagination rules is not exposed as paginated", "returned": type(res_).__name__})
            else:
                got = [x.name for x in res_]
                if got != ["a", "b", "c"] or [c_.page_token for c_ in ocalls] != ["", "t1"]:
                    failures.append({"case": "sync list_opt (proto3-optional tokens)", "what": "items / tokens", "got": got, "tokens": [c_.page_token for c_ in ocalls]})
        except Exception as e:      # noqa
            failures.append({"case": "sync list_opt (proto3-optional tokens)", "what": "the call raised", "error": repr(e)[:200]})
        # the plain-protobuf paginated rpc: pages are followed, the caller's request message is left alone
        from google.longrunning import operations_pb2
        pages = [(["o1", "o2"], "t1"), (["o3"], "")]
        calls = []

        def ohandler(kind, path, raw, md, deser, timeout):
            calls.append(operations_pb2.ListOperationsRequest.FromString(raw))
            names, tok = pages[len(calls) - 1]
            return deser(operations_pb2.ListOperationsResponse(operations=[operations_pb2.Operation(name=n) for n in names], next_page_token=tok).SerializeToString())
        client = lab_v1.LabClient(transport=LabGrpcTransport(channel=G.fake_channel(ohandler), credentials=AnonymousCredentials()))
        oreq = operations_pb2.ListOperationsRequest(name="ops", filter="f", page_size=3)
        try:
            got = [o.name for o in client.list_ops(request=oreq)]
            if got != ["o1", "o2", "o3"] or [c.page_token for c in calls] != ["", "t1"] or any((c.name, c.filter, c.page_size) != ("ops", "f", 3) for c in calls):
                failures.append({"case": "sync list_ops (plain protobuf request)", "what": "items / tokens / other request fields", "got": got, "calls": [str(c) for c in calls]})
            if oreq.page_token != "":
                failures.append({"case": "sync list_ops (plain protobuf request)", "what": "caller's request mutated"})
        except Exception as e:      # noqa
            failures.append({"case": "sync list_ops (plain protobuf request)", "what": "the paginated call raised", "error": repr(e)[:200]})
    return failures


def pager_scenarios_wrapped():
    f = pager_scenarios()
    return {"cases": len(HISTORIES) * 2 + 2, "failures": f}
