"""C05 replay: generated library, flattened arguments vs explicit request on the wire (sync + asyncio).  Bounded."""
import asyncio


def files():
    from vf import genlab as G
    dep = G.new_file("acme/dep/v1/dep.proto", "acme.dep.v1")
    G.add_message(dep, "Inner", [G.F("count", 1, G.T.TYPE_INT32), G.F("label", 2, G.T.TYPE_STRING)])
    G.add_message(dep, "DepReq", [G.F("name", 1, G.T.TYPE_STRING), G.F("tags", 2, G.T.TYPE_STRING, label=G.REPEATED),
                                  G.F("nums", 3, G.T.TYPE_INT32, label=G.REPEATED), G.F("inner", 4, G.T.TYPE_MESSAGE, type_name=".acme.dep.v1.Inner")])
    # a request declared in resource.proto whose flattened *scalar* field is called `resource`: the parameter name equals the module name
    rs = G.new_file("acme/lab/v1/resource.proto", "acme.lab.v1")
    G.add_message(rs, "Hint", [G.F("level", 1, G.T.TYPE_INT32)])
    G.add_message(rs, "GetResourceRequest", [G.F("resource", 1, G.T.TYPE_STRING), G.F("view", 2, G.T.TYPE_STRING),
                                             G.F("hint", 3, G.T.TYPE_MESSAGE, type_name=".acme.lab.v1.Hint")])
    fd = G.new_file("acme/lab/v1/lab.proto", "acme.lab.v1", deps=G.STD_DEPS + ["acme/dep/v1/dep.proto", "acme/lab/v1/resource.proto"])
    G.add_message(fd, "Spec", [G.F("size", 1, G.T.TYPE_INT32), G.F("class", 2, G.T.TYPE_STRING)])
    req = G.add_message(fd, "Req", [G.F("parent", 1, G.T.TYPE_STRING), G.F("count", 2, G.T.TYPE_INT32, proto3_optional=True, oneof_index=0),
                                    G.F("force", 3, G.T.TYPE_BOOL, proto3_optional=True, oneof_index=1),
                                    G.F("spec", 4, G.T.TYPE_MESSAGE, type_name=".acme.lab.v1.Spec", required=True),
                                    G.F("tags", 5, G.T.TYPE_STRING, label=G.REPEATED), G.F("type", 7, G.T.TYPE_STRING, required=True)])
    req.oneof_decl.add(name="_count"); req.oneof_decl.add(name="_force")
    e = req.nested_type.add(name="LabelsEntry")
    e.field.append(G.F("key", 1, G.T.TYPE_STRING)); e.field.append(G.F("value", 2, G.T.TYPE_STRING)); e.options.map_entry = True
    req.field.append(G.F("labels", 6, G.T.TYPE_MESSAGE, label=G.REPEATED, type_name=".acme.lab.v1.Req.LabelsEntry"))
    G.add_message(fd, "Resp", [G.F("x", 1, G.T.TYPE_STRING)])
    svc = G.add_service(fd, "Lab")
    G.add_method(svc, "Update", ".acme.lab.v1.Req", ".acme.lab.v1.Resp", http=("post", "/v1/{parent=p/*}:u"), body="*",
                 signatures=["parent,count,force,spec", "parent,tags,labels,type,spec.size", "parent,spec.class"])
    G.add_method(svc, "Dep", ".acme.dep.v1.DepReq", ".acme.lab.v1.Resp", http=("post", "/v1/{name=p/*}:d"), body="*", signatures=["name,tags"])
    G.add_method(svc, "Perm", ".google.iam.v1.TestIamPermissionsRequest", ".acme.lab.v1.Resp", http=("post", "/v1/{resource=p/*}:t"), body="*",
                 signatures=["resource,permissions"])
    G.add_method(svc, "Wait", ".google.longrunning.WaitOperationRequest", ".acme.lab.v1.Resp", http=("post", "/v1/{name=p/*}:w"), body="*",
                 signatures=["name,timeout.seconds"])
    G.add_method(svc, "GetResource", ".acme.lab.v1.GetResourceRequest", ".acme.lab.v1.Resp", http=("get", "/v1/{resource=r/*}"), signatures=["resource,view,hint"])
    fd.dependency.append("google/iam/v1/iam_policy.proto")
    return [dep, rs, fd]


def drop_method(fs, names):
    svc = fs[-1].service[0]
    keep = [m for m in svc.method if m.name not in names]
    del svc.method[:]
    svc.method.extend(keep)
    return fs


def files_two_repeated():
    fs = files()
    from google.api import client_pb2
    m = fs[-1].service[0].method[1]
    del m.options.Extensions[client_pb2.method_signature][:]
    m.options.Extensions[client_pb2.method_signature].append("name,tags,nums")
    return drop_method(fs, ["Wait"])


def _drive(fs, cases, method=None, req_cls_path=None, compile_only=False):
    groups = cases if method is None else [(method, req_cls_path, cases)]
    return _drive_groups(fs, groups, compile_only)


def _drive_groups(fs, groups, compile_only=False):
    """cases: list of (kwargs, explicit-request kwargs).  Returns failures comparing bytes on the wire, sync and async."""
    from vf import genlab as G
    from google.auth.credentials import AnonymousCredentials
    import grpc
    failures = []
    from google.iam.v1 import iam_policy_pb2
    api, res = G.generate(fs, "autogen-snippets=false", to_generate=["acme/lab/v1/lab.proto", "acme/lab/v1/resource.proto"], extra_dep_modules=(iam_policy_pb2,))
    for f in res.file:
        if f.name.endswith(("client.py", "async_client.py")):
            try:
                compile(f.content, f.name, "exec")
            except SyntaxError as e:
                failures.append({"case": "generated module does not compile", "file": f.name, "error": str(e)})
    if failures or compile_only:
        return failures
    with G.materialised(res):
        from acme import lab_v1
        from acme.lab_v1.services.lab.transports import LabGrpcTransport, LabGrpcAsyncIOTransport
        sent = []

        def handler(kind, path, raw, md, deser, timeout):
            sent.append(raw)
            return deser(lab_v1.Resp.serialize(lab_v1.Resp(x="ok")))
        client = lab_v1.LabClient(transport=LabGrpcTransport(channel=G.fake_channel(handler), credentials=AnonymousCredentials()))

        aclient = lab_v1.LabAsyncClient(transport=LabGrpcAsyncIOTransport(channel=G.fake_aio_channel(handler), credentials=AnonymousCredentials()))
        # the parameters are offered in declared order: request, then every signature entry in order of first appearance
        import inspect, keyword
        svc_pb = [f for f in fs if f.service][0].service[0]
        from google.api import client_pb2
        for mpb in svc_pb.method:
            order = []
            for sig in mpb.options.Extensions[client_pb2.method_signature]:
                for entry in [x for x in sig.split(",") if x]:
                    leaf = entry.rsplit(".", 1)[-1]
                    if leaf not in order:
                        order.append(leaf)
            pyname = "".join("_" + c.lower() if c.isupper() else c for c in mpb.name).lstrip("_")
            for which, cl in (("sync", client), ("async", aclient)):
                params = [p for p in inspect.signature(getattr(cl, pyname)).parameters if p not in ("retry", "timeout", "metadata")]
                got = [p[:-1] if p.endswith("_") and p[:-1] in order else p for p in params]
                if got != ["request"] + order:
                    failures.append({"case": f"{which} {pyname}: parameters are not offered in declared order", "declared": ["request"] + order, "offered": params})
        for method, req_cls_path, cases in groups:
            mod = __import__(req_cls_path[0], fromlist=["x"])
            Req = getattr(mod, req_cls_path[1])
            for kw, build in cases:
                expect_req = build(Req, lab_v1)
                ser = (type(expect_req).serialize(expect_req) if hasattr(type(expect_req), "serialize") else expect_req.SerializeToString())
                for which, cl in (("sync", client), ("async", aclient)):
                    sent.clear()
                    try:
                        r = getattr(cl, method)(**kw)
                        if which == "async" and asyncio.iscoroutine(r):
                            asyncio.run(r)
                    except Exception as ex:     # noqa
                        failures.append({"case": f"{which} {method}(**{kw!r})", "error": repr(ex)[:300]})
                        continue
                    if not sent or sent[0] != ser:
                        failures.append({"case": f"{which} {method}(**{kw!r})", "sent": repr(sent[:1]), "expected": repr(ser)})
                # both request and a flattened argument -> ValueError, nothing sent
                if kw:
                    for which, cl in (("sync", client), ("async", aclient)):
                        sent.clear()
                        try:
                            r = getattr(cl, method)(request=expect_req, **kw)
                            if which == "async" and asyncio.iscoroutine(r):
                                asyncio.run(r)
                            failures.append({"case": f"{which} {method}(request=..., **{kw!r})", "error": "no ValueError"})
                        except ValueError:
                            if sent:
                                failures.append({"case": f"{which} {method}(request=..., **{kw!r})", "error": "something was sent before the ValueError"})
                        except Exception as ex:     # noqa
                            failures.append({"case": f"{which} {method}(request=..., **{kw!r})", "error": repr(ex)[:200]})
    return failures


def scenarios():
    main = [
        (dict(parent="p/1", count=0), lambda R, L: R(parent="p/1", count=0)),
        (dict(parent="p/1", force=False), lambda R, L: R(parent="p/1", force=False)),
        (dict(parent="p/1", count=3, force=True, spec={"size": 2}), lambda R, L: R(parent="p/1", count=3, force=True, spec=L.Spec(size=2))),
        (dict(parent="", spec=None), lambda R, L: R(parent="")),
        (dict(parent="p/1", tags=["a", "b"], labels={"k": "v"}, type_="t", size=5), lambda R, L: R(parent="p/1", tags=["a", "b"], labels={"k": "v"}, type_="t", spec=L.Spec(size=5))),
        (dict(tags=[], labels={}), lambda R, L: R()),
        # a dotted signature entry whose leaf is a reserved word: the parameter (and the attribute assigned) is `class_`
        (dict(parent="p/2", class_="c"), lambda R, L: R(parent="p/2", spec=L.Spec(class_="c"))),
        ({}, lambda R, L: R()),
    ]
    pb2 = [(dict(resource="p/1", permissions=["x", "y"]), lambda R, L: R(resource="p/1", permissions=["x", "y"])),
           (dict(resource="p/1"), lambda R, L: R(resource="p/1")), (dict(permissions=[]), lambda R, L: R()), ({}, lambda R, L: R())]
    shadow = [(dict(resource="r/1", view="FULL"), lambda R, L: R(resource="r/1", view="FULL")), (dict(resource="r/1"), lambda R, L: R(resource="r/1")),
              # a message-typed flattened field of a request that is declared in another file of the same package
              (dict(resource="r/1", hint={"level": 3}), lambda R, L: R(resource="r/1", hint=L.Hint(level=3))),
              ({}, lambda R, L: R())]
    fails = _drive_groups(drop_method(files(), ["Dep", "Wait"]),
                          [("update", ("acme.lab_v1", "Req"), main), ("perm", ("google.iam.v1.iam_policy_pb2", "TestIamPermissionsRequest"), pb2),
                           ("get_resource", ("acme.lab_v1", "GetResourceRequest"), shadow)])
    return {"cases": 2 * (len(main) + len(pb2) + len(shadow)) * 2, "failures": fails}


def witness_two_repeated_pb2():
    cases = [(dict(name="p/1", tags=["x"], nums=[1, 2]), lambda R, L: R(name="p/1", tags=["x"], nums=[1, 2]))]
    return _drive(files_two_repeated(), cases, "dep", ("acme.dep.v1.dep_pb2", "DepReq"), compile_only=True)


def witness_dotted_pb2():
    def build(R, L):
        r = R(name="p/1")
        r.timeout.seconds = 5
        return r
    cases = [(dict(name="p/1", seconds=5), build)]
    return _drive(drop_method(files(), ["Dep"]), cases, "wait", ("google.longrunning.operations_pb2", "WaitOperationRequest"))


def order_bounded():
    """Bounded check of the real Method._fields_mapping / flattened_fields: every method_signature set made of one or two signatures with up to
    3 entries over the fields {a REQUIRED, b, c REQUIRED, sub.x, sub.y REQUIRED} - the keys come in order of first appearance."""
    import itertools
    from vf import genlab as G
    fd = G.new_file("acme/ord/v1/ord.proto", "acme.ord.v1")
    G.add_message(fd, "Sub", [G.F("x", 1, G.T.TYPE_STRING), G.F("y", 2, G.T.TYPE_STRING, required=True)])
    G.add_message(fd, "Req", [G.F("a", 1, G.T.TYPE_STRING, required=True), G.F("b", 2, G.T.TYPE_STRING), G.F("c", 3, G.T.TYPE_INT32, required=True),
                              G.F("sub", 4, G.T.TYPE_MESSAGE, type_name=".acme.ord.v1.Sub")])
    G.add_message(fd, "Resp", [G.F("x", 1, G.T.TYPE_STRING)])
    svc = G.add_service(fd, "Ord")
    entries = ["a", "b", "c", "sub.x", "sub.y"]
    singles = [list(p) for n in (1, 2, 3) for p in itertools.permutations(entries, n)]
    sets = [[s] for s in singles] + [[s1, s2] for s1 in singles if len(s1) <= 2 for s2 in singles if len(s2) <= 2 and s1 != s2]
    # ... and the empty signature ("the method can be called without arguments") next to a non-empty one, in either position
    sets += [[[], s_] for s_ in singles[:25]] + [[s_, []] for s_ in singles[:25]] + [[[]]]
    want = {}
    for i, sigs in enumerate(sets):
        G.add_method(svc, f"M{i}", ".acme.ord.v1.Req", ".acme.ord.v1.Resp", signatures=[",".join(s) for s in sigs])
        order = []
        for s in sigs:
            for e in s:
                if e not in order:
                    order.append(e)
        want[f"M{i}"] = order
    api, _ = G.build_api([fd], "autogen-snippets=false")
    failures = []
    methods = api.services["acme.ord.v1.Ord"].methods
    for name, order in want.items():
        got = list(methods[name].flattened_fields)
        if got != order:
            failures.append({"case": "Method.flattened_fields is not in order of first appearance", "signatures": list(
                fd.service[0].method[int(name[1:])].options.Extensions[__import__("google.api.client_pb2", fromlist=["x"]).method_signature]), "keys": got, "declared": order})
            if len(failures) > 5:
                break
    return {"cases": len(want), "failures": failures}
