"""C10 cover: the real plugin entry point under different PYTHONHASHSEED values / working directories, responses compared bytewise."""
import hashlib, os, subprocess, sys, tempfile


def request_bytes(tie_resources=False):
    from vf import genlab as G
    from google.protobuf.compiler import plugin_pb2
    T = G.T
    fd = G.new_file("acme/lab/v1/lab.proto", "acme.lab.v1")
    for i, (n, typ, pat) in enumerate([("Shelf", "lab.example.com/Shelf", "shelves/{shelf}"), ("Book", "lab.example.com/Book", "shelves/{shelf}/books/{book}"),
                                       ("Blob", "store.example.com/Blob", "buckets/{bucket}/blobs/{blob}"), ("Key", "kms.example.com/Key", "keys/{key}"),
                                       ("IPRange", "net.example.com/IPRange", "ranges/{range}")] +
                                      ([("IpRange", "net.example.com/IpRange", "ipranges/{range}")] if tie_resources else [])):
        G.add_message(fd, n, [G.F("name", 1, T.TYPE_STRING), G.F("other", 2, T.TYPE_STRING, resource_ref="kms.example.com/Key")], resource=(typ, pat))
    if tie_resources:
        G.add_message(fd, "Thing", [G.F("name", 1, T.TYPE_STRING)], resource=("a.example.com/Thing", "as/{a}"))
        G.add_message(fd, "OtherThing", [G.F("name", 1, T.TYPE_STRING)], resource=("b.example.com/Thing", "bs/{b}"))
    fields = [G.F("name", 1, T.TYPE_STRING, required=True), G.F("alpha", 2, T.TYPE_STRING, required=True), G.F("beta", 3, T.TYPE_INT32, required=True),
              G.F("gamma", 4, T.TYPE_BOOL, required=True), G.F("delta", 5, T.TYPE_STRING, required=True)]
    refs = ["lab.example.com/Shelf", "lab.example.com/Book", "store.example.com/Blob", "net.example.com/IPRange"]
    if tie_resources:
        refs += ["a.example.com/Thing", "b.example.com/Thing", "net.example.com/IpRange"]
    for i, r in enumerate(refs):
        fields.append(G.F(f"ref{i}", 10 + i, T.TYPE_STRING, resource_ref=r))
    # strings formatted as UUID4 (AIP-4235): their mock values are printed into the generated tests and samples
    fields.append(G.F("request_id", 30, T.TYPE_STRING, uuid4=True))
    G.add_message(fd, "Req", fields)
    G.add_message(fd, "Resp", [G.F("x", 1, T.TYPE_STRING), G.F("uid", 2, T.TYPE_STRING, uuid4=True)])
    for s in ("Lab", "Archive", "Zoo"):
        svc = G.add_service(fd, s)
        for m in ("Get", "List", "Purge"):
            G.add_method(svc, m + s, ".acme.lab.v1.Req", ".acme.lab.v1.Resp", http=("get", "/v1/{name=%s/*}" % (s.lower() + m.lower())), signatures=["name,alpha", "name,request_id"])
        # several path variables in one binding (the implicit routing header lists them in template order)
        G.add_method(svc, "Locate" + s, ".acme.lab.v1.Req", ".acme.lab.v1.Resp", http=("get", "/v1/x/{name}/zones/{alpha}/racks/{delta}/units/{ref0}/%s" % s.lower()))
    req = plugin_pb2.CodeGeneratorRequest(parameter="transport=grpc+rest,metadata")
    from google.iam.v1 import iam_policy_pb2
    from google.cloud.location import locations_pb2
    req.proto_file.extend(G.dep_files((iam_policy_pb2, locations_pb2)))
    req.proto_file.append(fd)
    req.file_to_generate.append(fd.name)
    # five message-only sub-packages below the versioned package: their files are appended to the response per sub-package
    for sub in ("alpha", "beta", "gamma", "delta", "epsilon"):
        sf = G.new_file(f"acme/lab/v1/{sub}/{sub}_types.proto", f"acme.lab.v1.{sub}")
        G.add_message(sf, sub.capitalize() + "Info", [G.F("name", 1, T.TYPE_STRING), G.F("n", 2, T.TYPE_INT32)])
        req.proto_file.append(sf)
        req.file_to_generate.append(sf.name)
    return req.SerializeToString()


def run_plugin(reqfile, seed, cwd, retry_cfg):
    env = dict(os.environ, PYTHONHASHSEED=str(seed))
    code = ("import sys\nfrom gapic.cli.generate import generate\n"
            "sys.argv=['gapic','--request',%r,'--output',%r]\ngenerate()" % (reqfile, reqfile + f".out{seed}"))
    p = subprocess.run([sys.executable, "-c", code], cwd=cwd, env=env, capture_output=True, text=True)
    out = reqfile + f".out{seed}"
    if not os.path.exists(out):
        return None, p.stderr[-500:]
    data = open(out, "rb").read()
    os.unlink(out)
    return data, ""


def compare(tie, seeds, selective=False, siblings=False):
    from google.protobuf.compiler import plugin_pb2
    import json
    d = tempfile.mkdtemp(prefix="c10_")
    try:
        cfg = os.path.join(d, "retry.json")
        json.dump({"methodConfig": [{"name": [{"service": "acme.lab.v1.Lab", "method": "GetLab"}], "timeout": "5s", "retryPolicy": {
            "initialBackoff": "0.1s", "maxBackoff": "1s", "backoffMultiplier": 2, "retryableStatusCodes": ["UNAVAILABLE", "ABORTED", "INTERNAL", "DEADLINE_EXCEEDED", "UNKNOWN"]}}]}, open(cfg, "w"))
        raw = request_bytes(tie)
        req = plugin_pb2.CodeGeneratorRequest.FromString(raw)
        req.parameter += f",retry-config={cfg}"
        # a service yaml with mixin APIs and several http rules per mixin service
        ycfg = os.path.join(d, "service.yaml")
        publishing = {"publishing": {"library_settings": [{"version": "acme.lab.v1", "python_settings": {"common": {"selective_gapic_generation": {
            "methods": ["acme.lab.v1.Lab.GetLab", "acme.lab.v1.Lab.LocateLab", "acme.lab.v1.Zoo.ListZoo"]}}}}]}} if selective else {}
        json.dump({**publishing, "type": "google.api.Service", "config_version": 3, "name": "lab.example.com",
                   "apis": [{"name": "google.cloud.location.Locations"}, {"name": "google.longrunning.Operations"}, {"name": "google.iam.v1.IAMPolicy"}],
                   "http": {"rules": [{"selector": "google.cloud.location.Locations.ListLocations", "get": "/v1/{name=projects/*}/locations"},
                                      {"selector": "google.cloud.location.Locations.GetLocation", "get": "/v1/{name=projects/*/locations/*}"},
                                      {"selector": "google.longrunning.Operations.ListOperations", "get": "/v1/{name=operations}"},
                                      {"selector": "google.longrunning.Operations.GetOperation", "get": "/v1/{name=operations/*}"},
                                      {"selector": "google.longrunning.Operations.DeleteOperation", "delete": "/v1/{name=operations/*}"},
                                      {"selector": "google.longrunning.Operations.CancelOperation", "post": "/v1/{name=operations/*}:cancel", "body": "*"},
                                      {"selector": "google.iam.v1.IAMPolicy.SetIamPolicy", "post": "/v1/{resource=shelves/*}:setIamPolicy", "body": "*"},
                                      {"selector": "google.iam.v1.IAMPolicy.GetIamPolicy", "get": "/v1/{resource=shelves/*}:getIamPolicy"},
                                      {"selector": "google.iam.v1.IAMPolicy.TestIamPermissions", "post": "/v1/{resource=shelves/*}:testIamPermissions", "body": "*"}]}},
                  open(ycfg, "w"))
        req.parameter += f",service-yaml={ycfg}"
        if siblings:
            # every target file in a sibling sub-package of equal name length, none in their common parent: the entry point has to pick the package
            del req.file_to_generate[:]
            keep = [f for f in req.proto_file if not f.name.startswith("acme/lab/v1/")]
            del req.proto_file[:]
            req.proto_file.extend(keep)
            from vf import genlab as G
            for sub in ("admin", "store"):
                sf = G.new_file(f"acme/lab/v1/{sub}/{sub}.proto", f"acme.lab.v1.{sub}")
                G.add_message(sf, "Req", [G.F("name", 1, G.T.TYPE_STRING)])
                G.add_message(sf, "Resp", [G.F("x", 1, G.T.TYPE_STRING)])
                sv = G.add_service(sf, sub.capitalize() + "Service")
                G.add_method(sv, "Get", f".acme.lab.v1.{sub}.Req", f".acme.lab.v1.{sub}.Resp", http=("get", "/v1/{name=%s/*}" % sub))
                req.proto_file.append(sf)
                req.file_to_generate.append(sf.name)
            req.parameter = "transport=grpc+rest,autogen-snippets=false"
        reqfile = os.path.join(d, "req.bin")
        open(reqfile, "wb").write(req.SerializeToString())
        outs = {}
        for i, s in enumerate(seeds):
            cwd = d if i % 2 else "/"
            data, err = run_plugin(reqfile, s, cwd, cfg)
            if data is None:
                return [{"error": err}]
            outs[s] = data
        digests = {s: hashlib.sha256(v).hexdigest()[:12] for s, v in outs.items()}
        if len(set(digests.values())) == 1:
            return []
        # which files differ
        base = plugin_pb2.CodeGeneratorResponse.FromString(outs[seeds[0]])
        diff = set()
        for s in seeds[1:]:
            other = plugin_pb2.CodeGeneratorResponse.FromString(outs[s])
            a = {f.name: f.content for f in base.file}
            b = {f.name: f.content for f in other.file}
            diff |= {n for n in set(a) | set(b) if a.get(n) != b.get(n)}
            if not diff and [f.name for f in base.file] != [f.name for f in other.file]:
                diff.add("(contents equal) ORDER of the files in the response differs, e.g. position %d: %s vs %s" % next(
                    (i, x.name, y.name) for i, (x, y) in enumerate(zip(base.file, other.file)) if x.name != y.name))
        return [{"seeds": digests, "differing_files": sorted(diff)[:8]}]
    finally:
        import shutil
        shutil.rmtree(d, ignore_errors=True)


def scenarios():
    seeds = [0, 1, 2, 3, 7, 11]
    failures = [dict(f, api="resources without equal short names") for f in compare(False, seeds)]
    tie = compare(True, seeds)
    failures += [dict(f, api="resources whose short type names tie under the template's sort key (a.example.com/Thing vs b.example.com/Thing; IPRange vs IpRange under jinja's case-insensitive sort)", known="resource-type-tie") for f in tie]
    failures += [dict(f, api="selective generation (three listed methods, pruning mode)") for f in compare(False, seeds, selective=True)]
    failures += [dict(f, api="target files only in two sibling sub-packages of equal length") for f in compare(False, seeds, siblings=True)]
    return {"cases": 4 * len(seeds), "failures": failures}
