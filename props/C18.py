"""C18 - auto-populated request ids (AIP-4235).
 A. emitted population code (macro auto_populate_uuid4_fields) under a per-field contract + frame, every variant (stage 2)
 B. the macro is invoked on every call path after request coercion and before the send (structural, Jinja AST)
 C. the generation-time validator API.enforce_valid_method_settings / all_method_settings (stage 1)
"""
import z3
from jinja2 import nodes
from vf.core import Run, Result
from vf.smt import Ref, NONE, fn
from vf.types import *          # noqa
from vf import j2sym as J
from vf.dyn import DynModel, ANY, get_, set_, has_, truthy_, strlit, S
from vf.emit import parse_variant, exec_emitted, prove_all, frag_info, cover

SHARED = J.SERVICE_DIR + "_shared_macros.j2"
uuid4str = fn("spec.is_uuid4_string", S, z3.BoolSort())
is_uuid_obj = fn("spec.is_uuid_obj", Ref, z3.BoolSort())
to_str = fn("dyn.to_str", Ref, S)


def dyn_model():
    m = DynModel()

    # assumed contract of proto-plus: assigning a field makes it present; other fields' presence is untouched
    def rule_has(t):
        x, q = t.children()
        if z3.is_app(x) and x.decl().name() == "dyn.set":
            o, p, v = x.children()
            return [t == z3.Or(p == q, has_(o, q))]
        return []
    m.add_ground_rule("dyn.has", rule_has)
    # assumed contract of the stdlib: str(uuid.uuid4()) is an RFC-4122 version-4 string (non-empty)
    m.add_ground_rule("spec.is_uuid_obj", lambda t: [z3.Implies(t, z3.And(uuid4str(to_str(t.arg(0))), z3.Length(to_str(t.arg(0))) > 0))])

    def uuid4(ex, args, kwargs, st, node):
        u = V(z3.FreshConst(Ref, "uuid"), ANY)
        st.assume(is_uuid_obj(u.term))
        st.assume(u.term != NONE)
        return u
    m.known_callables["uuid.uuid4"] = uuid4
    m.assumptions += ["proto-plus: `msg.f = v` sets f and makes it present, leaves every other field and its presence unchanged; `'f' in msg` is presence",
                      "stdlib: str(uuid.uuid4()) is a fresh RFC-4122 v4 string",
                      "distinct hole tokens denote distinct field names (auto_populated_fields has no duplicates)"]
    return m


def population(run: Run, maxlen):
    env = J.make_env()
    mac = J.macro_callable(env, SHARED, "auto_populate_uuid4_fields")
    variants = J.explore(lambda: str(mac(J.Sym("api"), J.Sym("method"))), maxlen=maxlen)
    run.add([], frag_info(SHARED, "macro auto_populate_uuid4_fields", variants), kind="fragment")
    settings = "api.all_method_settings.get(method.meta.address.proto)"
    for vi, var in enumerate(variants):
        tag = f"uuid4.populate:v{vi}"
        if var.error:
            run.results.append(Result(f"{tag}:render-safe", "open", "eval", 0, "table", detail=var.error, group="uuid4.populate:render-safe"))
            continue
        run.table(f"{tag}:render-safe", True, group="uuid4.populate:render-safe")
        n = var.d(("len", settings + ".auto_populated_fields"), 0) if not var.d(("test", "none", settings), False) else 0
        base_fields = []
        for i in range(n):
            fpath = f"{settings}.auto_populated_fields[{i}]"
            tok = var.hole_for(fpath)
            pres = var.d(("bool", f"method.input.fields[{fpath}].proto3_optional"))
            base_fields.append((tok, pres))
        try:
            tree, src = parse_variant(var.text or "pass")
        except SyntaxError as e:
            run.results.append(Result(f"{tag}:parses", "open", "eval", 0, "table", detail=str(e), group="uuid4.populate:parses"))
            continue
        run.table(f"{tag}:parses", True, group="uuid4.populate:parses")
        import itertools
        unasked = [i for i, (_, pr) in enumerate(base_fields) if pr is None]
        for combo in itertools.product([False, True], repeat=len(unasked)):
            fields = [(tok, bool(pr)) for tok, pr in base_fields]
            for i, val in zip(unasked, combo):
                fields[i] = (fields[i][0], val)
            tagc = tag + ("" if not unasked else ":presence=" + "".join("T" if c else "F" for c in combo))
            # "every call ... sends a fresh UUID in that field": an entry of auto_populated_fields for which nothing is emitted at all
            missing = [i for i, (tok, _) in enumerate(fields) if tok is None]
            for i in missing:
                run.results.append(Result(f"{tagc}:field{i}:configured-field-is-handled", "open", "eval", 0, "table",
                                          detail=f"decisions {[str(x) for x in var.decisions][:8]}: no code is emitted for auto_populated_fields[{i}]",
                                          group="uuid4.populate:unset-gets-uuid4"))
            if missing:
                continue
            _check_variant(run, var, vi, tagc, tree, fields)


def _check_variant(run, var, vi, tag, tree, fields):
    if True:
        m = dyn_model()
        req0 = z3.Const("request0", Ref)
        pre = [req0 != NONE]
        strs = []
        for i, (tok, pres) in enumerate(fields):
            s = z3.Const(f"s{i}", S)
            strs.append(s)
            pre.append(get_(req0, z3.StringVal(tok)) == strlit(s))      # validator: the field is a string field
        try:
            ex, outs = exec_emitted(m, tree.body, {"request": V(req0, ANY)}, fname=tag)
        except Unsupported as e:
            run.unsupported.append(f"{tag}: {e}")
            return
        obs = []
        for pi, o in enumerate(outs):
            if o.kind != "fall":
                obs.append((f"{tag}:no-raise:path{pi}", pre + o.state.pc, z3.BoolVal(False)))
                continue
            req = o.state.env["request"].term
            hyp = pre + o.state.pc
            cover(run, m, f"{tag}:cover:path{pi}", hyp, group="uuid4.populate:cover")
            for i, (tok, pres) in enumerate(fields):
                f = z3.StringVal(tok)
                # from the statement: "iff the caller left it unset (or empty, for fields without presence)"
                unset = z3.Not(has_(req0, f)) if pres else (strs[i] == z3.StringVal(""))
                unstr = fn("dyn.unstr", Ref, S)
                obs.append((f"{tag}:field{i}:unset-gets-uuid4:path{pi}", hyp,
                            z3.Implies(unset, z3.And(get_(req, f) == strlit(unstr(get_(req, f))), uuid4str(unstr(get_(req, f)))))))
                obs.append((f"{tag}:field{i}:provided-value-kept:path{pi}", hyp, z3.Implies(z3.Not(unset), get_(req, f) == get_(req0, f))))
            g = z3.Const("any_other_field_name", S)          # skolem constant of the universally quantified field name
            others = z3.And([g != z3.StringVal(t) for t, _ in fields] or [z3.BoolVal(True)])
            obs.append((f"{tag}:frame:other-fields-unchanged:path{pi}", hyp,
                        z3.Implies(others, z3.And(get_(req, g) == get_(req0, g), has_(req, g) == has_(req0, g)))))
            calls = o.state.ghost.get("calls")
            obs.append((f"{tag}:frame:nothing-sent:path{pi}", hyp, z3.BoolVal(calls is None or len(calls.py) == 0)))
        rs = prove_all(run, m, obs)
        for r in rs:
            parts = r.name.split(":")
            r.group = "uuid4.populate:" + ":".join(p for p in parts[2:] if not p.startswith(("path", "field", "presence=")))
        if vi < 3:
            run.samples.append({"variant": vi, "decisions": [str(d) for d in var.decisions], "emitted": var.text, "holes": var.holes,
                                "obligations": [r.as_json() for r in rs][:4]})
        run.assume(*m.assumptions)


# ---------------------------------------------------------------------------------------------------------------
def _calls_macro(node, name):
    for c in node.find_all(nodes.Call):
        if isinstance(c.node, nodes.Getattr) and c.node.attr == name:
            return c
    return None


def call_sites(run: Run):
    """B: on each call path the emitted method coerces the request, then populates, then sends."""
    env = J.make_env()
    sites = [(J.SERVICE_DIR + "_client_macros.j2", "macro client_method (sync client; REST uses the same method)"),
             (J.SERVICE_DIR + "async_client.py.j2", "async client method loop")]
    for tname, what in sites:
        tree = J.parse(env, tname)
        found = False
        for parent in tree.find_all((nodes.Macro, nodes.For, nodes.Block, nodes.If)):
            body = parent.body
            idx = [i for i, n in enumerate(body) if isinstance(n, nodes.Output) and _calls_macro(n, "auto_populate_uuid4_fields")]
            if not idx:
                continue
            found = True
            i = idx[0]
            call = _calls_macro(body[i], "auto_populate_uuid4_fields")
            # positional or by keyword: bound to the macro's parameters (api, method) the way Jinja binds them
            args = [a.name if isinstance(a, nodes.Name) else None for a in call.args]
            bound = dict(zip(["api", "method"], args))
            for kw in call.kwargs:
                bound[kw.key] = kw.value.name if isinstance(kw.value, nodes.Name) else None
            args = [bound.get("api"), bound.get("method")] if set(bound) == {"api", "method"} and len(call.args) + len(call.kwargs) == 2 else args + ["?"]
            run.table(f"uuid4.callsite:{tname}:args-are-api-and-method", args == ["api", "method"], detail=str(args),
                      group="uuid4.callsite:args")
            before = body[:i]
            after = body[i:]          # the Output holding the call also holds what follows it up to the next block tag
            coerce_before = any(J.has_data(n, "Create or coerce a protobuf request object") or J.has_data(n, "request = ") for n in before)
            send_before = any(J.has_data(n, "rpc(") for n in before)
            # inside the same Output node: text order
            def text_of(n):
                return "".join(d.data if isinstance(d, nodes.TemplateData) else "\0CALL\0" if (isinstance(d, nodes.Call) and d is call) else ""
                               for d in n.find_all((nodes.TemplateData, nodes.Call)))
            joined = "".join(text_of(n) for n in after)
            pos_call = joined.find("\0CALL\0")
            pos_send = joined.find("rpc(")
            run.table(f"uuid4.callsite:{tname}:after-coercion", coerce_before, group="uuid4.callsite:after-coercion")
            run.table(f"uuid4.callsite:{tname}:before-send", (not send_before) and 0 <= pos_call < pos_send,
                      detail=f"pos_call={pos_call} pos_send={pos_send}", group="uuid4.callsite:before-send")
        run.table(f"uuid4.callsite:{tname}:present", found, group="uuid4.callsite:present")
    run.fragments.append({"template": [s[0] for s in sites], "anchor": "Call shared_macros.auto_populate_uuid4_fields", "kind": "structural"})


def run(run: Run):
    population(run, 2 if run.tier == "quick" else 3)
    call_sites(run)
    from props import C18_validator
    C18_validator.run(run)
    run.native_standin("props.C18_native", "all_scenarios", "method-settings corpus through the real generation path; population observed on a loopback channel")
    run.not_decided.append("RFC-4122 shape and freshness of uuid.uuid4() (stdlib, assumed)")


def falsify(run, group, info):
    from props import C18_validator
    return C18_validator.falsify(run, group, info)


def replay(path):
    from props import C18_validator
    return C18_validator.replay(path)
