"""C17 - mixin RPCs are exposed exactly as configured in the service YAML.

Stage 1 (pyvc, real functions): has_location_mixin / has_iam_mixin / has_operations_mixin (API listed under `apis`), _has_iam_overrides
(some API service defines an RPC named like a configured IAM mixin method), mixin_api_methods (method X of mixin service S exposed iff S
listed, X has an HTTP rule, and - for IAM - no override); _get_methods_from_service is an assumed contract (protobuf descriptor walk) with a
concrete table check against the installed *_pb2 modules.
Stage 2 (finite tables, re-derived from the real templates on every run): for each of the 10 mixin methods and each of the hand-written
template families (sync client, asyncio client, gRPC transports) the block guarded by that method's name - and only that block - is emitted;
its gRPC path is /<full service name>/<Method>, its (de)serialisers are the request / response types of the installed descriptor, the
client method looks the stub up under the same name and sends a routing header for the request's name/resource field; nothing is emitted
when the API is not listed; add-iam-methods emits the three IAM methods on both clients.
"""
import ast, re
import z3
from jinja2 import nodes
from vf.core import Run, Result
from vf.pyvc import Contract
from vf.schema import SchemaModel
from vf.model import Native, FuncV
from vf.types import *        # noqa
from vf import j2sym as J
from vf.emit import parse_variant

A = "gapic/schema/api.py"


def mixin_table():
    from google.longrunning import operations_pb2
    from google.iam.v1 import iam_policy_pb2
    from google.cloud.location import locations_pb2
    out = {}
    for mod, modname, flag in ((operations_pb2, "operations_pb2", "has_operations_mixin"), (iam_policy_pb2, "iam_policy_pb2", "has_iam_mixin"),
                               (locations_pb2, "locations_pb2", "has_location_mixin")):
        for sname, svc in mod.DESCRIPTOR.services_by_name.items():
            for m in svc.methods:
                out[m.name] = dict(service=f"{mod.DESCRIPTOR.package}.{sname}", module=modname, flag=flag, input=m.input_type, output=m.output_type)
    return out


def snake(n):
    return re.sub(r"(?<!^)(?=[A-Z])", "_", n).lower()


def pymod_of(desc):
    """python module alias used in the templates for a message descriptor"""
    f = desc.file.name
    return {"google/longrunning/operations.proto": "operations_pb2", "google/iam/v1/iam_policy.proto": "iam_policy_pb2",
            "google/iam/v1/policy.proto": "policy_pb2", "google/cloud/location/locations.proto": "locations_pb2",
            "google/protobuf/empty.proto": "empty_pb2"}.get(f, f)


# ------------------------------------------------------------------------------------------------------------- stage 1
def stage1(run: Run):
    m = SchemaModel()
    from google.longrunning import operations_pb2
    from google.iam.v1 import iam_policy_pb2
    from google.cloud.location import locations_pb2
    for n, mod in (("operations_pb2", operations_pb2), ("iam_policy_pb2", iam_policy_pb2), ("locations_pb2", locations_pb2)):
        m.globals[n] = pyv(Native(mod))
    m.classes["API"].update({"has_location_mixin": "Bool", "has_iam_mixin": "Bool", "has_operations_mixin": "Bool", "_has_iam_overrides": "Bool",
                             "_get_methods_from_service": "method", "mixin_api_methods": "Map[Str,Opaque]"})
    m.classes["ServiceYaml"].update({"apis": "Seq[ApiPb]"})
    m.add_class("ApiPb", {"name": "Str"})
    m.add_contract(Contract("API._get_methods_from_service", params={"self": "API", "service_pb": "Opaque"}, result="Map[Str,Opaque]", kind="assumed",
                            note="walk over protobuf descriptors; table-checked below against the installed modules"))
    cs = []
    for prop, name in (("has_location_mixin", "google.cloud.location.Locations"), ("has_iam_mixin", "google.iam.v1.IAMPolicy"),
                       ("has_operations_mixin", "google.longrunning.Operations")):
        cs.append(Contract(f"API.{prop}", source=(A, f"API.{prop}"), params={"self": "API"}, result="Bool",
                           ensures=[f"result == exists(lambda a: a.name == '{name}', self.service_yaml_config.apis)"]))
    cs.append(Contract("API._has_iam_overrides", source=(A, "API._has_iam_overrides"), params={"self": "API"}, result="Bool",
                       ensures=["result == (self.has_iam_mixin and exists(lambda s: exists(lambda n: n in self._get_methods_from_service(iam_policy_pb2) and n in s.methods, str), "
                                "self.services.values()))"],
                       invariants={"for#1": ["forall(lambda j: forall(lambda n: implies(n in iam_mixin_methods, n not in self.services.values()[j].methods), str), 0, _k)"],
                                   "for#2": ["forall(lambda i: iam_mixin_methods.keys()[i] not in s.methods, 0, _k)"]}))
    cs.append(Contract("API.mixin_api_methods", source=(A, "API.mixin_api_methods"), params={"self": "API"}, result="Map[Str,Opaque]",
                       locals={"methods": "Map[Str,Opaque]"},
                       ensures=["forall(lambda x: (x in result) == ((self.has_location_mixin and x in self._get_methods_from_service(locations_pb2)) or "
                                "(self.has_iam_mixin and not self._has_iam_overrides and x in self._get_methods_from_service(iam_policy_pb2)) or "
                                "(self.has_operations_mixin and x in self._get_methods_from_service(operations_pb2))), str)"]))
    for c in cs:
        m.add_contract(c)
    for c in cs:
        run.verify(m, c)


def get_methods_table(run: Run):
    """Concrete check of the assumed contract of _get_methods_from_service against the installed modules."""
    from gapic.schema import api as api_mod
    from google.api import service_pb2
    from google.longrunning import operations_pb2
    from google.iam.v1 import iam_policy_pb2
    from google.cloud.location import locations_pb2
    tab = mixin_table()
    bad = []
    n = 0
    for mod in (operations_pb2, iam_policy_pb2, locations_pb2):
        names = [x for x, v in tab.items() if v["module"] in (mod.__name__.rsplit(".", 1)[1],)]
        for k in range(len(names) + 1):
            chosen = names[:k]
            cfg = service_pb2.Service()
            for x in chosen:
                r = cfg.http.rules.add(selector=f"{tab[x]['service']}.{x}")
                r.get = "/v1/{name=x/*}"
            r = cfg.http.rules.add(selector="acme.Unrelated.Method")
            r.get = "/v1/y"

            class Stub:
                service_yaml_config = cfg
            got = api_mod.API._get_methods_from_service(Stub(), mod)
            n += 1
            if sorted(got) != sorted(chosen):
                bad.append((mod.__name__, chosen, sorted(got)))
    run.bounded.append({"what": "_get_methods_from_service(S) == methods of S with a rule whose selector is <S>.<Method> (prefix subsets of each mixin service)",
                        "cases": n, "failures": bad[:3]})
    if bad:
        run.results.append(Result("mixins.stage1:_get_methods_from_service-table", "open", "eval", 0, "table", detail=str(bad[:2]),
                                  group="mixins.stage1:get-methods-table"))


# ------------------------------------------------------------------------------------------------------------- stage 2
def render_fixed(env, tname, present, flags, add_iam=False, transport_grpc=True):
    fixed = {}
    for x in mixin_table():
        fixed[("in", repr(x), "api.mixin_api_methods")] = x in present
    for fl in ("has_operations_mixin", "has_iam_mixin", "has_location_mixin"):
        fixed[("bool", "api." + fl)] = fl in flags
    fixed[("bool", "opts.add_iam_methods")] = add_iam
    for t in ("grpc", "rest"):
        fixed[("in", repr(t), "opts.transport")] = transport_grpc if t == "grpc" else False
    tmpl = env.get_template(tname)
    shared = env.get_template(J.SERVICE_DIR + "_shared_macros.j2").module       # the including template imports it under this name
    vs = J.explore(lambda: tmpl.render(api=J.Sym("api"), opts=J.Sym("opts"), service=J.Sym("service"), shared_macros=shared), maxlen=1, fixed=fixed)
    return vs


def check_family(run: Run, env, tname, family):
    tab = mixin_table()
    from google.protobuf import descriptor_pool
    for x, info in sorted(tab.items()):
        vs = render_fixed(env, tname, {x}, {info["flag"]})
        tag = f"mixins.{family}:{x}"
        if len(vs) != 1 or vs[0].error:
            run.table(f"{tag}:renders-deterministically", False, detail=f"{len(vs)} variants {vs[0].error if vs else ''}", group=f"mixins.{family}:renders")
            continue
        try:
            tree_py, _ = parse_variant(vs[0].text if vs[0].text.strip() else "pass", wrap_def="class _C:")
        except SyntaxError as e:
            run.table(f"{tag}:parses", False, detail=str(e), group=f"mixins.{family}:parses")
            continue
        fns = [n for n in ast.walk(tree_py) if isinstance(n, (ast.FunctionDef, ast.AsyncFunctionDef))]
        run.table(f"{tag}:exactly-its-own-block-is-emitted", [f.name for f in fns] == [snake(x)], detail=str([f.name for f in fns]),
                  group=f"mixins.{family}:exactly-own-block")
        if [f.name for f in fns] != [snake(x)]:
            continue
        f = fns[0]
        src = ast.unparse(f)
        in_t, out_t = f"{pymod_of(info['input'])}.{info['input'].name}", f"{pymod_of(info['output'])}.{info['output'].name}"
        if family == "transport":
            calls = [n for n in ast.walk(f) if isinstance(n, ast.Call) and isinstance(n.func, ast.Attribute) and ast.unparse(n.func.value) == "self._logged_channel"]
            ok = len(calls) == 1 and calls[0].func.attr == "unary_unary" and calls[0].args and isinstance(calls[0].args[0], ast.Constant) \
                and calls[0].args[0].value == f"/{info['service']}/{x}"
            run.table(f"{tag}:canonical-grpc-path-and-arity", ok, detail=ast.unparse(calls[0])[:120] if calls else "", group="mixins.transport:path")
            if ok:
                kws = {k.arg: ast.unparse(k.value) for k in calls[0].keywords}
                empty = info["output"].full_name == "google.protobuf.Empty"
                run.table(f"{tag}:serializers-of-the-standard-types", kws.get("request_serializer") == in_t + ".SerializeToString" and
                          kws.get("response_deserializer") == ("None" if empty else out_t + ".FromString"), detail=str(kws), group="mixins.transport:serializers")
            keys = set(re.findall(r"self\._stubs\[['\"](\w+)['\"]\]", src)) | set(re.findall(r"['\"](\w+)['\"] not in self\._stubs", src))
            run.table(f"{tag}:stub-cache-key", keys == {snake(x)}, detail=str(keys), group="mixins.transport:cache-key")
        else:
            ok = any(form in src for form in (f"self._transport._wrapped_methods[self._transport.{snake(x)}]",
                                                f"self._client._transport._wrapped_methods[self._client._transport.{snake(x)}]",
                                                f"self.transport._wrapped_methods[self._client._transport.{snake(x)}]"))   # `transport` is the client's transport property
            run.table(f"{tag}:calls-its-own-wrapped-stub", ok, group=f"mixins.{family}:wrapped-stub")
            first_field = info["input"].fields[0].name
            hdr = re.search(r"to_grpc_metadata\(\s*\(\s*\(\s*['\"](\w+)['\"]\s*,\s*request\.(\w+)\s*\)", src)
            run.table(f"{tag}:routing-header-for-the-name-or-resource-field", bool(hdr) and hdr.group(1) == hdr.group(2) == first_field and first_field in ("name", "resource"),
                      detail=hdr.group(0)[:80] if hdr else "none", group=f"mixins.{family}:routing-header")
            run.table(f"{tag}:request-coerced-to-the-standard-type", f"request = {in_t}(**request)" in src, group=f"mixins.{family}:request-type")
            rpc_calls = [n for n in ast.walk(f) if isinstance(n, ast.Call) and ast.unparse(n.func) == "rpc"]
            ok = len(rpc_calls) == 1 and ast.unparse(rpc_calls[0].args[0]) == "request" and \
                {k.arg: ast.unparse(k.value) for k in rpc_calls[0].keywords} == {"retry": "retry", "timeout": "timeout", "metadata": "metadata"}
            run.table(f"{tag}:one-call-with-the-caller's-request-and-options", ok, group=f"mixins.{family}:one-call")
            if family == "async":
                awaited = [n for n in ast.walk(f) if isinstance(n, ast.Await) and isinstance(n.value, ast.Call) and ast.unparse(n.value.func) == "rpc"]
                run.table(f"{tag}:awaited", len(awaited) == 1 and isinstance(f, ast.AsyncFunctionDef), group="mixins.async:awaited")
    # nothing when the API is not listed, even if rules exist
    vs = render_fixed(env, tname, set(tab), set())
    txt = vs[0].text if vs and not vs[0].error else "ERROR"
    run.table(f"mixins.{family}:nothing-without-the-api-being-listed", len(vs) == 1 and "def " not in txt, group=f"mixins.{family}:not-listed")
    # IAM: legacy add-iam-methods suppresses the YAML-driven IAM blocks in this family (the legacy blocks live in the client templates)
    vs = render_fixed(env, tname, {"SetIamPolicy", "GetIamPolicy", "TestIamPermissions"}, {"has_iam_mixin"}, add_iam=True)
    txt = vs[0].text if vs and not vs[0].error else "ERROR"
    run.table(f"mixins.{family}:yaml-iam-blocks-yield-to-add-iam-methods", len(vs) == 1 and "def " not in txt, group=f"mixins.{family}:add-iam-methods")


def legacy_iam(run: Run, env):
    """add-iam-methods: the three IAM RPCs on the sync client, the asyncio client and the gRPC transports."""
    for tname in (J.SERVICE_DIR + "client.py.j2", J.SERVICE_DIR + "async_client.py.j2", J.SERVICE_DIR + "transports/grpc.py.j2",
                  J.SERVICE_DIR + "transports/grpc_asyncio.py.j2", J.SERVICE_DIR + "transports/base.py.j2"):
        tree = J.parse(env, tname)
        found = None
        for n in tree.find_all(nodes.If):
            t = n.test
            if J.expr_path(t) == "opts.add_iam_methods" and J.has_data(n, "set_iam_policy"):
                found = n
                break
        ok = found is not None and all(J.has_data(found, f"def {x}(") for x in ("set_iam_policy", "get_iam_policy", "test_iam_permissions"))
        run.table(f"mixins.legacy:{tname.rsplit('/', 1)[1]}:three-iam-methods-under-exactly-the-option", ok, group="mixins.legacy:add-iam-methods")
        # callability: a legacy method either wraps its stub inline or looks it up in _wrapped_methods - the table built by
        # _prep_wrapped_messages holds entries for the service's own methods and the YAML mixins only
        if found is not None and tname.endswith(("client.py.j2", "async_client.py.j2")):
            text = "".join(d.data for d in found.find_all(nodes.TemplateData))
            lookups = text.count("_wrapped_methods[")
            inline = text.count("wrap_method(")
            which = "async" if tname.endswith("async_client.py.j2") else "sync"
            tables = J.template_source(env, J.SERVICE_DIR + "transports/base.py.j2") + J.template_source(env, J.SERVICE_DIR + "_shared_macros.j2")
            has_entries = "self.set_iam_policy:" in tables
            run.results.append(Result(f"mixins.legacy:{which}:every-legacy-method-has-a-wrapped-callable", "discharged" if (lookups == 0 and inline >= 3) or has_entries else "open",
                                      "jinja-ast", 0, "structural", detail=f"inline wrap_method calls={inline}, _wrapped_methods lookups={lookups}, table entries for the legacy stubs={has_entries}",
                                      group=f"mixins.legacy:{which}-callable"))


def run(run: Run):
    run.witness_check = witness_still_fails
    stage1(run)
    get_methods_table(run)
    env = J.make_env()
    check_family(run, env, J.SERVICE_DIR + "_mixins.py.j2", "sync")
    check_family(run, env, J.SERVICE_DIR + "_async_mixins.py.j2", "async")
    check_family(run, env, J.SERVICE_DIR + "transports/_mixins.py.j2", "transport")
    legacy_iam(run, env)
    run.native_standin("props.C17_native", "scenarios", "service YAMLs x generated library: exposed mixin methods, gRPC paths, routing headers, REST bindings")
    run.assume("_get_methods_from_service(S) returns the methods of S that have an http rule with selector <S>.<Method> (bounded table check against the installed pb2 modules)",
               "grpc / api-core as in C03")
    run.not_decided.append("REST mixin transports (_rest_mixins*.j2) are covered by the native stand-in only")


def witness_still_fails(k):
    from vf.genlab import run_isolated
    f = run_isolated("props.C17_native", "scenarios")
    return any(x.get("known") == k["witness"] for x in f["failures"])


def falsify(run, group, info):
    from vf.genlab import run_isolated
    f = run_isolated("props.C17_native", "scenarios")
    fails = [x for x in f["failures"] if not x.get("known")]
    return ({"kind": "mixins", "failures": fails[:6]}, True) if fails else (None, False)


def replay(path):
    import json
    from vf.genlab import run_isolated
    f = run_isolated("props.C17_native", "scenarios")
    fails = [x for x in f["failures"] if not x.get("known")]
    print("mixin scenarios ->", json.dumps(fails[:4]) if fails else "conform (known findings aside)")
    return 1 if fails else 0
