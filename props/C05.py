"""C05 - flattened keyword arguments == explicit request object.

Stage 2: the request-coercion region of the sync client method (macro client_method) and of the asyncio client method
(async_client.py.j2) is cut out of the Jinja AST, rendered symbolically and executed over the message algebra.
 S (from the statement): let A = the flattened arguments that are not None.
   request is not None and A != {}  ->  ValueError, nothing sent.
   otherwise the request that leaves the region == fold(apply, coerce(T, request), A in declared order)
   where apply(m, key, v) assigns v at the field path `key` (for repeated/map fields extend/update of the empty field is an
   accepted form of assignment - assumed protobuf lemma).
 The signature region offers request, then the flattened parameters in the order of method.flattened_fields, then
 retry/timeout/metadata.  Sync and async regions are checked against the same contract.
"""
import ast, itertools
import z3
from jinja2 import nodes
from vf.core import Run, Result
from vf.smt import Ref, NONE, fn
from vf.types import *          # noqa
from vf import j2sym as J
from vf.dyn import DynModel, ANY, dget, get_, set_, truthy_, isinst_, S
from vf.emit import parse_variant, exec_emitted, prove_all, frag_info, cover

coerce_ = fn("msg.coerce", Ref, Ref, Ref)          # T(x): message -> copy, dict -> from_dict, None -> empty
from_kwargs = fn("msg.from_kwargs", Ref, Ref, Ref)  # T(**d)
empty_ = fn("msg.empty", Ref, Ref)                 # T()
ext_ = fn("msg.extend", Ref, Ref, Ref)             # repeated.extend(v) as a value
upd_ = fn("msg.update", Ref, Ref, Ref)             # map.update(v)
is_dict = fn("py.is_dict", Ref, z3.BoolSort())


def model(input_tok):
    m = DynModel()
    T = z3.Const("g." + input_tok, Ref)

    def construct(ex, args, kwargs, st, node):
        if "**" in kwargs:
            return V(from_kwargs(T, m.dyn(ex, kwargs["**"]).term), ANY)
        if not args and not kwargs:
            return V(empty_(T), ANY)
        if not args:        # T(f=v, ...): keyword construction; a None value leaves the field unset (protobuf/proto-plus)
            cur = empty_(T)
            for k, v in kwargs.items():
                dv = m.dyn(ex, v).term
                cur = z3.If(dv == NONE, cur, set_(cur, m.attr_term(k), dv))
            return V(cur, ANY)
        return V(coerce_(T, m.dyn(ex, args[0]).term), ANY)
    m.known_callables[input_tok] = construct

    def mutate(kind):
        def h(ex, args, kwargs, st, node):
            root, path = m._root_path(node.func.value)
            if root is None or root not in st.env:
                raise Unsupported("extend/update on a non-local")
            cur = st.env[root].term
            for p in path:
                cur = dget(cur, m.attr_term(p))
            new = (ext_ if kind == "extend" else upd_)(cur, m.dyn(ex, args[1]).term)
            st.env[root] = V(m._set_path(st.env[root].term, path, new), ANY)
            return const(None)
        return h
    m.known_callables[".extend"] = mutate("extend")
    m.known_callables[".update"] = mutate("update")
    # isinstance(x, dict)
    orig = m.isinstance_py

    def isinstance_py(ex, v, name):
        if name == "dict" and v.ty == ANY:
            return is_dict(v.term)
        return orig(ex, v, name)
    m.isinstance_py = isinstance_py
    m.globals["dict"] = pyv(("pytype", "dict"))
    m.pytype_consts["dict"] = z3.Const("py.dict", Ref)
    # assumed facts about the request type T
    x = z3.Const("cx", Ref)
    m.extra_quantified_axioms = [
        z3.ForAll([x], isinst_(coerce_(T, x), T), patterns=[coerce_(T, x)]),
        z3.ForAll([x], isinst_(from_kwargs(T, x), T), patterns=[from_kwargs(T, x)]),
    ]
    m.add_ground_rule("msg.coerce", lambda t: [isinst_(t, t.arg(0)), t != NONE,
                                                z3.Implies(isinst_(t.arg(1), t.arg(0)), truthy_(t) == truthy_(t.arg(1)))])
    def rule_isinst(t):
        x, c = t.children()
        if z3.is_app(x) and x.decl().name() == "dyn.set":
            return [t == isinst_(x.arg(0), c)]
        if z3.is_app(x) and x.decl().kind() == z3.Z3_OP_ITE:
            return [t == z3.If(x.arg(0), isinst_(x.arg(1), c), isinst_(x.arg(2), c))]
        return []
    m.add_ground_rule("dyn.isinstance", rule_isinst)
    m.add_ground_rule("msg.from_kwargs", lambda t: [isinst_(t, t.arg(0)), t != NONE])
    m.add_ground_rule("msg.empty", lambda t: [isinst_(t, t.arg(0)), t != NONE])
    m.add_ground_rule("py.is_dict", lambda t: [z3.Implies(t, z3.And(t.arg(0) != NONE, z3.Not(isinst_(t.arg(0), T))))])
    m.assumptions += ["schema invariant used to prune decision vectors: for a request type from another package only primitive fields are flattened (Method._fields_mapping), hence no map field; Field.map implies Field.repeated",
                      "proto-plus/protobuf message algebra: T(msg) copies, T(dict) / T(**dict) build the equivalent message, T() / T(None) is the empty message, T(f=None) leaves f unset",
                      "`msg.path = v` assigns; extend()/update() on the empty repeated/map field of a fresh message is an accepted form of assignment, and skipping a falsy (empty) list/dict argument leaves the same message",
                      "a dict is not an instance of the request class; None is neither"]
    return m


def spec_request(req0, T, fields, pb2, is_async):
    """The request the statement demands, as a term: coerce, then apply each given argument in order."""
    if pb2:
        base = z3.If(is_dict(req0), from_kwargs(T, req0), z3.If(req0 == NONE, empty_(T), req0))
    else:
        base = z3.If(isinst_(req0, T), req0, coerce_(T, req0))
    return base


def check_region(run, tname, what, body_nodes, tree, env, maxlen):
    params = ["method", "api", "service", "name", "snippet_index"]
    variants = J.render_nodes(env, tree, body_nodes, params, maxlen=maxlen)
    run.fragments.append(frag_info(tname, f"request-coercion region ({what})", variants))
    checked = 0
    for vi, var in enumerate(variants):
        tag = f"flatten.{what}:v{vi}"
        if var.error:
            run.table(f"{tag}:render-safe", False, detail=var.error, group=f"flatten.{what}:render-safe")
            continue
        d = dict(var.decisions)
        if d.get(("bool", "method.client_streaming")):
            continue
        n = d.get(("len", "method.flattened_fields.items()"), d.get(("len", "method.flattened_fields.values()"), 0))
        # schema invariants: truthiness of the mapping <=> it has items; values() and items() have the same length
        has = d.get(("bool", "method.flattened_fields"))
        lens = {v for k, v in d.items() if k[0] == "len" and k[1].startswith("method.flattened_fields.")}
        if len(lens) > 1 or (has is not None and bool(has) != (n > 0)) or (has is None and n > 0):
            continue
        pb2 = bool(d.get(("eq", "method.input.ident.package", "method.ident.package")) is False) if ("eq", "method.input.ident.package", "method.ident.package") in d else None
        if pb2 is None:
            continue
        input_tok = var.hole_for("method.input.ident")
        if input_tok is None:
            run.table(f"{tag}:input-type-hole", False, group=f"flatten.{what}:shape")
            continue
        fields = []
        for i in range(n):
            key = var.hole_for(f"method.flattened_fields.items()[{i}].k")
            name = var.hole_for(f"method.flattened_fields.items()[{i}].v.name") or var.hole_for(f"method.flattened_fields.values()[{i}].name") \
                or var.hole_for(f"method.flattened_fields.values()[{i}]['name']")
            rep = d.get(("bool", f"method.flattened_fields.items()[{i}].v.repeated"))
            mp = d.get(("bool", f"method.flattened_fields.items()[{i}].v.map"))
            fields.append(dict(i=i, key=key or f"KEY{i}_", name=name, repeated=rep, map=mp))
        # schema invariant: map => repeated (Field.map is `bool(self.repeated and ...)`)
        if any(f["map"] and f["repeated"] is False for f in fields):
            continue
        # schema invariant (Method._fields_mapping): a cross-package request flattens primitive fields only, and a map field is
        # message-typed (Field.map needs `self.message`), so map fields never occur for pb2 requests
        if pb2 and any(f["map"] for f in fields):
            continue
        # several holes denote the same parameter (values()[i].name == items()[i].v.name): unify tokens by provenance
        alias = {}
        for i in range(n):
            toks = [var.hole_for(p) for p in (f"method.flattened_fields.items()[{i}].v.name", f"method.flattened_fields.values()[{i}].name",
                                              f"method.flattened_fields.values()[{i}]['name']")]
            toks = [t for t in toks if t]
            for t in toks[1:]:
                alias[t] = toks[0]
        try:
            tree_py, _ = parse_variant(var.text)
        except SyntaxError as e:
            run.table(f"{tag}:parses", False, detail=str(e)[:200], group=f"flatten.{what}:parses")
            continue
        run.table(f"{tag}:parses", True, group=f"flatten.{what}:parses")
        m = model(input_tok)
        m.hole_strings = {f["key"] for f in fields} | {f["name"] for f in fields if f["name"]}
        T = z3.Const("g." + input_tok, Ref)
        req0 = z3.Const("request0", Ref)
        envv = {"request": V(req0, ANY)}
        for t_, canon in alias.items():
            m.globals[t_] = V(z3.Const("g." + canon, Ref), ANY)
        try:
            ex, outs = exec_emitted(m, tree_py.body, envv, fname=tag)
        except Unsupported as e:
            run.unsupported.append(f"{tag}: {e}")
            continue
        checked += 1
        args = [z3.Const("g." + f["name"], Ref) if f["name"] else None for f in fields]
        given = [a != NONE for a in args if a is not None]
        any_given = z3.Or(given) if given else z3.BoolVal(False)
        must_raise = z3.And(req0 != NONE, any_given)
        # "A request given as a message instance, as a dict or omitted"; a pb2 message instance is truthy (no __bool__/__len__)
        pre = [z3.Or(req0 == NONE, is_dict(req0), isinst_(req0, T)), z3.Implies(isinst_(req0, T), req0 != NONE),
               z3.Implies(is_dict(req0), z3.And(req0 != NONE, z3.Not(isinst_(req0, T))))]
        if pb2:
            pre.append(z3.Implies(isinst_(req0, T), truthy_(req0)))
        obs = []
        covered = []
        for pi, o in enumerate(outs):
            hyp = pre + o.state.pc
            if o.kind == "raise":
                obs.append((f"{tag}:raises-ValueError-only-when-both-given:path{pi}", hyp, z3.And(must_raise, z3.BoolVal(o.exc == "ValueError"))))
                calls = o.state.ghost.get("calls")
                obs.append((f"{tag}:nothing-sent-before-the-error:path{pi}", hyp, z3.BoolVal(calls is None or len(calls.py) == 0)))
                continue
            if o.kind != "fall":
                obs.append((f"{tag}:no-early-return:path{pi}", hyp, z3.BoolVal(False)))
                continue
            covered.append(hyp)
            obs.append((f"{tag}:both-given-is-rejected:path{pi}", hyp, z3.Not(must_raise)))
            final = o.state.env["request"].term
            base = spec_request(req0, T, fields, pb2, what == "async")
            if any(a is None or f["key"] is None for f, a in zip(fields, args)):
                obs.append((f"{tag}:every-flattened-field-has-key-and-parameter:path{pi}", hyp, z3.BoolVal(False)))
                continue
            # the kind of each field (scalar / list / map) comes from the schema, not from what the template asked: where the
            # template did not ask, the obligation is checked for every kind (universally quantified ghost)
            kinds_per_field = []
            for f in fields:
                ks = []
                for kind, rep, mp in (("scalar", False, False), ("list", True, False), ("map", True, True)):
                    if f["repeated"] is not None and bool(f["repeated"]) != rep:
                        continue
                    if f["map"] is not None and bool(f["map"]) != mp:
                        continue
                    if pb2 and kind == "map":
                        continue
                    if kind == "map" and d.get(("eq", f"method.flattened_fields.items()[{f['i']}].v.ident.ident", "'struct_pb2.Value'")):
                        continue          # a map field's type is its entry message, never struct_pb2.Value
                    ks.append(kind)
                kinds_per_field.append(ks)
            probes = [m.attr_term(f["key"]) for f in fields] + [z3.Const("any_field_path", S)]
            for kinds in itertools.product(*kinds_per_field) if fields else [()]:
                forms = []
                for f, a, kind in zip(fields, args, kinds):
                    k = m.attr_term(f["key"])
                    opts = [lambda acc, a=a, k=k: z3.If(a != NONE, set_(acc, k, a), acc)]
                    if kind == "list":
                        opts.append(lambda acc, a=a, k=k: z3.If(truthy_(a), set_(acc, k, ext_(dget(acc, k), a)), acc))
                        opts.append(lambda acc, a=a, k=k: z3.If(a != NONE, set_(acc, k, ext_(dget(acc, k), a)), acc))
                    if kind == "map":
                        opts.append(lambda acc, a=a, k=k: z3.If(truthy_(a), set_(acc, k, upd_(dget(acc, k), a)), acc))
                    forms.append(opts)
                # "sends the same request": observational equality - every field path reads the same in both messages
                alts = []
                for combo in itertools.product(*forms) if forms else [()]:
                    acc = base
                    for fn_ in combo:
                        acc = fn_(acc)
                    alts.append(z3.And([dget(final, q) == dget(acc, q) for q in probes]))
                kn = "".join(k[0] for k in kinds)
                obs.append((f"{tag}:request-equals-spec:kinds={kn}:path{pi}", hyp, z3.Or(alts) if len(alts) > 1 else alts[0]))
        # non-vacuity: some non-raising path of this variant is reachable under the preconditions
        from vf.smt import check_sat
        reach = any(check_sat(m.axioms() + list(h) + m.ground_instances(list(h)), 1500, want_model=False).status != "unsat" for h in covered)
        run.table(f"{tag}:cover:some-path-reachable", reach or not covered, group=f"flatten.{what}:cover")
        keys = [z3.Const("str." + f["key"], S) for f in fields]
        wf = [z3.Distinct(keys)] if len(keys) > 1 else []
        obs = [(nm, list(hy) + wf, g) for nm, hy, g in obs]
        rs = prove_all(run, m, obs)
        kf_class = z3.Or([z3.Const("str." + f["key"], S) != z3.Const("str." + f["name"], S) for f in fields if f["name"]] or [z3.BoolVal(False)])
        from vf.core import load_known_findings, discharge
        from vf.pyvc import Obligation
        known = {k["obligation"] for k in load_known_findings().get("C05", []) if k.get("class") == "key-differs-from-parameter-name"}
        for idx, r in enumerate(rs):
            r.group = f"flatten.{what}:" + ":".join(p for p in r.name.split(":")[2:] if not p.startswith(("path", "kinds=")))
            # the recorded finding is about requests from another package only: a failure of the same shape on a request of the API's own package
            # is not covered by it
            if r.status != "discharged" and r.group in known and pb2:
                nm, hy, g = obs[idx]
                r2 = discharge(Obligation(nm, hy + [z3.Not(kf_class)], g), m.axioms(), run.timeout_ms, m)
                if r2.status == "discharged":
                    r.status = "known"
                    r.detail = "discharged outside the class key != parameter name"
        if vi % 7 == 0 and len(run.samples) < 8:
            run.samples.append({"variant": tag, "decisions": [str(x) for x in var.decisions][:12], "emitted": var.text[:1500],
                                "obligations": [r.as_json() for r in rs][:4]})
        run.assume(*m.assumptions)
    run.table(f"flatten.{what}:some-variant-checked", checked > 0, detail=str(checked), group=f"flatten.{what}:cover")
    return checked


def coercion_nodes(container_body):
    """The `{% if not method.client_streaming %}` block that contains 'Create or coerce a protobuf request object'."""
    for i, n in enumerate(container_body):
        if isinstance(n, nodes.If) and J.has_data(n, "Create or coerce a protobuf request object") and not J.has_data(n, "def "):
            return [n]
    return None


def find_async_method_body(tree):
    for f in tree.find_all(nodes.For):
        if J.has_data(f, "Create or coerce a protobuf request object"):
            inner = [x for x in f.find_all(nodes.For) if x is not f and J.has_data(x, "Create or coerce a protobuf request object")]
            if not inner:
                return f.body
    return None


def signature(run, env):
    """Parameters: request, then the flattened parameters in the order of method.flattened_fields, then retry/timeout/metadata."""
    for tname, what in ((J.SERVICE_DIR + "_client_macros.j2", "sync"), (J.SERVICE_DIR + "async_client.py.j2", "async")):
        tree = J.parse(env, tname)
        src = None
        for out in tree.find_all(nodes.Output):
            if any(isinstance(x, nodes.TemplateData) and ("def {{" in x.data or x.data.rstrip().endswith("def")) for x in out.nodes):
                pass
        # locate the For over method.flattened_fields.values() that emits parameters ("... = None,")
        loops = [f for f in tree.find_all(nodes.For) if J.expr_path(getattr(f.iter, "node", None)) == "method.flattened_fields.values"
                 and J.has_data(f, "= None,")]
        run.table(f"flatten.signature:{what}:parameter-loop-present", len(loops) >= 1, group="flatten.signature:loop-present")
        if not loops:
            continue
        vs = J.render_nodes(env, tree, [loops[0]], ["method"], maxlen=3)
        for vi, var in enumerate(vs):
            n = var.d(("len", "method.flattened_fields.values()"), 0)
            names = []
            for line in var.text.splitlines():
                line = line.strip()
                if line:
                    names.append(line.split(":")[0].strip())
            want = [var.hole_for(f"method.flattened_fields.values()[{i}].name") for i in range(n)]
            run.table(f"flatten.signature:{what}:v{vi}:parameters-in-declared-order", names == want and len(set(names)) == len(names),
                      detail=f"{names} vs {want}", group="flatten.signature:declared-order")
            run.table(f"flatten.signature:{what}:v{vi}:keyword-default-None", all("= None" in l for l in var.text.splitlines() if l.strip()),
                      group="flatten.signature:default-none")


def witness_still_fails(k):
    from vf.genlab import run_isolated
    return bool(run_isolated("props.C05_native", k["witness"]))


def run(run: Run):
    run.witness_check = witness_still_fails
    env = J.make_env()
    maxlen = 2 if run.tier == "quick" else 3
    t1 = J.SERVICE_DIR + "_client_macros.j2"
    tree1 = J.parse(env, t1)
    mac = J.find_macro(tree1, "client_method")
    nodes1 = coercion_nodes(mac.body)
    run.table("flatten.sync:region-present", nodes1 is not None, group="flatten.sync:region-present")
    if nodes1:
        check_region(run, t1, "sync", nodes1, tree1, env, maxlen)
    t2 = J.SERVICE_DIR + "async_client.py.j2"
    tree2 = J.parse(env, t2)
    body2 = find_async_method_body(tree2)
    nodes2 = coercion_nodes(body2) if body2 else None
    run.table("flatten.async:region-present", nodes2 is not None, group="flatten.async:region-present")
    if nodes2:
        check_region(run, t2, "async", nodes2, tree2, env, maxlen)
    signature(run, env)
    from props import C05_binding
    C05_binding.run(run)
    run.not_decided.append("that Method._fields_mapping orders keys by first occurrence in the method_signature annotations for every signature set (stage 1; generator "
                           "function over an OrderedDict - outside pyvc's subset; bounded check of the real function below, never counted as proved)")
    run.native_standin("props.C05_native", "order_bounded",
                       "BOUNDED: the real Method.flattened_fields over every signature set of one or two signatures with <= 3 entries over 5 fields (REQUIRED and optional, "
                       "top-level and dotted): keys in order of first appearance")
    run.native_standin("props.C05_native", "scenarios")



def falsify(run, group, info):
    from vf.genlab import run_isolated
    f = run_isolated("props.C05_native", "scenarios")
    _g = run_isolated("props.C05_native", "order_bounded")
    f = {"cases": f.get("cases", 0) + _g.get("cases", 0), "failures": list(f["failures"]) + list(_g["failures"])}
    run.bounded.append({"what": "falsifier: generated library, flattened vs explicit request on the wire (sync + asyncio)", "cases": f.get("cases", 0)})
    fails = [x for x in f["failures"] if not x.get("known")]
    return ({"kind": "flatten", "failures": fails[:6]}, True) if fails else (None, False)


def replay(path):
    import json
    from vf.genlab import run_isolated
    f = run_isolated("props.C05_native", "scenarios")
    _g = run_isolated("props.C05_native", "order_bounded")
    f = {"cases": f.get("cases", 0) + _g.get("cases", 0), "failures": list(f["failures"]) + list(_g["failures"])}
    print("flatten scenarios ->", json.dumps(f["failures"][:4]) if f["failures"] else "conform")
    return 1 if [x for x in f["failures"] if not x.get("known")] else 0
