"""C07 - pagination.  Part 1: classification (stage 1).  Part 2: pager loops and wiring (stage 2, emitted code)."""
from vf.core import Run
from vf.pyvc import Contract
from vf.schema import SchemaModel

W = "gapic/schema/wrappers.py"


def schema_model():
    m = SchemaModel()
    # ---- specification vocabulary, written from the property sentence ------------------------------------
    m.add_spec("str_field", ["f"], "f is not None and f.type == str")
    m.add_spec("int_field", ["f"], "f is not None and f.type == int")
    m.add_spec("wrapper_field", ["f"],
               "f is not None and isinstance(f.type, MessageType) and f.type.message_pb.name in ('Int32Value', 'UInt32Value')")
    m.add_spec("size_ok", ["m"],
               "int_field(m.fields.get('page_size')) or int_field(m.fields.get('max_results')) or wrapper_field(m.fields.get('max_results'))")
    m.add_spec("has_repeated", ["m"], "exists(lambda f: f.repeated, m.fields.values())")
    m.add_spec("paged_spec", ["self"],
               "str_field(self.input.fields.get('page_token')) and str_field(self.output.fields.get('next_page_token'))"
               " and size_ok(self.input) and has_repeated(self.output)")
    m.add_spec("first_repeated", ["m", "r"],
               "exists(lambda i: m.fields.values()[i] is r and r.repeated and forall(lambda j: not m.fields.values()[j].repeated, 0, i),"
               " 0, len(m.fields.values()))")
    return m


def contracts(m):
    cs = []
    # helper: shape from the code and its call site
    cs.append(Contract("Method._validate_paged_field_size_type", source=(W, "Method._validate_paged_field_size_type"),
                       params={"self": "Method", "page_field_size": "Field"}, result="Bool",
                       ensures=["result == (page_field_size.type == int or (isinstance(page_field_size.type, MessageType) and "
                                "page_field_size.type.message_pb.name in ('UInt32Value', 'Int32Value')))"]))
    # top level: from the property statement
    cs.append(Contract("Method.paged_result_field", source=(W, "Method.paged_result_field"),
                       params={"self": "Method"}, result="Opt[Field]",
                       ensures=["(result is not None) == paged_spec(self)",
                                "implies(result is not None, first_repeated(self.output, result))"],
                       invariants={"for#2": ["forall(lambda j: not self.output.fields.values()[j].repeated, 0, _k)"]}))
    return cs


def run(run: Run):
    run.witness_check = witness_still_fails
    m = schema_model()
    for c in contracts(m):
        m.add_contract(c)
    for c in list(m.contracts.values()):
        if c.source:
            run.verify(m, c)
    verify_primitive_build(run)
    run.assume("PrimitiveType.__eq__(bare python type) is `python_type is other`; other wrappers compare unequal to a bare type (modelled from the code, cross-checked natively)")


def verify_primitive_build(run: Run):
    """PrimitiveType.build is used by contract elsewhere (the class table carries it as an assumed contract): prove that contract here."""
    from vf.types import pyv
    m = SchemaModel()
    m.classes["PyType"]["__name__"] = "Str"
    m.classes["PrimitiveType"]["_fields"] = ["meta", "python_type"]
    m.classes["Metadata"]["_fields"] = ["address", "documentation"]
    m.classes["Metadata"]["documentation"] = "Opaque"
    m.classes["Address"]["_fields"] = ["name", "module", "package", "collisions"]
    m.globals["metadata.Metadata"] = pyv(("class", "Metadata"))
    m.globals["metadata.Address"] = pyv(("class", "Address"))
    m.globals["cls"] = pyv(("class", "PrimitiveType"))
    c = Contract("PrimitiveType.build", source=(W, "PrimitiveType.build"), params={"primitive_type": "Opt[PyType]"}, result="PrimitiveType",
                 ensures=["isinstance(result, PrimitiveType)", "result.python_type is primitive_type",
                          "implies(primitive_type is None, result.meta.address.name == 'None')"])
    m.contracts.pop("PrimitiveType.build", None)
    m.add_contract(c)
    run.verify(m, c)


# ---------------------------------------------------------------------------------------------------------------
# Falsifier / replay: concrete request/response shapes built with the real descriptors -> real API.build -> real
# Method.paged_result_field, contract evaluated natively (vf/native.py).  Never counted as proof.
KINDS = ["absent", "string", "int32", "int64", "bool", "double", "gp.Int32Value", "gp.UInt32Value", "own.Int32Value", "own.Other"]
LAYOUTS = ["none", "rep", "plain_rep", "rep_rep", "map", "rep_scalar"]


def _field(G, name, number, kind):
    T = G.T
    simple = {"string": T.TYPE_STRING, "int32": T.TYPE_INT32, "int64": T.TYPE_INT64, "bool": T.TYPE_BOOL, "double": T.TYPE_DOUBLE,
              "bytes": T.TYPE_BYTES}
    if kind in simple:
        return G.F(name, number, simple[kind])
    tn = {"gp.Int32Value": ".google.protobuf.Int32Value", "gp.UInt32Value": ".google.protobuf.UInt32Value",
          "own.Int32Value": ".acme.lab.v1.Int32Value", "own.Other": ".acme.lab.v1.Other"}[kind]
    return G.F(name, number, T.TYPE_MESSAGE, type_name=tn)


def build_shapes(shapes):
    """shapes: list of dicts {page_token, page_size, max_results, next_page_token, layout}. Returns list of real Method wrappers."""
    from vf import genlab as G
    fd = G.new_file("acme/lab/v1/lab.proto", "acme.lab.v1")
    G.add_message(fd, "Int32Value", [G.F("value", 1, G.T.TYPE_INT32)])
    G.add_message(fd, "Other", [G.F("x", 1, G.T.TYPE_STRING)])
    G.add_message(fd, "Item", [G.F("name", 1, G.T.TYPE_STRING)])
    svc = G.add_service(fd, "Lab")
    for i, s in enumerate(shapes):
        req = G.add_message(fd, f"Req{i}", [G.F("parent", 1, G.T.TYPE_STRING)])
        n = 2
        for fname in ("page_token", "page_size", "max_results"):
            if s[fname] != "absent":
                req.field.append(_field(G, fname, n, s[fname]))
                n += 1
        resp = G.add_message(fd, f"Resp{i}", [])
        n = 1
        lay = s["layout"]
        if lay == "plain_rep":
            resp.field.append(G.F("total", n, G.T.TYPE_INT32)); n += 1
        if lay in ("rep", "plain_rep", "rep_rep"):
            # in the two-repeated-fields layout the first *declared* repeated field carries the higher field number
            resp.field.append(G.F("items", 9 if lay == "rep_rep" else n, G.T.TYPE_MESSAGE, label=G.REPEATED, type_name=".acme.lab.v1.Item")); n += 1
        if lay == "rep_rep":
            resp.field.append(G.F("more", n, G.T.TYPE_STRING, label=G.REPEATED)); n += 1
        if lay == "rep_scalar":
            resp.field.append(G.F("names", n, G.T.TYPE_STRING, label=G.REPEATED)); n += 1
        if lay == "map":
            e = resp.nested_type.add(name="ItemsEntry")
            e.field.append(G.F("key", 1, G.T.TYPE_STRING)); e.field.append(G.F("value", 2, G.T.TYPE_MESSAGE, type_name=".acme.lab.v1.Item"))
            e.options.map_entry = True
            resp.field.append(G.F("items", n, G.T.TYPE_MESSAGE, label=G.REPEATED, type_name=f".acme.lab.v1.Resp{i}.ItemsEntry")); n += 1
        if s["next_page_token"] != "absent":
            resp.field.append(_field(G, "next_page_token", n, s["next_page_token"]))
        G.add_method(svc, f"List{i}", f".acme.lab.v1.Req{i}", f".acme.lab.v1.Resp{i}", http=("get", "/v1/{parent=p/*}/x%d" % i))
    api, _ = G.build_api([fd], "autogen-snippets=false")
    svc_w = api.services["acme.lab.v1.Lab"]
    return [svc_w.methods[f"List{i}"] for i in range(len(shapes))]


def corpus(seed=0):
    shapes = []
    for ps in KINDS:
        for mr in KINDS:
            for lay in ("rep", "none", "plain_rep"):
                shapes.append(dict(page_token="string", page_size=ps, max_results=mr, next_page_token="string", layout=lay))
    for pt in ("absent", "string", "int32", "bytes"):
        for npt in ("absent", "string", "int32", "bytes"):
            for lay in LAYOUTS:
                shapes.append(dict(page_token=pt, page_size="int32", max_results="absent", next_page_token=npt, layout=lay))
    return shapes


def native_extra():
    from gapic.schema import wrappers
    return {"MessageType": wrappers.MessageType, "PrimitiveType": wrappers.PrimitiveType, "EnumType": wrappers.EnumType}


def native_failures(shapes, contract_name="Method.paged_result_field"):
    from vf.native import check_contract_native, native_eval
    m = schema_model()
    c = [c for c in contracts(m) if c.qualname == contract_name][0]
    methods = build_shapes(shapes)
    out = []
    for s, meth in zip(shapes, methods):
        meth.__dict__.pop("paged_result_field", None)
        failed = check_contract_native(m, c, lambda self: type(self).paged_result_field.func(self) if hasattr(type(self).paged_result_field, "func") else self.paged_result_field,
                                       {"self": meth}, native_extra())
        if failed:
            out.append((s, failed, meth))
    return out, m


def falsify(run, group, info):
    if group.startswith("pager"):
        from props import C07_native
        from vf.genlab import run_isolated
        f = run_isolated("props.C07_native", "pager_scenarios")
        run.bounded.append({"what": "falsifier: generated pagers driven over a loopback channel with scripted page histories", "cases": 8})
        return ({"kind": "pager", "failures": f[:6]}, True) if f else (None, False)
    return falsify_classification(run, group, info)


def falsify_classification(run, group, info):
    """Search the shape corpus for a concrete failing input that lies outside every known-finding class of this clause."""
    if not group.startswith("Method.paged_result_field"):
        group = "Method.paged_result_field:*"       # a broken helper clause: look for an input that breaks the top-level contract
    from vf.core import load_known_findings
    from vf.native import native_eval
    classes = [k["class"] for k in load_known_findings().get("C07", []) if (k["obligation"] == group or group.endswith("*")) and k.get("class")]
    fails, m = native_failures(corpus(run.seed))
    clause = group.split(":")[1].replace("*", "")
    run.bounded.append({"what": "falsifier: native evaluation of the contract on the request/response shape corpus", "bound": "KINDS x KINDS x 3 layouts + token kinds x layouts", "cases": len(corpus())})
    for s, failed, meth in fails:
        if not any(f.startswith(clause) for f in failed):
            continue
        if any(native_eval(m, cls, {"self": meth}, native_extra()) for cls in classes):
            continue
        return {"shape": s, "failed": failed, "observed_paged_result_field": getattr(meth.paged_result_field, "name", None)}, True
    return None, False


def witness_still_fails(k):
    fails, _ = native_failures([k["witness"]])
    return bool(fails)


def replay(path):
    import json
    doc = json.load(open(path))
    if (doc.get("replay") or {}).get("kind") == "pager":
        from props import C07_native
        from vf.genlab import run_isolated
        f = run_isolated("props.C07_native", "pager_scenarios")
        print("pager scenarios ->", "FAIL " + json.dumps(f[:3]) if f else "conform")
        return 1 if f else 0
    shape = (doc.get("replay") or {}).get("shape")
    if not shape:
        print("replay file carries no concrete input (no-failing-input-found); solver output:", json.dumps(doc.get("open"))[:1500])
        return 1
    fails, _ = native_failures([shape])
    print("shape:", shape, "->", "FAILS " + str(fails[0][1]) if fails else "conforms")
    return 1 if fails else 0


_stage1_run = run


def run(run: Run):          # noqa: F811  (stage 1 + stage 2)
    _stage1_run(run)
    from props import C07_pagers
    C07_pagers.run(run)
    C07_pagers.wiring(run)
    run.native_standin("props.C07_native", "pager_scenarios_wrapped", "generated pagers over a loopback channel with scripted page histories")
    run.not_decided.append("termination when the server never returns an empty token (liveness; not asked by the statement)")
    run.assume("the pager class named by Method.client_output(.ident) is the emitted <Method.name>Pager / AsyncPager (f-string in Method._client_output; proved under C08's contract of _client_output)")
