"""C14 - generated samples are valid, executable and consistent with their metadata.

Stage 1 (pyvc / lemmas on the real functions): _sync_or_async_from_transport; the region-tag expression of generate_sample_specs (read from its
AST) is `<shortname>_<version>_generated_<Service>_<Rpc>_<sync|async>`, and that expression is injective in (Service, Rpc, kind) for names
without underscores (word-equation lemma, cvc5); Service.shortname is the first label of the host; the snippet index is fed the *raw* render
while the file is the render after fix_whitespace - the obligation that both have the same line structure is checked on every calling-form
variant of the real sample templates (fix_whitespace applied to the variant must not change its line count before the END tag).
Stage 2 (every variant of render_calling_form / render_method_call): each phase marker the segment parser looks for is emitted; in asyncio
samples every client call is awaited before its result is used.
Native stand-in (bounded): an API with every calling form; each sample is compiled and run against a loopback channel, its request decoded
and checked for required fields and oneofs, its metadata entry compared with the file and the generated client, its docstring twin compared.
"""
import ast, re
import z3
from jinja2 import nodes
from vf.core import Run, Result, find_def, REPO
from vf.pyvc import Contract
from vf.schema import SchemaModel
from vf.smt import check_sat
from vf.types import *        # noqa
from vf import j2sym as J
from vf.emit import parse_variant, frag_info

SG = "gapic/samplegen/samplegen.py"
W = "gapic/schema/wrappers.py"
FR = "examples/feature_fragments.j2"


def stage1(run: Run):
    m = SchemaModel()
    m.globals["api.TRANSPORT_GRPC"] = const("grpc")
    m.globals["api.TRANSPORT_REST"] = const("rest")
    m.globals["api.TRANSPORT_GRPC_ASYNC"] = const("grpc-async")
    m.globals["api"] = pyv(("module", "api"))
    c = Contract("_sync_or_async_from_transport", source=(SG, "_sync_or_async_from_transport"), params={"transport": "Str"}, result="Str",
                 ensures=["result == ('sync' if transport in ('grpc', 'rest') else 'async')"])
    m.add_contract(c)
    run.verify(m, c)
    m.classes["Service"]["host"] = "Str"
    c2 = Contract("Service.shortname", source=(W, "Service.shortname"), params={"self": "Service"}, result="Str",
                  ensures=["implies('.' not in self.host, result == self.host)",
                           "implies('.' in self.host, '.' not in result and self.host.startswith(result + '.'))"])
    m.add_contract(c2)
    try:
        run.verify(m, c2)
    except Exception as e:      # noqa
        run.unsupported.append(f"Service.shortname: {e!r}"[:200])
    # the region tag expression
    fdef, h = find_def(SG, "generate_sample_specs")
    run.functions.append({"qualname": "generate_sample_specs (region tag expression)", "source": SG, "sha256_16": h, "obligations": "AST pattern + word-equation lemma"})
    tag = next((n.value for n in ast.walk(fdef) if isinstance(n, ast.Assign) and ast.unparse(n.targets[0]) == "region_tag"), None)
    want = "f'{api_short_name}_{api_version}_generated_{service_name}_{rpc_name}_{sync_or_async}'"
    run.table("samples.tag:expression-is-<shortname>_<version>_generated_<Service>_<Rpc>_<kind>", tag is not None and ast.unparse(tag) == want,
              detail=ast.unparse(tag) if tag is not None else "", group="samples.tag:format")
    src = ast.unparse(fdef)
    run.table("samples.tag:components-come-from-the-service-shortname-version-and-names",
              "api_short_name = api_schema.services[f'{api_schema.naming.proto_package}.{service_name}'].shortname" in src and
              "api_version = api_schema.naming.version" in src and "sync_or_async = _sync_or_async_from_transport(transport)" in src and
              "for rpc_name, method_list in client.rpcs.items():" in src, group="samples.tag:format")
    run.table("samples.tag:one-spec-per-rpc-and-transport-rest-skipped-when-grpc-is-supported",
              "if supports_grpc and transport == api.TRANSPORT_REST:\n                continue" in src and "yield spec" in src, group="samples.tag:per-rpc")
    # uniqueness: the tail <Service>_<Rpc>_<kind> is injective for names without underscores
    s1, r1, k1, s2, r2, k2 = z3.Strings("s1 r1 k1 s2 r2 k2")
    u = z3.StringVal("_")
    asserts = [z3.Not(z3.Contains(x, u)) for x in (s1, r1, s2, r2)]
    asserts += [z3.Or(k == z3.StringVal("sync"), k == z3.StringVal("async")) for k in (k1, k2)]
    asserts += [z3.Concat(s1, u, r1, u, k1) == z3.Concat(s2, u, r2, u, k2), z3.Or(s1 != s2, r1 != r2, k1 != k2)]
    v = check_sat(asserts, timeout_ms=3000)
    run.results.append(Result("samples.tag:unique-for-distinct-(service, rpc, kind)", "discharged" if v.status == "unsat" else ("open" if v.status == "sat" else "unknown"),
                              v.backend, v.seconds, "lemma", group="samples.tag:unique"))
    run.assume("service and rpc names contain no underscore (protobuf style; UpperCamelCase identifiers) - precondition of the tag-uniqueness lemma")
    run.assume(*m.assumptions)


def _frag_macro(env, name):
    tree = J.parse(env, FR)
    return tree, J.find_macro(tree, name)


def calling_forms(run: Run):
    """Every variant of render_calling_form (the text after `# Make the request`)."""
    env = J.make_env()
    from gapic.samplegen_utils.types import CallingForm
    from gapic.generator.formatter import fix_whitespace
    tree, mac = _frag_macro(env, "render_calling_form")
    # the calling forms the generator can choose: the return values of the real CallingForm.method_default
    fdef, _h = find_def("gapic/samplegen_utils/types.py", "CallingForm.method_default")
    reachable = sorted({n.attr for n in ast.walk(fdef) if isinstance(n, ast.Attribute) and isinstance(n.value, ast.Name) and n.value.id == "cls"})
    forms = [f for f in CallingForm if f.name in reachable]
    run.table("samples.form:reachable-calling-forms", len(forms) == 6, detail=str(reachable), group="samples.form:cover")
    n = 0
    for form in forms:
        for transport in ("grpc", "grpc-async"):
            # a sample without response statements is produced for void rpcs only, which are plain unary calls
            for has_resp in ((True, False) if form.name == "Request" else (True,)):
                call = J.macro_callable(env, FR, "render_calling_form")
                mcall = J.macro_callable(env, FR, "render_method_call")
                sample = {"rpc": "DoThing", "request": type("R", (), {"flattenable": False, "request_list": []})(), "transport": transport, "is_internal": False}
                try:
                    method_text = str(mcall(sample, form, CallingForm, transport))
                    stmts = [{"print": ["%s", "$resp"]}] if has_resp else []
                    text = str(call(method_text, form, CallingForm, transport, stmts))
                except Exception as e:      # noqa
                    run.table(f"samples.form:{form.name}:{transport}:render-safe", False, detail=repr(e)[:200], group="samples.form:render-safe")
                    continue
                n += 1
                tag = f"samples.form:{form.name}:{transport}:{'resp' if has_resp else 'noresp'}"
                lines = text.splitlines()
                has_make = any(re.match(r"^# Make the request", ln) for ln in lines)
                has_handle = any(re.match(r"^# Handle the response", ln) for ln in lines)
                run.results.append(Result(f"{tag}:markers", "discharged" if (has_make and has_handle) else "open", "render", 0, "structural",
                                          detail=f"make={has_make} handle={has_handle}", group="samples.segments:every-phase-marker-present" if has_make and not has_handle
                                          else "samples.segments:markers"))
                # awaits in asyncio samples
                if transport == "grpc-async":
                    try:
                        t = ast.parse("async def _f():\n" + "\n".join("    " + ln for ln in lines if ln.strip()))
                    except SyntaxError as e:
                        run.table(f"{tag}:parses", False, detail=str(e) + text[:200], group="samples.form:parses")
                        continue
                    bad = unawaited_client_calls(t)
                    run.results.append(Result(f"{tag}:client-call-awaited-before-use", "open" if bad else "discharged", "ast", 0, "structural", detail="; ".join(bad)[:300],
                                              group="samples.async:client-call-awaited"))
                # the line structure of the calling-form text survives fix_whitespace (the index is computed on the raw text)
                wrapped = "def sample():\n    # Create a client\n    client = X()\n\n" + "\n".join(("    " + ln) if ln.strip() else "" for ln in lines) + "\n\n# [END x]\n"
                fixed = fix_whitespace(wrapped)
                run.results.append(Result(f"{tag}:line-structure-stable-under-fix_whitespace", "discharged" if len(fixed.splitlines()) == len(wrapped.rstrip().splitlines()) else "open",
                                          "eval", 0, "structural", detail=f"{len(wrapped.rstrip().splitlines())} -> {len(fixed.splitlines())} lines", group="samples.segments:raw-vs-formatted-lines"))
    run.table("samples.form:cover", n == 2 * (len(forms) + 1), detail=f"{n} renderings of {len(forms)} calling forms", group="samples.form:cover")


def unawaited_client_calls(tree):
    """client.<m>(...) results that are used (iterated, attribute-accessed, printed) without having been awaited."""
    bad = []
    par = {}
    for n in ast.walk(tree):
        for c in ast.iter_child_nodes(n):
            par[id(c)] = n
    pending = {}
    for n in ast.walk(tree):
        if isinstance(n, ast.Call) and isinstance(n.func, ast.Attribute) and isinstance(n.func.value, ast.Name) and n.func.value.id == "client":
            p = par.get(id(n))
            if isinstance(p, ast.Await):
                continue
            if isinstance(p, ast.Assign) and isinstance(p.targets[0], ast.Name):
                pending[p.targets[0].id] = n
            else:
                bad.append(f"result of {ast.unparse(n)[:60]} used without await")
    for name, call in pending.items():
        uses = [n for n in ast.walk(tree) if isinstance(n, ast.Name) and n.id == name and isinstance(n.ctx, ast.Load)]
        for u_ in uses:
            p = par.get(id(u_))
            if isinstance(p, ast.Await):
                continue
            bad.append(f"`{name}` (= {ast.unparse(call)[:50]}, a coroutine) is used in `{ast.unparse(p)[:60]}` without await")
    return bad


def request_setup_lines(run: Run):
    """render_request_setup for the client-streaming forms: the raw text must keep its line structure under fix_whitespace."""
    env = J.make_env()
    from gapic.samplegen_utils.types import CallingForm
    from gapic.generator.formatter import fix_whitespace
    setup = J.macro_callable(env, FR, "render_request_setup")
    NS = lambda **k: type("NS", (), k)()
    for form in CallingForm:
        single = NS(value="'v'", field="f", input_parameter=None)
        blocks = [NS(base="name", body=None, single=single, pattern=None)]
        full = NS(request_list=blocks, flattenable=False)
        rt = NS(ident=NS(name="Req"), get_field=lambda *a: NS(type=NS(name="T")))
        try:
            text = str(setup(full, "lab_v1", rt, form, CallingForm))
        except Exception as e:      # noqa
            run.table(f"samples.setup:{form.name}:render-safe", False, detail=repr(e)[:200], group="samples.setup:render-safe")
            continue
        lines = text.splitlines()
        wrapped = "def sample():\n    # Create a client\n    client = X()\n\n" + "\n".join(("    " + ln) if ln.strip() else "" for ln in lines) + "\n    # Make the request\n    x = 1\n\n# [END x]\n"
        fixed = fix_whitespace(wrapped)
        run.results.append(Result(f"samples.setup:{form.name}:line-structure-stable-under-fix_whitespace",
                                  "discharged" if len(fixed.splitlines()) == len(wrapped.rstrip().splitlines()) else "open", "eval", 0, "structural",
                                  detail=f"{len(wrapped.rstrip().splitlines())} -> {len(fixed.splitlines())} lines", group="samples.segments:raw-vs-formatted-lines"))


def structural(run: Run):
    # index is computed on the raw text, the file is the formatted one (the reason for the line-structure obligations above)
    fdef, h = find_def("gapic/generator/generator.py", "Generator._generate_samples_and_manifest")
    src = ast.unparse(fdef)
    run.functions.append({"qualname": "Generator._generate_samples_and_manifest", "source": "gapic/generator/generator.py", "sha256_16": h, "obligations": "AST patterns"})
    run.table("samples.index:snippet-built-from-the-rendered-sample-and-its-metadata", "index.add_snippet(snippet_index.Snippet(sample, snippet_metadata))" in src and
              "snippet_metadata.file = fpath" in src, group="samples.index:provenance")
    run.table("samples.index:file-content-is-the-same-render-after-fix_whitespace", "content=formatter.fix_whitespace(sample), name=fname" in src, group="samples.index:provenance")
    run.table("samples.index:file-name-is-snake-case-of-the-id", "fpath = utils.to_snake_case(spec['id']) + '.py'" in src, group="samples.index:provenance")
    # metadata of the client method: names, result type and parameters are taken from the same schema attributes the client templates render
    f3, h3 = find_def(SG, "_fill_sample_metadata")
    s3 = ast.unparse(f3)
    run.functions.append({"qualname": "_fill_sample_metadata", "source": SG, "sha256_16": h3, "obligations": "AST patterns"})
    g3 = "samples.metadata:provenance"
    run.table("samples.metadata:method-name-is-the-client-method-name", "snippet_metadata.client_method.short_name = utils.to_snake_case(method.client_method_name)" in s3, group=g3)
    run.table("samples.metadata:client-name-by-transport", "service.async_client_name if async_ else service.client_name" in s3, group=g3)
    run.table("samples.metadata:result-type-from-client_output-and-streamed-iff-server-streaming",
              "if not method.void:" in s3 and "method.client_output_async.ident.sphinx if async_ else method.client_output.ident.sphinx" in s3 and
              "if method.server_streaming:\n            snippet_metadata.client_method.result_type = f'Iterable[{snippet_metadata.client_method.result_type}]'" in s3, group=g3)
    run.table("samples.metadata:parameters-request-then-flattened-fields-then-retry-timeout-metadata",
              "if not method.client_streaming:" in s3 and "for field in method.flattened_fields.values():" in s3 and
              s3.index("name='request'") < s3.index("for field in method.flattened_fields.values():") < s3.index("name='retry'") < s3.index("name='timeout'") < s3.index("name='metadata'"),
              group=g3)
    # docstring: the client template embeds snippet.full_snippet; the enclosing file then goes through fix_whitespace, whose nested-definition rule
    # collapses the two blank lines sample.py.j2 leaves before `def`
    from gapic.generator.formatter import fix_whitespace
    probe = "class C:\n    def m(self):\n        r\"\"\"\n            import x\n\n\n            def sample():\n                pass\n        \"\"\"\n"
    collapsed = fix_whitespace(probe).count("\n\n\n") == 0
    env = J.make_env()
    stext = J.template_source(env, "examples/sample.py.j2")
    two_blank = bool(re.search(r"\{% endfor %\}\n\n\n\{#[^\n]*#\}\n\{% if sample.transport", stext))
    run.results.append(Result("samples.docstring:embedded-snippet-is-verbatim", "open" if (collapsed and two_blank) else "discharged", "eval", 0, "structural",
                              detail="sample.py.j2 leaves two blank lines before the sample function; fix_whitespace's nested rule collapses them inside the client docstring",
                              group="samples.docstring:verbatim"))
    # default request construction: a required message field whose type has no required field contributes nothing
    f2, h2 = find_def(SG, "generate_request_object")
    s2 = ast.unparse(f2)
    run.functions.append({"qualname": "generate_request_object", "source": SG, "sha256_16": h2, "obligations": "AST pattern"})
    recursion_only = "request += generate_request_object(api_schema, service, field.type, field_name_prefix=field_name)" in s2 and "if not request" not in s2
    run.results.append(Result("samples.request:every-required-field-contributes-an-entry", "open" if recursion_only else "unknown", "ast", 0, "structural",
                              detail="the message arm only recurses; a required message field whose type has no required field yields no entry and stays unset",
                              group="samples.request:required-message-fields"))


def method_name_agreement(run: Run):
    """The sample must call the method under the name the client defines: Method.client_method_name (snake-cased by the client templates)."""
    m = SchemaModel()
    import keyword
    m.globals["keyword.kwlist"] = pyv(tuple(keyword.kwlist))
    m.globals["keyword"] = pyv(("module", "keyword"))
    mp = Contract("make_private", source=("gapic/utils/code.py", "make_private"), params={"object_name": "Str"}, result="Str",
                  ensures=["result == (object_name if object_name.startswith('_') else '_' + object_name)"])
    m.add_contract(mp)
    run.verify(m, mp)
    from vf.model import FuncV
    m.globals["make_private"] = pyv(FuncV("contract", "make_private", recv=None))
    m.add_spec("base_name", ["mm"], "mm.method_pb.name + ('_' if mm.method_pb.name.lower() in keyword.kwlist else '')")
    c = Contract("Method.client_method_name", source=(W, "Method.client_method_name"), params={"self": "Method"}, result="Str",
                 ensures=["implies(not self.is_internal, result == base_name(self))",
                          "implies(self.is_internal, result == (base_name(self) if base_name(self).startswith('_') else '_' + base_name(self)))"])
    m.add_contract(c)
    try:
        run.verify(m, c)
    except Exception as e:      # noqa
        run.unsupported.append(f"Method.client_method_name: {e!r}"[:200])
    env = J.make_env()
    src = J.template_source(env, FR)
    mac = src[src.index("{% macro render_method_name(sample) %}"):]
    mac = mac[:mac.index("{% endmacro %}")]
    appends_underscore = "kwlist" in mac or "keyword" in mac or "client_method_name" in mac
    run.results.append(Result("samples.call:method-name-is-the-client's-method-name", "discharged" if appends_underscore else "open", "jinja-ast", 0, "structural",
                              detail="render_method_name renders sample.rpc|snake_case (with `_` prefix when internal); the client defines client_method_name|snake_case, which "
                                     "carries a trailing underscore when the rpc name is a Python keyword", group="samples.call:method-name"))


_C = {}


def _scen():
    if "f" not in _C:
        from vf.genlab import run_isolated
        _C["f"] = run_isolated("props.C14_native", "scenarios")
    return _C["f"]


def witness_still_fails(k):
    return any(x.get("known") == k["witness"] for x in _scen()["failures"])


def service_lookup(run: Run):
    """'For every RPC ... a sample is emitted': generate_sample_specs must find every service of the API - the services map is keyed by the
    service's own proto package, which is below the API's root package for a service in a sub-package."""
    import ast as _ast
    from vf.core import find_def
    fdef, h = find_def("gapic/samplegen/samplegen.py", "generate_sample_specs")
    run.functions.append({"qualname": "generate_sample_specs (service / method lookup)", "source": "gapic/samplegen/samplegen.py", "sha256_16": h, "obligations": "AST pattern"})
    by_root = [n for n in _ast.walk(fdef) if isinstance(n, _ast.Subscript) and _ast.unparse(n.value) in ("api_schema.services", "api_schema.all_methods")
               and "api_schema.naming.proto_package" in _ast.unparse(n.slice)]
    run.results.append(Result("samples.specs:services-found-by-their-own-package", "open" if by_root else "discharged", "ast", 0, "structural",
                              detail=f"{len(by_root)} look-ups keyed by the API's root package: " + "; ".join(_ast.unparse(n)[:90] for n in by_root[:2]),
                              group="samples.specs:service-lookup"))


def run(run: Run):
    run.witness_check = witness_still_fails
    stage1(run)
    structural(run)
    method_name_agreement(run)
    calling_forms(run)
    request_setup_lines(run)
    service_lookup(run)
    run.native_standin("props.C14_native", "extra_layouts",
                       "BOUNDED: internal methods embed the sample of their own kind; a request type of a proto-plus dependency package is built from that package",
                       group="native.C14:extra-layouts")
    run.native_standin("props.C14_native", "scenarios",
                       "8 rpcs (unary with required fields of every kind + oneof + resource reference, paged, LRO, server / client / bidi streaming, void, request from "
                       "another package) x sync/asyncio: compile, run against a loopback channel, decode the request, compare metadata and docstring with the file")
    run.not_decided += ["Validator.validate_and_transform_request and the request-rendering macros are exercised by the native stand-in only",
                        "asyncio LRO samples print the un-awaited `.result()` coroutine (they run to completion, which is all the statement asks)"]


def falsify(run, group, info):
    fails = [x for x in _scen()["failures"] if not x.get("known")]
    return ({"kind": "samples", "failures": fails[:6]}, True) if fails else (None, False)


def replay(path):
    import json
    fails = [x for x in _scen()["failures"] if not x.get("known")]
    print("sample scenarios ->", json.dumps(fails[:4])[:1500] if fails else f"conform ({_scen()['cases']} samples; known findings aside)")
    return 1 if fails else 0
