"""C19 - resource path helpers build and parse names as mutual inverses.

(1) Emission (provenance, every variant): `<name>_path` formats MessageType.resource_path_formatted with exactly resource_path_args, in
    order, as keyword arguments of the same names; `parse_<name>_path` matches MessageType.path_regex_str and returns groupdict() or {};
    the asyncio client delegates to the sync client's helpers; same for the common resources.
(2) Per pattern of the property's grammar, on the strings the *real* code computes (path_regex_str, resource_path_formatted,
    resource_path_args of a real MessageType):
      a. args are the pattern's variables in order; the format string is the pattern with `=**` stripped;
      b. L(regex) == l0 V l1 V ... ln   (ground regex equivalence, z3)              -> non-matching strings parse to {}
      c. uniqueness of the decomposition l0 x1 l1 ... xn ln under the delimiter hypothesis (ground word equation, cvc5)
         -> with re.match's contract, parse(build(x)) == x and build(parse(p)) == p, independent of greedy/lazy matching.
    A proof per pattern; the bound is the grammar (bounded stand-in, never counted as proved).
"""
import ast, itertools, os, re, subprocess, tempfile, time
import z3
from jinja2 import nodes
from vf.core import Run, Result
from vf import j2sym as J
from vf.emit import parse_variant, frag_info

CLIENT = J.SERVICE_DIR + "client.py.j2"
ACLIENT = J.SERVICE_DIR + "async_client.py.j2"


# ---------------------------------------------------------------------------------------------------------------- (1)
def emission(run: Run, env):
    tree = J.parse(env, CLIENT)
    specs = [("message", "service.resource_messages|sort(attribute='resource_type')", "{m}.resource_path_formatted", "", "resource"),
             ("common", "service.common_resources.values()|sort(attribute='type_name')", "{m}.message_type.resource_path", ".message_type", "common")]
    for kind, iter_path, fmt_path, sub, label in specs:
        loops = [f for f in tree.find_all(nodes.For) if J.has_data(f, "_path(") and J.has_data(f, "groupdict()")
                 and (("common_" in "".join(d.data for d in f.find_all(nodes.TemplateData))) == (kind == "common"))]
        run.table(f"paths.emit:{label}:loop-present", len(loops) == 1, group="paths.emit:loop-present")
        if len(loops) != 1:
            continue
        vs = J.render_nodes(env, tree, [loops[0]], ["service", "api", "opts"], maxlen=2)
        run.fragments.append(frag_info(CLIENT, f"{label} path helpers loop", vs))
        checked = 0
        for vi, var in enumerate(vs):
            tag = f"paths.emit:{label}:v{vi}"
            if var.error:
                run.table(f"{tag}:render-safe", False, detail=var.error, group="paths.emit:render-safe")
                continue
            nmsg = var.d(("len", iter_path), 0)
            if nmsg != 1:
                continue
            m0 = f"{iter_path}[0]"
            try:
                tree_py, _ = parse_variant(var.text, wrap_def="class _C:")
            except SyntaxError as e:
                run.table(f"{tag}:parses", False, detail=str(e), group="paths.emit:parses")
                continue
            fns = [n for n in tree_py.body[0].body if isinstance(n, ast.FunctionDef)]
            ok = len(fns) == 2
            run.table(f"{tag}:two-helpers-per-resource", ok, group="paths.emit:two-helpers")
            if not ok:
                continue
            checked += 1
            build, parse = fns
            nargs = var.d(("len", f"{m0}{sub}.resource_path_args"), 0)
            args = [var.hole_for(f"{m0}{sub}.resource_path_args[{i}]") for i in range(nargs)]
            name_tok = var.hole_for(f"{m0}{sub}.resource_type|snake_case")
            prefix = "common_" if kind == "common" else ""
            run.table(f"{tag}:helper-names", build.name == f"{prefix}{name_tok}_path" and parse.name == f"parse_{prefix}{name_tok}_path" and name_tok is not None,
                      detail=f"{build.name}, {parse.name}", group="paths.emit:helper-names")
            run.table(f"{tag}:build-parameters-are-the-pattern-variables-in-order", [a.arg for a in build.args.args] == args, detail=str([a.arg for a in build.args.args]),
                      group="paths.emit:build-parameters")
            ret = build.body[-1]
            ok = isinstance(ret, ast.Return) and isinstance(ret.value, ast.Call) and isinstance(ret.value.func, ast.Attribute) and ret.value.func.attr == "format" \
                and isinstance(ret.value.func.value, ast.Constant)
            if ok:
                fmt_tok = ret.value.func.value.value
                kws = [(k.arg, ast.unparse(k.value)) for k in ret.value.keywords]
                ok = var.holes.get(fmt_tok) == fmt_path.format(m=m0) and kws == [(a, a) for a in args] and not ret.value.args
            run.table(f"{tag}:build-formats-the-stripped-pattern-with-its-variables", ok, detail=ast.unparse(ret)[:160], group="paths.emit:build-body")
            st = [s for s in parse.body if not (isinstance(s, ast.Expr) and isinstance(s.value, ast.Constant))]
            ok = len(st) == 2 and ast.unparse(st[1]) == "return m.groupdict() if m else {}" and isinstance(st[0], ast.Assign) \
                and isinstance(st[0].value, ast.Call) and ast.unparse(st[0].value.func) == "re.match" and len(st[0].value.args) == 2 \
                and isinstance(st[0].value.args[0], ast.Constant) and var.holes.get(st[0].value.args[0].value) == f"{m0}{sub}.path_regex_str" \
                and ast.unparse(st[0].value.args[1]) == "path" and [a.arg for a in parse.args.args] == ["path"]
            run.table(f"{tag}:parse-matches-the-pattern-regex-and-returns-groups-or-empty", ok, detail="; ".join(ast.unparse(s) for s in st)[:200],
                      group="paths.emit:parse-body")
            # raw string literal: the regex text reaches re.match unchanged
            raw = re.search(r're\.match\(r"', var.text) is not None
            run.table(f"{tag}:regex-is-a-raw-string-literal", raw, group="paths.emit:raw-literal")
        run.table(f"paths.emit:{label}:some-variant-checked", checked > 0, group="paths.emit:cover")
    # asyncio client delegates
    atree = J.parse(env, ACLIENT)
    src = J.template_source(env, ACLIENT)
    for pat in ("{{ message.resource_type|snake_case }}_path = staticmethod({{ service.client_name }}.{{ message.resource_type|snake_case }}_path)",
                "parse_{{ message.resource_type|snake_case}}_path = staticmethod({{ service.client_name }}.parse_{{ message.resource_type|snake_case }}_path)",
                "common_{{ resource_msg.message_type.resource_type|snake_case }}_path = staticmethod({{ service.client_name }}.common_{{ resource_msg.message_type.resource_type|snake_case }}_path)",
                "parse_common_{{ resource_msg.message_type.resource_type|snake_case }}_path = staticmethod({{ service.client_name }}.parse_common_{{ resource_msg.message_type.resource_type|snake_case }}_path)"):
        run.table("paths.emit:async:delegates:" + pat[:30], pat in src, group="paths.emit:async-delegates")


# ---------------------------------------------------------------------------------------------------------------- (2)
def mk_message(pattern):
    from gapic.schema import wrappers
    from google.protobuf import descriptor_pb2
    from google.api import resource_pb2
    opts = descriptor_pb2.MessageOptions()
    opts.Extensions[resource_pb2.resource].pattern.append(pattern)
    opts.Extensions[resource_pb2.resource].type = "lab.example.com/Thing"
    return wrappers.MessageType(message_pb=descriptor_pb2.DescriptorProto(name="Thing", options=opts), fields={}, nested_enums={}, nested_messages={})


def split_pattern(p):
    """pattern -> (literals l0..ln, variables v1..vn, last_is_multi)"""
    lits, vars_, pos, multi = [], [], 0, False
    for mt in re.finditer(r"\{([a-zA-Z0-9_\-]+)(=\*\*)?\}", p):
        lits.append(p[pos:mt.start()])
        vars_.append(mt.group(1))
        multi = bool(mt.group(2))
        pos = mt.end()
    lits.append(p[pos:])
    return lits, vars_, multi


def grammar(tier):
    seps = ["/", "-", "_", "~", "."]
    colls = ["projects", "locations", "keys", "as", "b"]
    out = ["*"]
    maxv = 3 if tier == "quick" else 6
    names = ["project", "type", "key", "format", "b", "list"]       # reserved (non-keyword) words among the variable names
    for n in range(1, maxv + 1):
        base = "/".join(f"{colls[i % len(colls)]}/{{{names[i]}}}" for i in range(n))
        out.append(base)
        out.append(base + "/settings")                                  # singleton suffix
        out.append(re.sub(r"\{(\w+)\}$", r"{\1=**}", base))            # trailing multi-segment variable
        if n >= 2:
            for s in seps[1:]:
                # two variables of one segment separated by a non-slash separator
                out.append(base.replace("}/" + colls[1] + "/{", "}" + s + "{", 1))
        if n >= 3:
            out.append(re.sub(r"\{(\w+)\}$", r"{\1=**}", base.replace("}/" + colls[1] + "/{", "}~{", 1)))
    return sorted(set(out))


def cvc5_unsat(solver, timeout_ms):
    with tempfile.NamedTemporaryFile("w", suffix=".smt2", delete=False) as f:
        f.write("(set-logic ALL)\n" + solver.to_smt2())
        p = f.name
    t0 = time.time()
    try:
        out = subprocess.run(["/usr/bin/cvc5", "--strings-exp", f"--tlimit={timeout_ms}", p], capture_output=True, text=True,
                             timeout=timeout_ms / 1000 + 5).stdout.strip().splitlines()
        res = out[0] if out else "unknown"
    except Exception:        # noqa
        res = "unknown"
    finally:
        os.unlink(p)
    return res, time.time() - t0


def unique_decomposition(lits, multi, timeout_ms):
    """l0 x1 l1 ... xn ln == l0 y1 l1 ... yn ln, x_i non-empty and free of the pattern's delimiters (the last one free of nothing
    but its own following literal's... if `**`), y_i arbitrary non-empty  ==>  x == y.    Ground literals; cvc5."""
    n = len(lits) - 1
    xs = [z3.String(f"x{i}") for i in range(n)]
    ys = [z3.String(f"y{i}") for i in range(n)]

    def build(v):
        parts = [z3.StringVal(lits[0])] if lits[0] else []
        for i in range(n):
            parts.append(v[i])
            if lits[i + 1]:
                parts.append(z3.StringVal(lits[i + 1]))
        return z3.Concat(parts) if len(parts) > 1 else parts[0]
    delims = sorted({c for l in lits for c in l if not c.isalnum()} | {"/"})
    s = z3.Solver()
    for i in range(n):
        s.add(z3.Length(xs[i]) > 0, z3.Length(ys[i]) > 0)
        allowed_slash = multi and i == n - 1
        for d in delims:
            if d == "/" and allowed_slash:
                continue
            if allowed_slash and d != "/":
                continue
            s.add(z3.Not(z3.Contains(xs[i], z3.StringVal(d))))
    s.add(build(xs) == build(ys))
    if multi:
        # a trailing `**` value may contain '/' and even the pattern's own literals, so the decomposition is not unique; what the
        # lazy groups of the regex select is the decomposition whose components are shortest, left to right: x must be that one
        worse = []
        for i in range(n):
            worse.append(z3.And([xs[j] == ys[j] for j in range(i)] + [z3.Length(ys[i]) < z3.Length(xs[i])]))
        s.add(z3.Or(worse))
    else:
        s.add(z3.Or([xs[i] != ys[i] for i in range(n)]))
    return cvc5_unsat(s, timeout_ms)


def visible_types(run: Run):
    """`every resource pattern visible to a service`: the resources of a message are collected from MessageType.recursive_field_types (through
    recursive_resource_fields), a worklist over field iterators.  Under contract, on the real code: Field.type (message wrapper iff the descriptor
    names a type that resolved to a message; enum likewise; a PrimitiveType otherwise), Field.is_primitive, and the worklist itself - the result
    holds the type of every non-primitive field of the message and is closed under "fields of a message type in the result".  The invariants
    speak about the pending set: a field list is either fully recorded or still on the stack (or the one being iterated)."""
    from vf.schema import SchemaModel
    from vf.pyvc import Contract
    W = "gapic/schema/wrappers.py"
    m = SchemaModel()
    m.classes["FieldPb"]["type_name"] = "Str"
    not_typed = "not (self.type_name != '' and (self.message is not None or self.enum is not None))"
    m.add_spec("one_kind", ["f"], "f.message is None or f.enum is None")
    ct = Contract("Field.type", source=(W, "Field.type"), params={"self": "Field"}, result="AnyType",
                  # (a type name resolves to a message or to an enum, never both: clauses that tell the two apart are stated for such fields only,
                  # so that the order of the two tests in the code is not pinned down)
                  ensures=["implies(one_kind(self) and self.type_name != '' and self.message is not None, result is self.message)",
                           "implies(one_kind(self) and self.type_name != '' and self.enum is not None, result is self.enum)",
                           f"implies({not_typed}, isinstance(result, PrimitiveType))",
                           "implies(one_kind(self), isinstance(result, MessageType) == (self.type_name != '' and self.message is not None))"],
                  raises={"TypeError": f"{not_typed} and self.field_pb.type not in (1, 2, 3, 4, 5, 6, 7, 13, 15, 16, 17, 18, 8, 9, 12)"})
    cp = Contract("Field.is_primitive", source=(W, "Field.is_primitive"), params={"self": "Field"}, result="Bool",
                  ensures=["result == isinstance(self.type, PrimitiveType)"])
    m.add_spec("closedF", ["F", "types"], "forall(lambda f: implies(not f.is_primitive, f.type in types), F)")
    m.add_spec("onstack", ["F", "stack"], "exists(lambda j: stack[j] is F, 0, len(stack))")
    m.add_spec("wfm", ["g"], "g.type_name != '' and g.message is not None")
    W1 = "closedF(self.fields.values(), types) or onstack(self.fields.values(), stack)"
    W2 = "forall(lambda g: implies(wfm(g) and g.type in types, closedF(g.message.fields.values(), types) or onstack(g.message.fields.values(), stack)), Field)"
    W3 = "forall(lambda t: implies(t in types, not isinstance(t, PrimitiveType)), AnyType)"
    F0 = "forall(lambda i: implies(not fields_iter[i].is_primitive, fields_iter[i].type in types), 0, _k)"
    F1 = "closedF(self.fields.values(), types) or onstack(self.fields.values(), stack) or self.fields.values() is fields_iter"
    F2 = ("forall(lambda g: implies(wfm(g) and g.type in types, closedF(g.message.fields.values(), types) or onstack(g.message.fields.values(), stack) "
          "or g.message.fields.values() is fields_iter), Field)")
    cr = Contract("MessageType.recursive_field_types", source=(W, "MessageType.recursive_field_types"), params={"self": "MessageType"}, result="Seq[AnyType]",
                  locals={"types": "Set[AnyType]", "stack": "Seq[Seq[Field]]", "fields_iter": "Seq[Field]"},
                  requires=["forall(lambda f: one_kind(f), Field)"],          # validity of the input schema (protoc: one name, one kind of type)
                  ensures=["forall(lambda f: implies(not f.is_primitive, f.type in result), self.fields.values())",
                           "forall(lambda g: implies(wfm(g) and g.type in result, forall(lambda f: implies(not f.is_primitive, f.type in result), g.message.fields.values())), Field)",
                           "forall(lambda t: not isinstance(t, PrimitiveType), result)"],
                  invariants={"while#1": [W1, W2, W3], "for#2": [F0, F1, F2, W3]})
    for c in (ct, cp, cr):
        m.add_contract(c)
    for c in (ct, cp, cr):
        run.verify(m, c)
    run.assume(*m.assumptions)
    run.assume("input validity: no Field has both `message` and `enum` set (a type name denotes one kind of type), and a Field whose `message` is set has a "
               "non-empty type_name (what the loader builds; the closure clause is stated for such fields); "
               "termination of the worklist is not proved (each message type is pushed at most once: the push is guarded by `not in types`)")
    run.not_decided.append("minimality of recursive_field_types (every member is reachable from the message) and the resource collection built on it "
                           "(recursive_resource_fields, Service.resource_messages) are exercised by the native stand-in only")


def per_pattern(run: Run):
    from vf import regex2z3 as R
    pats = grammar(run.tier)
    n_ok = n_bad = n_unk = 0
    bad, samples = [], []
    t0 = time.time()
    NONL = z3.Plus(R.notchars(["\n"]))
    for p in pats:
        msg = mk_message(p)
        rx, fmt, args = msg.path_regex_str, msg.resource_path_formatted, list(msg.resource_path_args)
        issues = []
        if p == "*":
            res, w = R.equivalent(R.language(rx), z3.Star(R.notchars(["\n"])), 5000)
            if res != "unsat":
                issues.append(f"wildcard regex {rx!r} does not accept everything ({w!r})")
        else:
            lits, vars_, multi = split_pattern(p)
            if args != vars_:
                issues.append(f"args {args} != variables {vars_}")
            if fmt != re.sub(r"=\*\*\}", "}", p):
                issues.append(f"format string {fmt!r}")
            spec = None
            for i, l in enumerate(lits):
                piece = z3.Re(l) if l else None
                for part in ([piece] if piece is not None else []) + ([NONL] if i < len(vars_) else []):
                    spec = part if spec is None else z3.Concat(spec, part)
            try:
                res, w = R.equivalent(R.language(rx), spec, 8000)
            except NotImplementedError as e:
                res, w = "unknown", str(e)
            if res == "sat":
                issues.append(f"language of {rx!r} differs from the pattern language on {w!r}")
            elif res != "unsat":
                n_unk += 1
            r2, dt = unique_decomposition(lits, multi, 15000)
            if r2 == "sat":
                issues.append("decomposition under the delimiter hypothesis is not unique")
            elif r2 != "unsat":
                n_unk += 1
        if issues:
            n_bad += 1
            bad.append({"pattern": p, "regex": rx, "issues": issues})
        else:
            n_ok += 1
        if len(samples) < 6:
            samples.append({"pattern": p, "regex": rx, "format": fmt, "args": args})
    run.bounded.append({"what": "per resource pattern: args/format structure, ground regex-language equivalence (z3) and uniqueness of the decomposition (cvc5) on the strings the real MessageType computes",
                        "bound": f"{len(pats)} patterns: 1..{3 if run.tier == 'quick' else 6} variables, collection ids, separators - _ ~ ., trailing **, singleton suffix, wildcard",
                        "cases": len(pats), "proved": n_ok, "failed": n_bad, "undecided": n_unk, "seconds": round(time.time() - t0, 1), "samples": samples,
                        "failures": bad[:8]})
    # the statement's value domain is "characters that are not delimiters of the pattern": that includes a newline, which Python's
    # `.` does not match and before which `$` matches.  One ground obligation, without the no-newline restriction:
    msg = mk_message("shelves/{shelf}")
    res, w = R.equivalent(R.language(msg.path_regex_str), z3.Concat(z3.Re("shelves/"), z3.Plus(R.ANYCHAR)), 8000)
    run.results.append(Result("paths.pattern:newline-values", "discharged" if res == "unsat" else ("open" if res == "sat" else "unknown"), "z3", 0, "ground-regex",
                              detail=f"distinguishing string {w!r}", group="paths.pattern:newline-values"))
    from vf.core import load_known_findings
    known = [k for k in load_known_findings().get("C19", []) if k["obligation"] == "paths.pattern:language-and-inverse"]
    unexplained = [b for b in bad if not any(re.search(k["class"], b["pattern"]) for k in known)]
    explained = [b for b in bad if b not in unexplained]
    if explained:
        run.results.append(Result("paths.pattern:language-and-inverse", "known", "z3+cvc5", 0, "ground-regex",
                                  detail=str(explained[:3]), group="paths.pattern:language-and-inverse"))
    if unexplained:
        run.results.append(Result("paths.pattern:language-and-inverse:unexplained", "open", "z3+cvc5", 0, "ground-regex", detail=str(unexplained[:3]),
                                  group="paths.pattern:language-and-inverse"))
        run._c19_bad = unexplained


def witness_still_fails(k):
    from vf.genlab import run_isolated
    f = run_isolated("props.C19_native", "scenarios")
    return any(x.get("known") == k["witness"] for x in f["failures"])


def run(run: Run):
    run.witness_check = witness_still_fails
    env = J.make_env()
    emission(run, env)
    per_pattern(run)
    visible_types(run)
    run.assume("stdlib re.match returns a match iff one exists, and its groups are a valid decomposition of the string along the regex; "
               "with lazy groups (.+?) it is the decomposition with the shortest components from left to right (used only for patterns with a trailing `**`)",
               "str.format substitutes each {name} by the keyword argument",
               "segment values contain no newline (Python's `.` and `$`) - see known findings")
    run.not_decided.append("an arity-generic inverse lemma with symbolic literals (cvc5 and z3 return unknown from two variables on); "
                           "the per-pattern ground proofs stand in, bounded by the grammar")
    run.native_standin("props.C19_native", "scenarios")



def falsify(run, group, info):
    from vf.genlab import run_isolated
    f = run_isolated("props.C19_native", "scenarios")
    run.bounded.append({"what": "falsifier: generated client's <name>_path / parse_<name>_path on sampled values", "cases": f["cases"]})
    fails = [x for x in f["failures"] if not x.get("known")]
    return ({"kind": "paths", "failures": fails[:6]}, True) if fails else (None, False)


def replay(path):
    import json
    from vf.genlab import run_isolated
    f = run_isolated("props.C19_native", "scenarios")
    fails = [x for x in f["failures"] if not x.get("known")]
    print("path helper scenarios ->", json.dumps(fails[:4]) if fails else "conform (known findings aside)")
    return 1 if fails else 0
