"""C19 replay: the generated client's path helpers on sampled values.  Bounded."""
import itertools, re


PATTERNS = {
    "Shelf": "shelves/{shelf}",
    "Book": "shelves/{shelf}/books/{book}",
    "Blob": "buckets/{bucket}/blobs/{blob=**}",
    "Pair": "as/{a}-{b}/cs/{c}",
    "Dotted": "as/{a}.{b}/cs/{c}",
    "Settings": "projects/{project}/settings",
    "Tilde": "zones/{zone}~{sub}_{leaf}",
    # variables named like reserved (non-keyword) words: the helper's keyword parameters are the pattern's own variable names
    "Media": "projects/{project}/mediaTypes/{type}",
    "Export": "exports/{format}~{list}",
    "Any": "*",
    # variable names with digits and capitals
    "Endpoint": "networks/{network}/ranges/{ipv4_range}",
    "Asset": "stores/{storeId}/assets/{asset_2}",
}


def files():
    from vf import genlab as G
    # a resource declared in a file of another package that is only an import (not generated), reached through a resource_reference alone
    store = G.new_file("acme/store/v1/resources.proto", "acme.store.v1")
    G.add_message(store, "Bucket", [G.F("name", 1, G.T.TYPE_STRING)], resource=("store.example.com/Bucket", "buckets/{bucket}"))
    fd = G.new_file("acme/lab/v1/lab.proto", "acme.lab.v1", deps=G.STD_DEPS + ["acme/store/v1/resources.proto"])
    for name, pat in PATTERNS.items():
        G.add_message(fd, name, [G.F("name", 1, G.T.TYPE_STRING)], resource=(f"lab.example.com/{name}", pat))
    # two file-level resource definitions (no message of their own), reached through references only
    from google.api import resource_pb2
    for typ, pat in (("lab.example.com/Publisher", "publishers/{publisher}"), ("lab.example.com/Author", "authors/{author}/pens/{pen}")):
        rd = fd.options.Extensions[resource_pb2.resource_definition].add()
        rd.type = typ
        rd.pattern.append(pat)
    # a definition seen only through a reference two message levels below the request, and one whose type is one of the "common" resource types
    for typ, pat in (("lab.example.com/Curator", "curators/{curator}"), ("cloudresourcemanager.googleapis.com/Project", "projects/{project}")):
        rd = fd.options.Extensions[resource_pb2.resource_definition].add()
        rd.type = typ
        rd.pattern.append(pat)
    G.add_message(fd, "Section", [G.F("curator", 1, G.T.TYPE_STRING, resource_ref="lab.example.com/Curator")])
    # a resource message and a referenced definition that are visible only BELOW the value message of a map field
    rd = fd.options.Extensions[resource_pb2.resource_definition].add()
    rd.type = "lab.example.com/Binder"
    rd.pattern.append("binders/{binder}")
    G.add_message(fd, "Leaflet", [G.F("name", 1, G.T.TYPE_STRING)], resource=("lab.example.com/Leaflet", "leaflets/{leaflet}"))
    G.add_message(fd, "TagValue", [G.F("leaflet", 1, G.T.TYPE_MESSAGE, type_name=".acme.lab.v1.Leaflet"), G.F("binder", 2, G.T.TYPE_STRING, resource_ref="lab.example.com/Binder")])
    tagged = G.add_message(fd, "Tagged")
    te = tagged.nested_type.add(name="TagsEntry")
    te.field.append(G.F("key", 1, G.T.TYPE_STRING)); te.field.append(G.F("value", 2, G.T.TYPE_MESSAGE, type_name=".acme.lab.v1.TagValue"))
    te.options.map_entry = True
    tagged.field.append(G.F("tags", 1, G.T.TYPE_MESSAGE, label=G.REPEATED, type_name=".acme.lab.v1.Tagged.TagsEntry"))
    G.add_message(fd, "Wing", [G.F("sections", 1, G.T.TYPE_MESSAGE, label=G.REPEATED, type_name=".acme.lab.v1.Section")])
    G.add_message(fd, "Req", [G.F("name", 1, G.T.TYPE_STRING), G.F("publisher_ref", 41, G.T.TYPE_STRING, resource_ref="lab.example.com/Publisher"),
                              G.F("wing", 43, G.T.TYPE_MESSAGE, type_name=".acme.lab.v1.Wing"), G.F("tagged", 45, G.T.TYPE_MESSAGE, type_name=".acme.lab.v1.Tagged"),
                              G.F("project_ref", 44, G.T.TYPE_STRING, resource_ref="cloudresourcemanager.googleapis.com/Project"),
                              G.F("author_ref", 42, G.T.TYPE_STRING, resource_ref="lab.example.com/Author")] +
                  [G.F(f"r{i}", i + 2, G.T.TYPE_STRING, resource_ref=f"lab.example.com/{n}") for i, n in enumerate(PATTERNS)] +
                  [G.F("bucket_ref", 40, G.T.TYPE_STRING, resource_ref="store.example.com/Bucket")])
    # resources visible only through the result type of a long-running operation: a resource message (Report) and a file-level definition (Finding)
    # that the result refers to; the request of that method refers to no resource at all
    for typ, pat in (("lab.example.com/Finding", "findings/{finding}"),):
        rd = fd.options.Extensions[resource_pb2.resource_definition].add()
        rd.type = typ
        rd.pattern.append(pat)
    G.add_message(fd, "Report", [G.F("name", 1, G.T.TYPE_STRING), G.F("finding", 2, G.T.TYPE_STRING, resource_ref="lab.example.com/Finding")],
                  resource=("lab.example.com/Report", "reports/{report}"))
    G.add_message(fd, "ReportMeta", [G.F("pct", 1, G.T.TYPE_INT32)])
    G.add_message(fd, "PlainReq", [G.F("title", 1, G.T.TYPE_STRING)])
    svc = G.add_service(fd, "Lab")
    for name in PATTERNS:
        G.add_method(svc, f"Get{name}", ".acme.lab.v1.Req", f".acme.lab.v1.{name}", http=("get", "/v1/{name=%s/*}" % name.lower()))
    G.add_method(svc, "MakeReport", ".acme.lab.v1.PlainReq", ".google.longrunning.Operation", http=("post", "/v1/reports:make"), body="*", lro=("Report", "ReportMeta"))
    return [store, fd]


def scenarios():
    from vf import genlab as G
    G.stub_pandoc_if_absent()
    failures, cases = [], 0
    api, res = G.generate(files(), "autogen-snippets=false", to_generate=["acme/lab/v1/lab.proto"])
    with G.materialised(res):
        from acme import lab_v1
        C = lab_v1.LabClient
        vals = ["x", "my-val", "a.b", "v_1", "p~q", "3", "Zz"]
        for name, pat in PATTERNS.items():
            sn = name.lower()
            if pat == "*":
                for p in ("", "anything/at all", "x"):
                    cases += 1
                    if getattr(C, f"parse_{sn}_path")(p) != {}:
                        failures.append({"resource": name, "what": "wildcard parse", "path": p})
                continue
            vars_ = re.findall(r"\{(\w+)(?:=\*\*)?\}", pat)
            lits = re.split(r"\{\w+(?:=\*\*)?\}", pat)
            delims = {c for l in lits for c in l if not c.isalnum()}
            multi = pat.endswith("=**}")
            ok_vals = [v for v in vals if not (set(v) & delims)]
            for combo in itertools.islice(itertools.product(ok_vals, repeat=len(vars_)), 40):
                seg = dict(zip(vars_, combo))
                if multi:
                    seg[vars_[-1]] = combo[-1] + "/deep/er"
                cases += 1
                try:
                    path = getattr(C, f"{sn}_path")(**seg)
                    back = getattr(C, f"parse_{sn}_path")(path)
                    again = getattr(C, f"{sn}_path")(**back) if back else None
                except Exception as e:      # noqa
                    failures.append({"resource": name, "pattern": pat, "segments": seg, "error": repr(e)[:200]})
                    continue
                if back != seg or again != path:
                    failures.append({"resource": name, "pattern": pat, "segments": seg, "path": path, "parsed": back})
            # strings outside the pattern's language parse to {}
            try:
                getattr(C, f"{sn}_path")(**{v: "q" for v in vars_})
            except Exception as e:      # noqa
                failures.append({"resource": name, "pattern": pat, "what": "the build helper does not take the pattern's variables as keywords", "error": repr(e)[:200]})
                continue
            for bad in ("", "nope", pat.split("{")[0].rstrip("/"), "x" + getattr(C, f"{sn}_path")(**{v: "q" for v in vars_})):
                cases += 1
                if getattr(C, f"parse_{sn}_path")(bad) != {}:
                    failures.append({"resource": name, "pattern": pat, "what": "non-matching string parsed", "path": bad,
                                     "parsed": getattr(C, f"parse_{sn}_path")(bad)})
            if "." in "".join(lits):
                cases += 1
                wrong = getattr(C, f"{sn}_path")(**{v: "q" for v in vars_}).replace(".", "Q", 1)
                if getattr(C, f"parse_{sn}_path")(wrong) != {}:
                    failures.append({"resource": name, "pattern": pat, "what": "'.' separator matched another character", "path": wrong,
                                     "parsed": getattr(C, f"parse_{sn}_path")(wrong), "known": "dot-unescaped"})
            # newline corner
            cases += 1
            seg = {v: "q" for v in vars_}
            seg[vars_[-1]] = "q\n"
            back = getattr(C, f"parse_{sn}_path")(getattr(C, f"{sn}_path")(**seg))
            if back != seg:
                failures.append({"resource": name, "pattern": pat, "what": "value ending in a newline does not survive parse(build(.))", "parsed": back,
                                 "known": "newline"})
        # a resource visible only through a reference into an imported package
        cases += 1
        if not (hasattr(C, "bucket_path") and hasattr(C, "parse_bucket_path") and hasattr(lab_v1.LabAsyncClient, "bucket_path")):
            failures.append({"resource": "store.example.com/Bucket", "what": "no path helpers for a referenced resource of an imported package"})
        elif C.parse_bucket_path(C.bucket_path(bucket="b1")) != {"bucket": "b1"}:
            failures.append({"resource": "store.example.com/Bucket", "what": "helpers are not inverse"})
        # file-level resource definitions: every referenced one gets its pair of helpers
        for nm, seg in (("publisher", {"publisher": "p1"}), ("author", {"author": "a1", "pen": "n2"}),
                        # ... and the two that are visible only through the result type of the long-running MakeReport
                        ("report", {"report": "r1"}), ("finding", {"finding": "f1"}),
                        # ... the one referenced two levels down, and the API's own declaration of a "common" resource type
                        ("curator", {"curator": "c1"}), ("project", {"project": "p1"}),
                        # ... and the two visible only below a map value
                        ("leaflet", {"leaflet": "l1"}), ("binder", {"binder": "b1"})):
            cases += 1
            if not (hasattr(C, f"{nm}_path") and hasattr(C, f"parse_{nm}_path") and hasattr(lab_v1.LabAsyncClient, f"parse_{nm}_path")):
                failures.append({"resource": nm, "what": "no path helpers for a referenced file-level resource definition"})
            elif getattr(C, f"parse_{nm}_path")(getattr(C, f"{nm}_path")(**seg)) != seg:
                failures.append({"resource": nm, "what": "helpers of a file-level resource definition are not inverse"})
        # common resources
        for cn, args in (("project", {"project": "p1"}), ("location", {"project": "p1", "location": "l-2"}), ("folder", {"folder": "f"}),
                         ("organization", {"organization": "o"}), ("billing_account", {"billing_account": "b"})):
            cases += 1
            path = getattr(C, f"common_{cn}_path")(**args)
            if getattr(C, f"parse_common_{cn}_path")(path) != args or getattr(C, f"parse_common_{cn}_path")("zzz") != {}:
                failures.append({"resource": "common " + cn, "path": path})
    return {"cases": cases, "failures": failures}
