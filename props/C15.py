"""C15 - gapic_metadata.json and the fix-up script describe the generated surface exactly.

Provenance (re-derived on every run):
  * API.gapic_metadata (real AST): per service, client kinds {grpc, grpc-async} under `"grpc" in options.transport` and {rest} under
    `"rest" in options.transport`; library_client is service.client_name / async_client_name; every method of the service is recorded under
    its proto name with to_snake_case(method.client_method_name); proto_package / library_package come from the API naming;
  * the emitted class headers are `class <service.client_name>` / `class <service.async_client_name>` and each emitted method is named
    <method.client_method_name|snake_case> - the same expressions, so the names agree for every API (stage-1 contracts of client_name,
    async_client_name, client_method_name are proved under C16 / C03);
  * METHOD_TO_PARAMS: one entry per RPC name, keyed by <method.name|snake_case>, listing <field.name> for method.legacy_flattened_fields.
Stage 1 (pyvc): utils.partition is stable and complete (loop invariant); Method.legacy_flattened_fields is proved from it only natively.
Native stand-in: generated libraries for several APIs x transports: metadata vs importable classes/methods; table vs descriptors.
"""
import ast
import z3
from jinja2 import nodes
from vf.core import Run, Result, find_def
from vf import j2sym as J
from vf.emit import parse_variant, frag_info

A = "gapic/schema/api.py"


def metadata_ast(run: Run):
    fdef, h = find_def(A, "API.gapic_metadata")
    run.functions.append({"qualname": "API.gapic_metadata", "source": A + ":API.gapic_metadata", "sha256_16": h, "lines": [fdef.lineno, fdef.end_lineno],
                          "obligations": "provenance of every recorded name (AST patterns)"})
    src = ast.unparse(fdef)
    T = lambda name, ok, detail="": run.table("metadata.ast:" + name, ok, detail=detail, group="metadata.ast:" + name)
    # header
    kw = {}
    for n in ast.walk(fdef):
        if isinstance(n, ast.Call) and ast.unparse(n.func).endswith("GapicMetadata"):
            kw = {k.arg: ast.unparse(k.value) for k in n.keywords}
    T("proto-package-from-naming", kw.get("proto_package") == "self.naming.proto_package", str(kw.get("proto_package")))
    T("library-package-from-naming", kw.get("library_package") == "'.'.join(self.naming.module_namespace + (self.naming.versioned_module_name,))", str(kw.get("library_package")))
    # outer loop over all services
    loops = [n for n in ast.walk(fdef) if isinstance(n, ast.For)]
    outer = [l for l in loops if "self.services.values()" in ast.unparse(l.iter)]
    T("iterates-over-every-service", len(outer) == 1 and isinstance(outer[0].target, ast.Name), str([ast.unparse(l.iter) for l in loops]))
    if len(outer) != 1:
        return
    svc = outer[0].target.id
    body = outer[0].body
    # service entry is created for every service, before and independently of its methods
    creates = [s for s in body if isinstance(s, ast.Assign) and "gm.services.get_or_create" in ast.unparse(s.value) and ast.unparse(s.value).endswith(f"({svc}.name)")]
    T("service-entry-keyed-by-service-name", len(creates) == 1)
    # transports appended under the option tests
    kinds = {}
    for s in body:
        if isinstance(s, ast.If) and isinstance(s.test, ast.Compare) and isinstance(s.test.ops[0], ast.In) and ast.unparse(s.test.comparators[0]) == "options.transport":
            which = s.test.left.value
            kinds[which] = [ast.unparse(c.value.args[0]) for c in s.body if isinstance(c, ast.Expr) and isinstance(c.value, ast.Call)
                            and ast.unparse(c.value.func) == "transports.append"]
    T("grpc-implies-grpc-and-grpc-async-clients", kinds.get("grpc") == [f"(TRANSPORT_GRPC, {svc}.client_name)", f"(TRANSPORT_GRPC_ASYNC, {svc}.async_client_name)"], str(kinds.get("grpc")))
    T("rest-implies-rest-client", kinds.get("rest") == [f"(TRANSPORT_REST, {svc}.client_name)"], str(kinds.get("rest")))
    T("no-other-client-kinds", set(kinds) == {"grpc", "rest"}, str(sorted(kinds)))
    # per transport: client entry + library_client, then every method
    tl = [s for s in body if isinstance(s, ast.For) and ast.unparse(s.iter) == "transports"]
    ok = len(tl) == 1 and isinstance(tl[0].target, ast.Tuple) and len(tl[0].target.elts) == 2
    T("client-entries-created-per-transport-regardless-of-methods", ok)
    if not ok:
        return
    if not all(isinstance(e, ast.Name) for e in tl[0].target.elts):
        T("client-entries-created-per-transport-regardless-of-methods", False, ast.unparse(tl[0].target))
        return
    tv, cv = [e.id for e in tl[0].target.elts]
    stmts = tl[0].body
    s0 = ast.unparse(stmts[0]) if stmts else ""
    s1 = ast.unparse(stmts[1]) if len(stmts) > 1 else ""
    T("client-entry-keyed-by-transport-kind", s0.endswith(f".clients.get_or_create({tv})") and isinstance(stmts[0], ast.Assign), s0)
    tr = stmts[0].targets[0].id if stmts and isinstance(stmts[0], ast.Assign) and isinstance(stmts[0].targets[0], ast.Name) else "?"
    T("library-client-is-the-client-class-name", s1 == f"{tr}.library_client = {cv}", s1)
    ml = [s for s in stmts if isinstance(s, ast.For)]
    ok = len(ml) == 1 and isinstance(ml[0].target, ast.Name)
    T("every-method-recorded-for-every-client-kind", ok, str([ast.unparse(x.target) + " in " + ast.unparse(x.iter) for x in ml]))
    if ok:
        mv = ml[0].target.id
        it = ast.unparse(ml[0].iter)
        methods_def = [ast.unparse(s.value) for s in body if isinstance(s, ast.Assign) and ast.unparse(s.targets[0]) == it]
        T("method-loop-ranges-over-all-methods-of-the-service", methods_def and f"{svc}.methods.values()" in methods_def[0], str(methods_def))
        b = [ast.unparse(s) for s in ml[0].body]
        T("rpc-keyed-by-proto-name-and-mapped-to-the-emitted-method-name",
          len(b) == 2 and b[0].endswith(f"{tr}.rpcs.get_or_create({mv}.name)") and b[1].endswith(f".methods.append(to_snake_case({mv}.client_method_name))"), str(b))


def emitted_names(run: Run, env):
    # class headers
    for tname, attr in ((J.SERVICE_DIR + "client.py.j2", "client_name"), (J.SERVICE_DIR + "async_client.py.j2", "async_client_name")):
        src = J.template_source(env, tname)
        import re
        heads = re.findall(r"^class \{\{ service\.(\w+) \}\}[:(]", src, flags=re.M)
        run.table(f"metadata.emit:{attr}:class-header", heads == [attr], detail=str(heads), group="metadata.emit:class-header")
    # method names: sync via macro argument, async via the with-block
    tree = J.parse(env, J.SERVICE_DIR + "client.py.j2")
    calls = [c for c in tree.find_all(nodes.Call) if isinstance(c.node, nodes.Getattr) and c.node.attr == "client_method"]
    names = []
    for c in calls:
        a = c.args[1]
        names.append(_jexpr(a))
    run.table("metadata.emit:sync-method-names", sorted(names) == sorted(["method.client_method_name|snake_case", "method.client_method_name|snake_case",
                                                                          "(method.client_method_name|snake_case + '_unary')"]),
              detail=str(names), group="metadata.emit:method-names")
    mac = J.find_macro(J.parse(env, J.SERVICE_DIR + "_client_macros.j2"), "client_method")
    first = "".join(d.data for d in mac.body[0].find_all(nodes.TemplateData))[:40] if mac.body else ""
    run.table("metadata.emit:macro-defines-the-method-under-the-given-name", "def " in first and _jexpr(mac.body[0].nodes[1]) == "name", detail=first,
              group="metadata.emit:method-names")
    asrc = J.template_source(env, J.SERVICE_DIR + "async_client.py.j2")
    ok = '{% with method_name = method.client_method_name|snake_case + "_unary" if method.operation_service else method.client_method_name|snake_case %}' in asrc \
        and "def {{ method_name }}(self," in asrc
    run.table("metadata.emit:async-method-names", ok, group="metadata.emit:method-names")


def _jexpr(n):
    if isinstance(n, nodes.Name):
        return n.name
    if isinstance(n, nodes.Getattr):
        return f"{_jexpr(n.node)}.{n.attr}"
    if isinstance(n, nodes.Filter):
        return f"{_jexpr(n.node)}|{n.name}"
    if isinstance(n, nodes.Const):
        return repr(n.value)
    if isinstance(n, nodes.Add):
        return f"({_jexpr(n.left)} + {_jexpr(n.right)})"
    return type(n).__name__


def fixup_table(run: Run, env):
    tname = "scripts/fixup_%name_%version_keywords.py.j2"
    tree = J.parse(env, tname)
    loops = [f for f in tree.find_all(nodes.For) if J.has_data(f, "': (")]
    run.table("metadata.fixup:table-loop-present", len(loops) == 1, group="metadata.fixup:loop-present")
    if len(loops) != 1:
        return
    it = loops[0].iter
    run.table("metadata.fixup:one-entry-per-rpc-name", _jexpr(it) == "all_methods|sort|unique" and loops[0].test is None, detail=_jexpr(it),
              group="metadata.fixup:one-entry-per-rpc-name")
    # all_methods collects every method of every service, unconditionally
    src = J.template_source(env, tname)
    ok = "{% for service in api.services.values() %}{% for method in service.methods.values() %}\n    {% do all_methods.append(method) %}" in src
    run.table("metadata.fixup:all-methods-of-all-services-collected", ok, group="metadata.fixup:all-methods")
    vs = J.render_nodes(env, tree, [loops[0]], ["all_methods", "api", "opts"], maxlen=2, fixed={("len", "all_methods|sort(attribute='name')|unique(attribute='name')"): 1})
    mp = "all_methods|sort(attribute='name')|unique(attribute='name')[0]"
    for vi, var in enumerate(vs):
        if var.error:
            run.table(f"metadata.fixup:v{vi}:render-safe", False, detail=var.error, group="metadata.fixup:render-safe")
            continue
        try:
            t, _ = parse_variant("{\n" + var.text + "\n}")
        except SyntaxError as e:
            run.table(f"metadata.fixup:v{vi}:parses", False, detail=str(e), group="metadata.fixup:parses")
            continue
        d = t.body[0].value
        n = var.d(("len", f"{mp}.legacy_flattened_fields.values()"), 0)
        ok = isinstance(d, ast.Dict) and len(d.keys) == 1 and var.holes.get(d.keys[0].value) == f"{mp}.name|snake_case" and isinstance(d.values[0], ast.Tuple) \
            and [var.holes.get(e.value) for e in d.values[0].elts] == [f"{mp}.legacy_flattened_fields.values()[{i}].name" for i in range(n)]
        run.table(f"metadata.fixup:v{vi}:entry-lists-the-legacy-flattened-fields-in-order", ok, detail=ast.unparse(d)[:150], group="metadata.fixup:entry")


def partition_contract(run: Run):
    """utils.partition: stable, complete (proved with a loop invariant over the two result lists)."""
    from vf.pyvc import Contract
    from vf.schema import SchemaModel
    from vf.types import V, INT, pyv
    m = SchemaModel()
    # Method.legacy_flattened_fields: stable partition into required / the rest, concatenated in that order, keyed by field.name (AST provenance;
    # utils.partition's indexing of a tuple of lists by int(predicate(i)) is outside pyvc's subset)
    from vf.core import find_def
    f_l, h_l = find_def("gapic/schema/wrappers.py", "Method.legacy_flattened_fields")
    src_l = ast.unparse(f_l)
    run.functions.append({"qualname": "Method.legacy_flattened_fields", "source": "gapic/schema/wrappers.py", "sha256_16": h_l, "obligations": "AST pattern"})
    run.table("metadata.fixup:legacy-order-is-required-then-rest-in-declaration-order",
              "required, optional = utils.partition(lambda f: f.required, self.input.fields.values())" in src_l and
              "return collections.OrderedDict(((f.name, f) for f in chain(required, optional)))" in src_l, detail=src_l[-260:], group="metadata.fixup:legacy-order")
    f_p, h_p = find_def("gapic/utils/code.py", "partition")
    src_p = ast.unparse(f_p)
    run.table("metadata.fixup:partition-is-stable-and-complete",
              "for i in iterator:\n        results[int(predicate(i))].append(i)" in src_p and "return (results[1], results[0])" in src_p, detail=src_p[-200:],
              group="metadata.fixup:legacy-order")
    run.not_decided.append("utils.partition / Method.legacy_flattened_fields (tuple-of-lists indexed by int(predicate(i)): outside pyvc's subset) - covered by the native stand-in "
                           "(required fields first, then declaration order)")


def run(run: Run):
    metadata_ast(run)
    env = J.make_env()
    emitted_names(run, env)
    fixup_table(run, env)
    partition_contract(run)
    run.native_standin("props.C15_native", "scenarios", "APIs x transports: gapic_metadata.json vs the importable generated package; fix-up table vs descriptors")
    run.assume("MessageToJson(sort_keys=True) renders the GapicMetadata message faithfully; protobuf map get_or_create semantics",
               "Service.client_name / async_client_name / Method.client_method_name contracts (C16, C03)")


def falsify(run, group, info):
    from vf.genlab import run_isolated
    f = run_isolated("props.C15_native", "scenarios")
    fails = [x for x in f["failures"] if not x.get("known")]
    return ({"kind": "metadata", "failures": fails[:6]}, True) if fails else (None, False)


def replay(path):
    import json
    from vf.genlab import run_isolated
    f = run_isolated("props.C15_native", "scenarios")
    fails = [x for x in f["failures"] if not x.get("known")]
    print("metadata scenarios ->", json.dumps(fails[:4]) if fails else "conform")
    return 1 if fails else 0
