"""C01 replay: generate-and-import over option sets, one fresh interpreter per configuration.  Every emitted .py is compiled and scanned for
names bound nowhere in the module, the package and all sub-modules are imported, client / transport exposure is compared with the request,
JSON artefacts are parsed.  Bounded."""
import ast, builtins, json, re

PKG = "acme.lab.v1"


def files(variant="main"):
    from vf import genlab as G
    T = G.T
    P = "." + PKG
    out = []
    # types in a file whose base name equals that of a dependency file it uses (google/rpc/status.proto)
    st = G.new_file("acme/lab/v1/status.proto", PKG, deps=G.STD_DEPS + ["google/rpc/status.proto", "google/iam/v1/policy.proto"])
    # (the Policy field makes the library import google.iam.v1 although IAM is no mixin of the API: the distribution must be a declared dependency)
    G.add_message(st, "Health", [G.F("last", 1, T.TYPE_MESSAGE, type_name=".google.rpc.Status"), G.F("note", 2, T.TYPE_STRING),
                                 G.F("policy", 3, T.TYPE_MESSAGE, type_name=".google.iam.v1.Policy")])
    out.append(st)
    # a second file of the package (in the sub-package variant: a file in a proto sub-package with its own types)
    subpkg = PKG + ".extras" if variant == "subpackage" else PKG
    subfile = "acme/lab/v1/extras/extra.proto" if variant == "subpackage" else "acme/lab/v1/extra.proto"
    sub = G.new_file(subfile, subpkg)
    G.add_message(sub, "Extra", [G.F("e", 1, T.TYPE_STRING)])
    out.append(sub)
    if variant == "subpackage":
        # ... and a sub-package of that sub-package, whose message uses a type one level up
        deep = G.new_file("acme/lab/v1/extras/deep/deeper.proto", PKG + ".extras.deep", deps=G.STD_DEPS + [subfile])
        G.add_message(deep, "Deeper", [G.F("extra", 1, T.TYPE_MESSAGE, type_name="." + subpkg + ".Extra"), G.F("n", 2, T.TYPE_INT32)])
        out.append(deep)
    fd = G.new_file("acme/lab/v1/lab.proto", PKG, deps=G.STD_DEPS + ["acme/lab/v1/status.proto", subfile, "google/rpc/status.proto"])
    col = fd.enum_type.add(name="Color")
    for n, v in (("COLOR_UNSPECIFIED", 0), ("RED", 1)):
        col.value.add(name=n, number=v)
    thing = G.add_message(fd, "Thing", [G.F("name", 1, T.TYPE_STRING), G.F("color", 2, T.TYPE_ENUM, type_name=P + ".Color"),
                                        G.F("health", 3, T.TYPE_MESSAGE, type_name=P + ".Health"), G.F("extra_info", 4, T.TYPE_MESSAGE, type_name="." + subpkg + ".Extra"),
                                        G.F("kids", 5, T.TYPE_MESSAGE, label=G.REPEATED, type_name=P + ".Thing"), G.F("opt", 6, T.TYPE_STRING, proto3_optional=True, oneof_index=1),
                                        G.F("ts", 9, T.TYPE_MESSAGE, type_name=".google.protobuf.Timestamp")],
                          resource=("lab.example.com/Thing", "shelves/{shelf}/things/{thing}"))
    thing.oneof_decl.add(name="kind")
    thing.oneof_decl.add(name="_opt")
    thing.field.append(G.F("a", 7, T.TYPE_STRING, oneof_index=0))
    thing.field.append(G.F("b", 8, T.TYPE_INT32, oneof_index=0))
    # a field of the top-level message whose type is nested TWO levels below that same message (and an enum likewise), and a singleton resource
    layer = G.add_message(thing, "Layer")
    G.add_message(layer, "Stroke", [G.F("w", 1, T.TYPE_INT32)])
    fin = layer.enum_type.add(name="Finish")
    fin.value.add(name="FINISH_UNSPECIFIED", number=0)
    thing.field.append(G.F("outline", 20, T.TYPE_MESSAGE, type_name=P + ".Thing.Layer.Stroke"))
    thing.field.append(G.F("strokes", 21, T.TYPE_MESSAGE, label=G.REPEATED, type_name=P + ".Thing.Layer.Stroke"))
    thing.field.append(G.F("finish", 22, T.TYPE_ENUM, type_name=P + ".Thing.Layer.Finish"))
    G.add_message(fd, "Policy", [G.F("name", 1, T.TYPE_STRING)], resource=("lab.example.com/Policy", "labPolicy"))
    # a nested message whose field is named like a sibling module this file imports (`extra`), followed by a field that needs that module,
    # and one named `proto` (the alias of the proto-plus import): both names occur nowhere at the top level of the file
    nested = G.add_message(thing, "Part", [G.F("p", 1, T.TYPE_STRING), G.F("extra", 2, T.TYPE_MESSAGE, type_name="." + subpkg + ".Extra"),
                                           G.F("more", 3, T.TYPE_MESSAGE, type_name="." + subpkg + ".Extra"), G.F("proto", 4, T.TYPE_STRING),
                                           G.F("after_proto", 5, T.TYPE_INT32)])
    e = thing.nested_type.add(name="LabelsEntry")
    e.options.map_entry = True
    e.field.append(G.F("key", 1, T.TYPE_STRING))
    e.field.append(G.F("value", 2, T.TYPE_MESSAGE, type_name=P + ".Thing.Part"))
    thing.field.append(G.F("labels", 10, T.TYPE_MESSAGE, label=G.REPEATED, type_name=P + ".Thing.LabelsEntry"))
    G.add_message(fd, "GetThingRequest", [G.F("name", 1, T.TYPE_STRING, required=True, resource_ref="lab.example.com/Thing"), G.F("request_id", 2, T.TYPE_STRING, uuid4=True),
                                          G.F("policy", 3, T.TYPE_STRING, resource_ref="lab.example.com/Policy")])
    G.add_message(fd, "ListThingsRequest", [G.F("parent", 1, T.TYPE_STRING), G.F("page_size", 2, T.TYPE_INT32), G.F("page_token", 3, T.TYPE_STRING)])
    G.add_message(fd, "ListThingsResponse", [G.F("things", 1, T.TYPE_MESSAGE, label=G.REPEATED, type_name=P + ".Thing"), G.F("next_page_token", 2, T.TYPE_STRING)])
    G.add_message(fd, "Meta", [G.F("pct", 1, T.TYPE_INT32)])
    svc = G.add_service(fd, "Lab")
    m = lambda s_, *a, **k: G.add_method(s_, *a, **k)
    m(svc, "GetThing", P + ".GetThingRequest", P + ".Thing", http=("get", "/v1/{name=shelves/*/things/*}"), signatures=["name"])
    m(svc, "ListThings", P + ".ListThingsRequest", P + ".ListThingsResponse", http=("get", "/v1/{parent=shelves/*}/things"), signatures=["parent"])
    m(svc, "StartThing", P + ".GetThingRequest", ".google.longrunning.Operation", http=("post", "/v1/{name=shelves/*/things/*}:start"), body="*", lro=("Thing", "Meta"))
    m(svc, "DeleteThing", P + ".GetThingRequest", ".google.protobuf.Empty", http=("delete", "/v1/{name=shelves/*/things/*}"))
    m(svc, "WatchThings", P + ".ListThingsRequest", P + ".Thing", server_streaming=True, http=("get", "/v1/{parent=shelves/*}/things:watch"))
    m(svc, "Chat", P + ".Thing", P + ".Thing", client_streaming=True, server_streaming=True)
    m(svc, "CheckHealth", P + ".GetThingRequest", P + ".Health", http=("get", "/v1/{name=shelves/*/things/*}:health"))
    # a second service whose only streaming rpc streams requests (no server streaming anywhere in the service)
    up = G.add_service(fd, "Uploader")
    m(up, "Upload", P + ".Thing", P + ".Thing", client_streaming=True)
    m(up, "Ping", P + ".GetThingRequest", P + ".Thing", http=("get", "/v1/{name=shelves/*/things/*}:ping"))
    # a target file with a service and no top-level message or enum
    adm = G.new_file("acme/lab/v1/admin.proto", PKG, deps=G.STD_DEPS + ["acme/lab/v1/lab.proto"])
    ad = G.add_service(adm, "Admin")
    m(ad, "PingAdmin", P + ".GetThingRequest", P + ".Thing", http=("get", "/v1/{name=shelves/*/things/*}:admin"))
    if variant == "kw_rpc":
        # rpcs whose snake-case name is a Python keyword / a name the transport itself uses (every transport spells their stub `<name>_`)
        m(svc, "Import", P + ".GetThingRequest", P + ".Thing", http=("post", "/v1/{name=shelves/*/things/*}:import"), body="*")
        m(svc, "CreateChannel", P + ".GetThingRequest", P + ".Thing", http=("post", "/v1/{name=shelves/*/things/*}:channel"), body="*")
    if variant == "dup_leaf":
        # method_signature with two dotted fields whose leaf names coincide
        G.add_message(fd, "PairRequest", [G.F("a", 1, T.TYPE_MESSAGE, type_name=P + ".Thing"), G.F("b", 2, T.TYPE_MESSAGE, type_name=P + ".Thing")])
        m(svc, "Pair", P + ".PairRequest", P + ".Thing", http=("post", "/v1/pair"), body="*", signatures=["a.name,b.name"])
    out.append(fd)
    out.append(adm)
    return out


CONFIGS = {
    "default": ("", None),
    "grpc": ("transport=grpc", None),
    "rest": ("transport=rest", None),
    "grpc_rest_numeric_metadata": ("transport=grpc+rest,rest-numeric-enums,metadata", None),
    "overrides": ("python-gapic-name=widgets,python-gapic-namespace=Foo.Bar,warehouse-package-name=foo-widgets", None),
    "service_yaml": ("transport=grpc+rest", {"type": "google.api.Service", "config_version": 3, "name": "lab.example.com",
                                             "apis": [{"name": "google.longrunning.Operations"}, {"name": "google.cloud.location.Locations"}],
                                             "http": {"rules": [{"selector": "google.longrunning.Operations.GetOperation", "get": "/v1/{name=operations/*}"},
                                                                {"selector": "google.cloud.location.Locations.GetLocation", "get": "/v1/{name=locations/*}"}]}}),
    "no_snippets": ("autogen-snippets=false", None),
    "ads": ("python-gapic-templates=ads-templates,old-naming", None),
    "subpackage": ("", None),
    "dup_leaf": ("autogen-snippets=false", None),
    "kw_rpc": ("autogen-snippets=false,transport=grpc+rest", None),
}


def undefined_names(tree):
    """Names loaded somewhere in the module but bound nowhere in it (no import, assignment, def, class, parameter, loop / with / except
    target, comprehension variable, global) and not builtins."""
    bound, loaded = set(dir(builtins)) | {"__file__", "__name__", "__doc__", "__class__", "__path__", "__spec__", "__package__"}, {}
    for n in ast.walk(tree):
        if isinstance(n, ast.Name):
            if isinstance(n.ctx, (ast.Store, ast.Del)):
                bound.add(n.id)
            else:
                loaded.setdefault(n.id, n.lineno)
        elif isinstance(n, (ast.FunctionDef, ast.AsyncFunctionDef, ast.ClassDef)):
            bound.add(n.name)
        elif isinstance(n, ast.arg):
            bound.add(n.arg)
        elif isinstance(n, (ast.Import, ast.ImportFrom)):
            for a in n.names:
                bound.add((a.asname or a.name).split(".")[0])
        elif isinstance(n, ast.ExceptHandler) and n.name:
            bound.add(n.name)
        elif isinstance(n, (ast.Global, ast.Nonlocal)):
            bound.update(n.names)
        elif isinstance(n, ast.MatchAs) and n.name:
            bound.add(n.name)
    return sorted((k, v) for k, v in loaded.items() if k not in bound)


def string_annotation_names(tree):
    """Names inside string annotations / quoted forward references are not looked at (they are resolved lazily, if ever)."""
    return []


def one_config(name):
    import importlib, pkgutil, sys
    from vf import genlab as G
    from google.rpc import status_pb2
    from google.cloud.location import locations_pb2
    from google.iam.v1 import policy_pb2
    G.stub_pandoc_if_absent()
    params, yaml_ = CONFIGS[name]
    failures, n = [], 0
    label = {"config": name, "options": params}
    try:
        api, res = G.generate(files(name if name in ("subpackage", "dup_leaf", "kw_rpc") else "main"), params, service_yaml=yaml_, extra_dep_modules=(status_pb2, locations_pb2, policy_pb2))
    except Exception as e:      # noqa
        return {"cases": 1, "failures": [dict(label, what="generation failed", error=repr(e)[:300])]}
    names = [f.name for f in res.file]
    for f in res.file:
        if f.name.endswith(".py"):
            n += 1
            try:
                tree = ast.parse(f.content, f.name)
                compile(f.content, f.name, "exec")        # duplicate arguments and the like are rejected by the compiler only
            except SyntaxError as e:
                failures.append(dict(label, what="emitted file does not parse", file=f.name, error=str(e)))
                continue
            if not f.name.startswith(("tests/", "docs/", "samples/", "noxfile", "setup", "scripts/")):
                und = undefined_names(tree)
                if und:
                    failures.append(dict(label, what="names used but bound nowhere in the module", file=f.name, names=und[:6]))
        elif f.name.endswith(".json"):
            n += 1
            try:
                json.loads(f.content)
            except Exception as e:      # noqa
                failures.append(dict(label, what="emitted JSON does not parse", file=f.name, error=str(e)[:100]))
    # "imports against the declared runtime dependencies": a distribution whose modules the library imports is declared in setup.py
    setup_src = next((f.content for f in res.file if f.name == "setup.py"), "")
    DISTS = {"google.iam.v1": "grpc-google-iam-v1", "google.api_core": "google-api-core", "google.auth": "google-auth", "proto": "proto-plus", "google.protobuf": "protobuf"}
    imported = set()
    for f in res.file:
        if f.name.endswith(".py") and not f.name.startswith(("tests/", "docs/", "samples/", "noxfile", "setup", "scripts/")):
            for mt in re.finditer(r"^\s*(?:from|import)\s+([A-Za-z_][\w.]*)", f.content, re.M):
                imported.add(mt.group(1))
    n += 1
    for prefix, dist in (DISTS.items() if name != "ads" else ()):
        if any(i == prefix or i.startswith(prefix + ".") for i in imported) and setup_src and f'"{dist}' not in setup_src and f"'{dist}" not in setup_src:
            failures.append(dict(label, what="the library imports a distribution that setup.py does not declare", imports=prefix, distribution=dist))
    top = {"overrides": "foo.bar.widgets_v1", "ads": "acme.lab.v1"}.get(name, "acme.lab_v1")
    want_t = set((params.split("transport=")[1].split(",")[0].split("+")) if "transport=" in params else ["grpc"])
    with G.materialised(res) as root:
        try:
            pkg = importlib.import_module(top)
        except Exception as e:      # noqa
            failures.append(dict(label, what="the emitted package does not import", package=top, error=repr(e)[:300]))
            if name == "dup_leaf":
                for f in failures:
                    if "duplicate argument" in json.dumps(f) or "keyword argument repeated" in json.dumps(f):
                        f["known"] = "duplicate-flattened-leaf-names"
            return {"cases": n + 1, "failures": failures}
        for mi in pkgutil.walk_packages(pkg.__path__, pkg.__name__ + "."):
            n += 1
            try:
                importlib.import_module(mi.name)
            except Exception as e:      # noqa
                failures.append(dict(label, what="a sub-module does not import", module=mi.name, error=repr(e)[:300]))
        # sub-package views: the types of the (nested) sub-packages are reachable and usable
        if name == "subpackage":
            n += 1
            try:
                ex_t = importlib.import_module(top + ".extras.types.extra")
                dp_t = importlib.import_module(top + ".extras.deep.types.deeper")
                d = dp_t.Deeper(extra=ex_t.Extra(e="x"), n=3)
                if type(d).pb(d).DESCRIPTOR.full_name != "acme.lab.v1.extras.deep.Deeper" or d.extra.e != "x":
                    failures.append(dict(label, what="message of a nested sub-package", full_name=type(d).pb(d).DESCRIPTOR.full_name))
                if not hasattr(importlib.import_module(top + ".extras.deep"), "Deeper") or not hasattr(importlib.import_module(top + ".extras"), "Extra"):
                    failures.append(dict(label, what="the sub-package's __init__ does not export its own types"))
            except Exception as e:      # noqa
                failures.append(dict(label, what="types of a (nested) proto sub-package are not importable / usable", error=repr(e)[:300]))
        for svc in ("Lab", "Uploader", "Admin"):
            n += 1
            client = getattr(pkg, svc + "Client", None) if name != "ads" else None
            if name == "ads":
                try:
                    client = getattr(importlib.import_module(f"{top}.services.{svc.lower()}"), svc + "Client")
                except Exception as e:      # noqa
                    failures.append(dict(label, what="ads client module missing", error=repr(e)[:200]))
                    continue
            if client is None:
                failures.append(dict(label, what="no synchronous client exposed for the service", service=svc))
                continue
            has_async = hasattr(pkg, svc + "AsyncClient")
            if name != "ads" and has_async != ("grpc" in want_t):
                failures.append(dict(label, what="asyncio client must be exposed iff gRPC is requested", service=svc, exposed=has_async, transports=sorted(want_t)))
            reg = list(type(client)._transport_registry.keys())
            want_reg = (["grpc", "grpc_asyncio"] if "grpc" in want_t else []) + (["rest"] if "rest" in want_t else [])
            if name == "ads":
                want_reg = [r for r in want_reg if r != "grpc_asyncio"]
            if [r for r in reg if r != "rest_asyncio"] != want_reg:
                failures.append(dict(label, what="transport registry is not exactly the requested transports", service=svc, registry=reg, requested=sorted(want_t)))
            default = client.get_transport_class().__name__
            want_default = f"{svc}GrpcTransport" if "grpc" in want_t else f"{svc}RestTransport"
            if default != want_default:
                failures.append(dict(label, what="default transport is not gRPC-when-requested-else-REST", service=svc, default=default))
    if name == "dup_leaf":
        for f in failures:
            if "duplicate argument" in json.dumps(f) or "keyword argument repeated" in json.dumps(f):
                f["known"] = "duplicate-flattened-leaf-names"
    return {"cases": n, "failures": failures}


def scenarios():
    from vf import genlab as G
    failures, n = [], 0
    for name in CONFIGS:
        r = G.run_isolated("props.C01_native", "cfg_" + name)
        n += r["cases"]
        failures += r["failures"]
    return {"cases": n, "failures": failures}


def _mk(name):
    def f():
        return one_config(name)
    f.__name__ = "cfg_" + name
    return f


for _n in CONFIGS:
    globals()["cfg_" + _n] = _mk(_n)
