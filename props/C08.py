"""C08 - long-running methods return futures typed by google.longrunning.operation_info.

Stage 1 (pyvc, real functions):
  Address.resolve            result == qualify(self, selector): the method's package is prefixed iff the name has no dot;
  _ProtoBuilder._maybe_get_lro   rejected (TypeError) iff Operation-returning, annotated and a type name is empty; None iff not
                             (Operation-returning and annotated); otherwise the wrappers registered in api_messages under the qualified names;
  _ProtoBuilder.api_messages the messages of this file and of *every* prior proto (not only the imported ones);
  Service.has_lro            some method has lro;
  Method._client_output      LRO arm: google.api_core.operation[_async].(Async)Operation carrying the response type's collision set.
Visibility across API.build's two passes is provenance over the real AST (pre_protos feeds prior_protos of every second-pass build).
Stage 2 (emitted code, every variant of the real templates): the region after the RPC call in the sync and asyncio client methods is, for
an LRO method, `<operation module alias or module>.from_gapic(response, <transport>.operations_client, <lro.response_type.ident>,
metadata_type=<lro.metadata_type.ident>)`, and for a method that is neither LRO, paged nor extended the raw response is returned; the
operations_client property of the grpc / grpc_asyncio / rest transports is built on the transport's own channel / session and cached.
Native stand-in (bounded): type-resolution cases x polling histories against a loopback channel.
"""
import ast
import z3
from jinja2 import nodes
from vf.core import Run, Result, find_def
from vf.pyvc import Contract
from vf.schema import SchemaModel
from vf.model import Native, FuncV
from vf.smt import Ref, fn
from vf.types import *        # noqa
from vf import j2sym as J
from vf.emit import parse_variant, frag_info

A = "gapic/schema/api.py"
W = "gapic/schema/wrappers.py"
MD = "gapic/schema/metadata.py"
TR = J.SERVICE_DIR + "transports/"


class M(SchemaModel):
    """MethodOptions.HasExtension(ext) as an uninterpreted presence flag per extension (input)."""

    def obj_getattr(self, ex, base, attr, st, node):
        if base.ty.name == "MethodOptions" and attr == "HasExtension":
            return pyv(FuncV("method", "HasExtension", recv=base))
        return super().obj_getattr(ex, base, attr, st, node)

    def call_method(self, ex, recv, name, args, kwargs, st, node):
        if isinstance(recv.ty, ObjT) and recv.ty.name == "MethodOptions" and name == "HasExtension":
            full = getattr(args[0].py.obj, "full_name", None)
            return V(fn("hasext." + full, Ref, z3.BoolSort())(recv.term), BOOL)
        return super().call_method(ex, recv, name, args, kwargs, st, node)


def schema_model():
    m = M()
    from google.longrunning import operations_pb2
    m.globals["operations_pb2"] = pyv(Native(operations_pb2))
    m.extensions["google.longrunning.operation_info"] = "OperationInfoPb"
    m.add_class("OperationInfoPb", {"response_type": "Str", "metadata_type": "Str"})
    m.add_class("ProtoBuilder", {"api_messages": "Map[Str,MessageType]", "proto_messages": "Map[Str,MessageType]", "prior_protos": "Map[Str,Proto]"})
    m.add_class("Proto", {"all_messages": "Map[Str,MessageType]"})
    m.classes["OperationInfo"]["_fields"] = ["response_type", "metadata_type"]
    # vocabulary from the property sentence
    m.add_spec("qualify", ["addr", "name"], "name if '.' in name else '.'.join(addr.package) + '.' + name")
    m.add_spec("returns_operation", ["mp"], "mp.output_type.endswith('google.longrunning.Operation')")
    m.specs["annotated"] = lambda ex, args, st: V(fn("hasext.google.longrunning.operation_info", Ref, z3.BoolSort())(
        fn("MethodPb.options", Ref, Ref)(args[0].term)), BOOL)
    m.specs["op_info"] = lambda ex, args, st: V(fn("ext.google.longrunning.operation_info", Ref, Ref)(
        fn("MethodPb.options", Ref, Ref)(args[0].term)), ObjT("OperationInfoPb"))
    return m


def stage1(run: Run):
    m = schema_model()
    cs = []
    cs.append(Contract("Address.resolve", source=(MD, "Address.resolve"), params={"self": "Address", "selector": "Str"}, result="Str",
                       ensures=["result == qualify(self, selector)"]))
    cs.append(Contract("_ProtoBuilder._maybe_get_lro", source=(A, "_ProtoBuilder._maybe_get_lro"),
                       params={"self": "ProtoBuilder", "service_address": "Address", "meth_pb": "MethodPb"}, result="Opt[OperationInfo]",
                       # visibility lemma (ii): the names the annotation denotes are registered (protoc does not check them; an unknown
                       # name is a KeyError at generation time, i.e. also a rejection, outside the clause under proof)
                       requires=["implies(returns_operation(meth_pb) and annotated(meth_pb) and op_info(meth_pb).response_type != '' and op_info(meth_pb).metadata_type != '', "
                                 "qualify(service_address, op_info(meth_pb).response_type) in self.api_messages and "
                                 "qualify(service_address, op_info(meth_pb).metadata_type) in self.api_messages)"],
                       raises={"TypeError": "returns_operation(meth_pb) and annotated(meth_pb) and "
                                            "(op_info(meth_pb).response_type == '' or op_info(meth_pb).metadata_type == '')"},
                       ensures=["(result is None) == (not (returns_operation(meth_pb) and annotated(meth_pb)))",
                                "implies(result is not None, result.response_type is self.api_messages[qualify(service_address, op_info(meth_pb).response_type)])",
                                "implies(result is not None, result.metadata_type is self.api_messages[qualify(service_address, op_info(meth_pb).metadata_type)])"]))
    cs.append(Contract("_ProtoBuilder.api_messages", source=(A, "_ProtoBuilder.api_messages"), params={"self": "ProtoBuilder"}, result="Map[Str,MessageType]",
                       ensures=["forall(lambda k: (k in result) == (k in self.proto_messages or exists(lambda p: k in p.all_messages, self.prior_protos.values())), str)",
                                "forall(lambda k: implies(k in self.proto_messages, result[k] is self.proto_messages[k]), str)"]))
    m.classes["Service"]["has_lro"] = "Bool"
    cs.append(Contract("Service.has_lro", source=(W, "Service.has_lro"), params={"self": "Service"}, result="Bool",
                       ensures=["result == exists(lambda x: x.lro is not None, self.methods.values())"]))
    # Method._client_output, LRO arm (callers: client_output / client_output_async pass False / True)
    m.add_class("PythonType", {"meta": "Metadata", "_fields": ["meta"]}, bases=["AnyType"])
    m.classes["Metadata"]["_fields"] = ["address", "documentation"]
    m.classes["Metadata"]["documentation"] = "Opaque"
    m.classes["Address"]["_fields"] = ["name", "module", "package", "collisions"]
    m.globals["metadata.Metadata"] = pyv(("class", "Metadata"))
    m.globals["metadata.Address"] = pyv(("class", "Address"))
    m.globals["PythonType"] = pyv(("class", "PythonType"))
    m.add_contract(Contract("utils.doc", params={"text": "Str"}, result="Opaque", kind="assumed", note="builds a SourceCodeInfo.Location carrying the text"))
    m.globals["utils.doc"] = pyv(FuncV("contract", "utils.doc", recv=None))
    c = Contract("Method._client_output", source=(W, "Method._client_output"), params={"self": "Method", "enable_asyncio": "Bool"}, result="PythonType",
                 requires=["not self.void", "self.lro is not None"],
                 ensures=["len(result.meta.address.package) == 2 and result.meta.address.package[0] == 'google' and result.meta.address.package[1] == 'api_core'",
                          "result.meta.address.module == ('operation_async' if enable_asyncio else 'operation')",
                          "result.meta.address.name == ('AsyncOperation' if enable_asyncio else 'Operation')",
                          "result.meta.address.collisions is self.lro.response_type.ident.collisions"])
    cs.append(c)
    m.classes["Address"]["proto"] = "Str"
    cs.append(Contract("Method.void", source=(W, "Method.void"), params={"self": "Method"}, result="Bool",
                       ensures=["result == (self.output.ident.proto == 'google.protobuf.Empty')"]))
    for c in cs:
        m.add_contract(c)
    for c in cs:
        run.verify(m, c)
    # string lemma used to prune the (lro, void) template variants: no name ending in google.longrunning.Operation is google.protobuf.Empty
    x = z3.String("t")
    sol = z3.Solver()
    sol.set(timeout=5000)
    sol.add(z3.SuffixOf(z3.StringVal("google.longrunning.Operation"), x), z3.Or(x == z3.StringVal("google.protobuf.Empty"), x == z3.StringVal(".google.protobuf.Empty")))
    from vf.smt import guarded_check
    r = guarded_check(sol, 5000)[0]
    run.results.append(Result("lro.schema:lro-implies-not-void (string lemma)", "discharged" if r == z3.unsat else "unknown", "z3", 0, "lemma", group="lro.schema:lro-not-void"))
    run.assume("a MessageType registered under key k has ident.proto == k (provenance: _load_message registers under address.proto), so "
               "Method.output.ident.proto is the method's output_type without the leading dot")
    return m


# ------------------------------------------------------------------------------------------------------------- stage 2
def _tail_nodes(tree):
    """The node list from `# Send the request.` to the end of the enclosing body (macro / for-loop) that holds the `method.lro` test."""
    for holder in tree.find_all((nodes.Macro, nodes.For)):
        body = holder.body
        idx = next((i for i, n in enumerate(body) if isinstance(n, nodes.If) and J.expr_path(n.test) == "method.lro"), None)
        if idx is None:
            continue
        for i in range(idx - 1, -1, -1):
            if isinstance(body[i], nodes.Output) and J.has_data(body[i], "# Send the request."):
                before, after = J.split_output(body[i], lambda t: (t.rfind("\n", 0, t.find("# Send the request.")) + 1) if "# Send the request." in t else -1)
                if after is None:
                    continue
                return [nodes.Output(after, lineno=body[i].lineno)] + list(body[i + 1:])
    return None


def client_regions(run: Run):
    env = J.make_env()
    for tname, out_attr, transport, what in ((J.SERVICE_DIR + "_client_macros.j2", "client_output", "self._transport", "sync"),
                                             (J.SERVICE_DIR + "async_client.py.j2", "client_output_async", "self._client._transport", "async")):
        tree = J.parse(env, tname)
        body = _tail_nodes(tree)
        run.table(f"lro.client:{what}:region-present", body is not None, group="lro.client:region-present")
        if body is None:
            continue
        vs = J.render_nodes(env, tree, body, ["method", "api", "service", "name", "snippet_index", "full_extended_lro"])
        run.fragments.append(frag_info(tname, "from `# Send the request.` to the end of the method", vs))
        n_lro = n_raw = n_pruned = 0
        for vi, var in enumerate(vs):
            tag = f"lro.client:{what}:v{vi}"
            if var.error:
                run.table(f"{tag}:render-safe", False, detail=var.error, group="lro.client:render-safe")
                continue
            try:
                tree_py, _ = parse_variant("class _C:\n    async def _m(self):\n" + var.text)
            except SyntaxError as e:
                run.table(f"{tag}:parses", False, detail=str(e) + var.text[:300], group="lro.client:parses")
                continue
            lro = var.d(("bool", "method.lro"))
            void = var.d(("bool", "method.void"))
            if lro and void:
                # infeasible: lro is not None => output_type ends with google.longrunning.Operation (postcondition of _maybe_get_lro, proved),
                # void <=> output.ident.proto == 'google.protobuf.Empty' (contract of Method.void, proved); string lemma below
                n_pruned += 1
                continue
            stmts = tree_py.body[0].body[0].body
            # first statement: the RPC call, assigned to `response` unless void
            first = stmts[0] if stmts else None
            call = first.value if isinstance(first, (ast.Assign, ast.Expr)) else None
            if isinstance(call, ast.Await):
                call = call.value
            ok_call = isinstance(call, ast.Call) and ast.unparse(call.func) == "rpc" and \
                {k.arg: ast.unparse(k.value) for k in call.keywords} == {"retry": "retry", "timeout": "timeout", "metadata": "metadata"}
            ok_target = (isinstance(first, ast.Assign) and ast.unparse(first.targets[0]) == "response") if not void else isinstance(first, ast.Expr)
            run.table(f"{tag}:rpc-call-result-is-response", bool(ok_call and ok_target), detail=ast.unparse(first)[:200] if first else "", group="lro.client:rpc-call")
            rest = stmts[1:]
            if lro:
                n_lro += 1
                wraps = [s_ for s_ in rest if isinstance(s_, ast.Assign)]
                ok = len(wraps) == 1 and ast.unparse(wraps[0].targets[0]) == "response" and isinstance(wraps[0].value, ast.Call)
                run.table(f"{tag}:single-wrap-assignment", ok, group="lro.client:wrap-shape")
                if not ok:
                    continue
                c = wraps[0].value
                f = c.func
                okf = isinstance(f, ast.Attribute) and f.attr == "from_gapic" and isinstance(f.value, ast.Name)
                mod_path = var.holes.get(f.value.id) if okf else None
                alias_dec = var.d(("bool", f"method.{out_attr}.ident.module_alias"))
                want = {True: [f"method.{out_attr}.ident.module_alias"], False: [f"method.{out_attr}.ident.module"],
                        None: []}[alias_dec]      # decision not asked: no single path is right for both alias states
                run.table(f"{tag}:callee-is-<alias or module>.from_gapic", okf and mod_path in want,
                          detail=f"callee module hole={mod_path} alias decision={alias_dec}", group="lro.client:from_gapic-callee")
                args = [ast.unparse(a) for a in c.args]
                kws = {k.arg: ast.unparse(k.value) for k in c.keywords}
                run.table(f"{tag}:response-and-operations-client-passed", len(args) == 3 and args[0] == "response" and args[1] == f"{transport}.operations_client",
                          detail=str(args), group="lro.client:from_gapic-arguments")
                run.table(f"{tag}:result-type-is-lro.response_type", len(args) == 3 and var.holes.get(args[2]) == "method.lro.response_type.ident",
                          detail=str(var.holes.get(args[2]) if len(args) == 3 else None), group="lro.client:result-type")
                run.table(f"{tag}:metadata-type-is-lro.metadata_type", set(kws) == {"metadata_type"} and var.holes.get(kws["metadata_type"]) == "method.lro.metadata_type.ident",
                          detail=str(kws), group="lro.client:metadata-type")
                ret = rest[-1] if rest else None
                run.table(f"{tag}:future-returned", isinstance(ret, ast.Return) and ast.unparse(ret.value) == "response" and not void,
                          group="lro.client:future-returned")
            elif not var.d(("bool", "method.paged_result_field")) and not (var.d(("bool", "method.extended_lro")) and var.d(("bool", "full_extended_lro"))):
                n_raw += 1
                if void:
                    run.table(f"{tag}:void-returns-nothing", not rest, detail=var.text[-200:], group="lro.client:raw-response")
                else:
                    run.table(f"{tag}:raw-response-returned", len(rest) == 1 and isinstance(rest[0], ast.Return) and ast.unparse(rest[0].value) == "response",
                              detail=var.text[-200:], group="lro.client:raw-response")
        run.table(f"lro.client:{what}:cover", n_lro >= 1 and n_raw >= 1, detail=f"lro variants={n_lro} raw variants={n_raw}", group="lro.client:cover")


def operations_clients(run: Run):
    env = J.make_env()
    for fname, ctor, channel in (("grpc.py.j2", "operations_v1.OperationsClient", "self._logged_channel"),
                                 ("grpc_asyncio.py.j2", "operations_v1.OperationsAsyncClient", "self._logged_channel"),
                                 ("rest.py.j2", "operations_v1.AbstractOperationsClient", None)):
        tname = TR + fname
        tree = J.parse(env, tname)
        body = J.find_branch(tree, "service.has_lro")
        # the has_lro test appears twice (attribute initialisation, then the property): take the one that defines the property
        bodies = [b for n in tree.find_all(nodes.If) for t, b in J.if_branches(n) if t == "service.has_lro" and any(J.has_data(x, "def operations_client") for x in b)]
        run.table(f"lro.transport:{fname}:property-guarded-by-has_lro", len(bodies) == 1, group="lro.transport:guard")
        if len(bodies) != 1:
            continue
        vs = J.render_nodes(env, tree, bodies[0], ["service", "api", "opts"], maxlen=1)
        run.fragments.append(frag_info(tname, "operations_client property", vs))
        for vi, var in enumerate(vs):
            tag = f"lro.transport:{fname}:v{vi}"
            if var.error:
                run.table(f"{tag}:render-safe", False, detail=var.error, group="lro.transport:render-safe")
                continue
            try:
                tree_py, _ = parse_variant("class _T:\n" + var.text)
            except SyntaxError as e:
                run.table(f"{tag}:parses", False, detail=str(e), group="lro.transport:parses")
                continue
            fdef = next((n for n in ast.walk(tree_py) if isinstance(n, ast.FunctionDef) and n.name == "operations_client"), None)
            if fdef is None:
                run.table(f"{tag}:defines-operations_client", False, group="lro.transport:shape")
                continue
            is_prop = any(ast.unparse(d) == "property" for d in fdef.decorator_list)
            stm = [s_ for s_ in fdef.body if not (isinstance(s_, ast.Expr) and isinstance(s_.value, ast.Constant))]
            shape = is_prop and len(stm) == 2 and isinstance(stm[0], ast.If) and ast.unparse(stm[0].test) == "self._operations_client is None" \
                and not stm[0].orelse and isinstance(stm[1], ast.Return) and ast.unparse(stm[1].value) == "self._operations_client"
            run.table(f"{tag}:cached-property-shape", shape, group="lro.transport:cached")
            if not shape:
                continue
            assigns = [s_ for s_ in ast.walk(stm[0]) if isinstance(s_, ast.Assign) and ast.unparse(s_.targets[0]) == "self._operations_client"]
            ok = len(assigns) == 1 and isinstance(assigns[0].value, ast.Call) and ast.unparse(assigns[0].value.func) == ctor
            run.table(f"{tag}:constructs-{ctor}", ok, group="lro.transport:constructor")
            if not ok:
                continue
            c = assigns[0].value
            if channel is not None:
                run.table(f"{tag}:on-the-transport's-own-channel", [ast.unparse(a) for a in c.args] == [channel] and not c.keywords,
                          detail=ast.unparse(c), group="lro.transport:same-channel")
            else:
                # REST: the operations transport is built from this transport's host, credentials and scopes
                kws = {k.arg: ast.unparse(k.value) for k in c.keywords}
                tr = [s_ for s_ in ast.walk(stm[0]) if isinstance(s_, ast.Assign) and ast.unparse(s_.targets[0]) == kws.get("transport")]
                okr = len(tr) == 1 and isinstance(tr[0].value, ast.Call) and ast.unparse(tr[0].value.func) == "operations_v1.OperationsRestTransport"
                tk = {k.arg: ast.unparse(k.value) for k in tr[0].value.keywords} if okr else {}
                run.table(f"{tag}:rest-operations-transport-shares-host-credentials-scopes",
                          okr and tk.get("host") == "self._host" and tk.get("credentials") == "self._credentials" and tk.get("scopes") == "self._scopes"
                          and tk.get("http_options") == "http_options", detail=str(tk), group="lro.transport:same-channel")
                # ... and polls where the service configuration says: one entry per configured google.longrunning.Operations rule, whatever else holds
                n_items = var.d(("len", "api.http_options.items()"), 0) or 0
                lit = next((s_.value for s_ in ast.walk(stm[0]) if isinstance(s_, (ast.Assign, ast.AnnAssign)) and
                            ast.unparse(s_.targets[0] if isinstance(s_, ast.Assign) else s_.target) == "http_options" and isinstance(s_.value, ast.Dict)), None)
                keys = [k.value for k in lit.keys if isinstance(k, ast.Constant)] if lit is not None else None
                want, asked = [], True
                for i in range(n_items):
                    sw = var.d(("bool", f"api.http_options.items()[{i}].k.startswith('google.longrunning.Operations')"))
                    if sw is None:
                        asked = False
                    elif sw:
                        want.append(var.hole_for(f"api.http_options.items()[{i}].k"))
                run.table(f"{tag}:rest-operations-rules-are-exactly-the-configured-Operations-rules", keys is not None and asked and keys == want,
                          detail=f"entries={keys} configured={want} every-selector-examined={asked}", group="lro.transport:rest-operations-rules")
    # _logged_channel is the transport's channel behind the logging interceptor (grpc) / the channel itself
    for fname in ("grpc.py.j2", "grpc_asyncio.py.j2"):
        src = J.template_source(env, TR + fname)
        if fname == "grpc.py.j2":
            ok = "self._logged_channel =  grpc.intercept_channel(self._grpc_channel, self._interceptor)" in src or \
                 "self._logged_channel = grpc.intercept_channel(self._grpc_channel, self._interceptor)" in src
        else:
            ok = "self._logged_channel = self._grpc_channel" in src
        run.table(f"lro.transport:{fname}:_logged_channel-is-the-transport-channel", ok, group="lro.transport:logged-channel")


def two_pass_visibility(run: Run):
    """API.build: every descriptor of the request is loaded (messages only) before any service; the second pass sees all of them."""
    fdef, h = find_def(A, "API.build")
    run.functions.append({"qualname": "API.build (two-pass provenance)", "source": A, "sha256_16": h, "obligations": "AST patterns"})
    src = ast.unparse(fdef)
    g = "lro.visibility:two-pass"
    run.table("lro.visibility:first-pass-loads-every-descriptor-without-services",
              "for fd in file_descriptors:" in src and "pre_protos[fd.name] = Proto.build(file_descriptor=fd" in src and "load_services=False" in src, group=g)
    run.table("lro.visibility:first-pass-accumulates-prior-protos", "prior_protos=pre_protos, load_services=False" in src, group=g)
    run.table("lro.visibility:second-pass-sees-every-first-pass-proto",
              "for name, proto in pre_protos.items()" in src and "prior_protos=pre_protos, all_resources=" in src, group=g)
    # _get_methods passes the service address to _maybe_get_lro and stores the result as Method.lro
    f2, h2 = find_def(A, "_ProtoBuilder._get_methods")
    s2 = ast.unparse(f2)
    run.functions.append({"qualname": "_ProtoBuilder._get_methods (provenance)", "source": A, "sha256_16": h2, "obligations": "AST patterns"})
    run.table("lro.visibility:_get_methods-stores-_maybe_get_lro(service_address, meth_pb)",
              "lro=self._maybe_get_lro(service_address, meth_pb)" in s2, detail=s2[:0], group="lro.visibility:method-lro")
    # Proto.all_messages: the builder's registry (same keys, context added), filled by _load_message for every (nested) message
    f3, h3 = find_def(A, "_ProtoBuilder.proto")
    s3 = ast.unparse(f3)
    run.table("lro.visibility:Proto.all_messages-has-the-keys-of-the-builder's-registry",
              "all_messages=self.proto_messages" in s3 and "for k, v in naive.all_messages.items()" in s3, group="lro.visibility:all_messages")
    f4, h4 = find_def(A, "_ProtoBuilder._load_message")
    s4 = ast.unparse(f4)
    run.table("lro.visibility:_load_message-registers-under-the-full-proto-name",
              "address = address.child(message_pb.name, path)" in s4 and "self.proto_messages[address.proto] = wrappers.MessageType(" in s4
              and "loader=self._load_message" in s4, group="lro.visibility:all_messages")


def run(run: Run):
    stage1(run)
    two_pass_visibility(run)
    client_regions(run)
    operations_clients(run)
    run.native_standin("props.C08_native", "scenarios",
                       "annotation rejections; 7 type-resolution cases (relative / fully-qualified, same file / imported / not imported / Empty / nested) + a "
                       "colliding parameter name, x 5 polling histories (not-done^k then done | error) x sync / asyncio, on a loopback channel")
    run.assume("google.api_core.operation(_async).from_gapic unpacks response / metadata with the given types and polls through the given operations client (api-core, not under proof)",
               "grpc.intercept_channel returns a channel that forwards to the wrapped channel")
    run.not_decided.append("the polling loop itself (inside api-core) and the REST operations transport's HTTP traffic")


def falsify(run, group, info):
    from vf.genlab import run_isolated
    f = run_isolated("props.C08_native", "scenarios")
    fails = [x for x in f["failures"] if not x.get("known")]
    return ({"kind": "lro", "failures": fails[:6]}, True) if fails else (None, False)


def replay(path):
    import json
    from vf.genlab import run_isolated
    f = run_isolated("props.C08_native", "scenarios")
    fails = [x for x in f["failures"] if not x.get("known")]
    print("LRO scenarios ->", json.dumps(fails[:4])[:1500] if fails else f"conform ({f['cases']} cases)")
    return 1 if fails else 0
