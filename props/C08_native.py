"""C08 replay: LRO type-resolution cases x polling histories on the generated library over a loopback channel.  Bounded."""
import asyncio

PKG = "acme.lab.v1"
# rpc name -> (response_type as written in the annotation, metadata_type as written, expected result class path, expected metadata class path)
CASES = {
    "StartSame": ("SameResult", "SameMeta", "acme.lab_v1.types.SameResult", "acme.lab_v1.types.SameMeta"),                       # relative, same file
    "StartFq": ("acme.lab.v1.Brew", "acme.lab.v1.BrewMeta", "acme.lab_v1.types.Brew", "acme.lab_v1.types.BrewMeta"),          # fully qualified, imported file
    "StartRelOther": ("Brew", "BrewMeta", "acme.lab_v1.types.Brew", "acme.lab_v1.types.BrewMeta"),                              # relative, imported file
    "StartHidden": ("HiddenResult", "HiddenMeta", "acme.lab_v1.types.HiddenResult", "acme.lab_v1.types.HiddenMeta"),           # relative, file NOT imported
    "StartHiddenFq": ("acme.lab.v1.HiddenResult", "acme.lab.v1.HiddenMeta", "acme.lab_v1.types.HiddenResult", "acme.lab_v1.types.HiddenMeta"),
    "StartEmpty": ("google.protobuf.Empty", "SameMeta", "google.protobuf.empty_pb2.Empty", "acme.lab_v1.types.SameMeta"),       # Empty result
    # same response type as StartEmpty / StartSame, other metadata type (an OperationInfo must not be shared by response type)
    "StartEmptyOtherMeta": ("google.protobuf.Empty", "BrewMeta", "google.protobuf.empty_pb2.Empty", "acme.lab_v1.types.BrewMeta"),
    "StartSameOtherMeta": ("SameResult", "acme.lab.v1.HiddenMeta", "acme.lab_v1.types.SameResult", "acme.lab_v1.types.HiddenMeta"),
    "StartNested": ("acme.lab.v1.Outer.Inner", "SameMeta", "acme.lab_v1.types.Outer.Inner", "acme.lab_v1.types.SameMeta"),     # nested message
}


def files(hidden_first=False, bad=None, collide=False):
    from vf import genlab as G
    T = G.T
    types = G.new_file("acme/lab/v1/brews.proto", PKG)
    G.add_message(types, "Brew", [G.F("x", 1, T.TYPE_STRING)])
    G.add_message(types, "BrewMeta", [G.F("pct", 1, T.TYPE_INT32)])
    outer = G.add_message(types, "Outer", [G.F("y", 1, T.TYPE_STRING)])
    G.add_message(outer, "Inner", [G.F("x", 1, T.TYPE_STRING)])
    hidden = G.new_file("acme/lab/v1/hidden.proto", PKG)
    G.add_message(hidden, "HiddenResult", [G.F("x", 1, T.TYPE_STRING)])
    G.add_message(hidden, "HiddenMeta", [G.F("pct", 1, T.TYPE_INT32)])
    lab = G.new_file("acme/lab/v1/lab.proto", PKG, deps=G.STD_DEPS + ["acme/lab/v1/brews.proto"])
    G.add_message(lab, "Req", [G.F("name", 1, T.TYPE_STRING), G.F("operation", 2, T.TYPE_STRING)])
    G.add_message(lab, "SameResult", [G.F("x", 1, T.TYPE_STRING)])
    G.add_message(lab, "SameMeta", [G.F("pct", 1, T.TYPE_INT32)])
    svc = G.add_service(lab, "Lab")
    OP = ".google.longrunning.Operation"
    for rpc, (r, mt, _, _) in CASES.items():
        G.add_method(svc, rpc, f".{PKG}.Req", OP, http=("post", "/v1/{name=labs/*}:" + rpc), body="*", lro=(r, mt))
    G.add_method(svc, "RawOperation", f".{PKG}.Req", OP, http=("post", "/v1/{name=labs/*}:raw"), body="*")
    if collide:
        # a flattened parameter called `operation` puts the module name of google.api_core.operation into the collision set
        G.add_method(svc, "Resume", f".{PKG}.Req", OP, http=("post", "/v1/{name=labs/*}:resume"), body="*", lro=("SameResult", "SameMeta"),
                     signatures=["name,operation"])
    if bad:
        from google.longrunning import operations_pb2
        m = G.add_method(svc, "Bad", f".{PKG}.Req", OP, http=("post", "/v1/{name=labs/*}:bad"), body="*")
        info = m.options.Extensions[operations_pb2.operation_info]
        info.SetInParent()
        info.response_type, info.metadata_type = bad
        m.options.Extensions[operations_pb2.operation_info].CopyFrom(info)
    return [hidden, types, lab] if hidden_first else [types, lab, hidden]


def rejections():
    """A method returning Operation whose annotation lacks a type name is rejected at generation time."""
    from vf import genlab as G
    failures, n = [], 0
    for bad in (("", "SameMeta"), ("SameResult", ""), ("", "")):
        n += 1
        try:
            api, _ = G.build_api(files(bad=bad), "autogen-snippets=false")
            m = api.services[f"{PKG}.Lab"].methods["Bad"]
            failures.append({"case": "rejection", "annotation": {"response_type": bad[0], "metadata_type": bad[1]},
                             "what": "generation accepted an operation_info lacking a type name", "lro": repr(m.lro)[:80]})
        except TypeError:
            pass
        except Exception as e:      # noqa
            failures.append({"case": "rejection", "annotation": list(bad), "what": "unexpected error kind", "error": repr(e)[:200]})
    return n, failures


def _resolve(path):
    import importlib
    parts = path.split(".")
    for i in range(len(parts), 0, -1):
        try:
            obj = importlib.import_module(".".join(parts[:i]))
        except ImportError:
            continue
        for p in parts[i:]:
            obj = getattr(obj, p)
        return obj
    raise ImportError(path)


def _to_pb(cls, **kw):
    inst = cls(**kw)
    return cls.pb(inst) if hasattr(cls, "pb") else inst


def scenarios():
    import time
    from vf import genlab as G
    from google.auth.credentials import AnonymousCredentials
    from google.longrunning import operations_pb2
    from google.protobuf import any_pb2, empty_pb2
    from google.rpc import status_pb2
    from google.api_core import exceptions as core_exceptions
    G.stub_pandoc_if_absent()
    n, failures = rejections()
    for hidden_first in (False, True):
        try:
            G.build_api(files(hidden_first=hidden_first), "autogen-snippets=false")
        except Exception as e:      # noqa
            failures.append({"case": "resolution", "hidden_first": hidden_first, "what": "generation failed", "error": repr(e)[:300]})
    # relative type names are resolved against the package of the METHOD: a service in a sub-package whose result / metadata types have namesakes
    # in the API's root package
    root = G.new_file("acme/depot/v1/common.proto", "acme.depot.v1")
    for nm in ("Result", "Progress", "Req"):
        G.add_message(root, nm, [G.F("root_marker", 1, G.T.TYPE_STRING)])
    arch = G.new_file("acme/depot/v1/archive/archive.proto", "acme.depot.v1.archive", deps=G.STD_DEPS + ["acme/depot/v1/common.proto"])
    for nm in ("Result", "Progress"):
        G.add_message(arch, nm, [G.F("archive_marker", 1, G.T.TYPE_STRING)])
    asvc = G.add_service(arch, "Archive")
    G.add_method(asvc, "Compact", ".acme.depot.v1.Req", ".google.longrunning.Operation", http=("post", "/v1/{name=a/*}:compact"), body="*", lro=("Result", "Progress"))
    G.add_method(asvc, "Purge", ".acme.depot.v1.Req", ".google.longrunning.Operation", http=("post", "/v1/{name=a/*}:purge"), body="*",
                 lro=("acme.depot.v1.Result", "acme.depot.v1.archive.Progress"))
    n += 2
    try:
        dapi, _ = G.build_api([root, arch], "autogen-snippets=false")
        ms = dapi.services["acme.depot.v1.archive.Archive"].methods
        got = {k: (ms[k].lro.response_type.ident.proto, ms[k].lro.metadata_type.ident.proto) for k in ("Compact", "Purge")}
        want = {"Compact": ("acme.depot.v1.archive.Result", "acme.depot.v1.archive.Progress"), "Purge": ("acme.depot.v1.Result", "acme.depot.v1.archive.Progress")}
        if got != want:
            failures.append({"case": "schema", "what": "relative operation_info names of a sub-package service are not resolved against the method's package", "got": got, "want": want})
    except Exception as e:      # noqa
        failures.append({"case": "schema", "what": "an API with an LRO service in a sub-package cannot be built", "error": repr(e)[:300]})
    # ... and the result / metadata classes of such a service carry the full names a server packs into Operation.response / .metadata (an Any is
    # matched by full name): the sub-package file's types module, loaded by path
    n += 1
    try:
        import importlib.util, os as _os, sys as _sys
        cat = G.new_file("acme/depot/v1/catalog/catalog.proto", "acme.depot.v1.catalog")
        for nm in ("ImportResult", "ImportMeta", "ImportReq"):
            G.add_message(cat, nm, [G.F("name", 1, G.T.TYPE_STRING)])
        G.add_method(G.add_service(cat, "Catalog"), "Import", ".acme.depot.v1.catalog.ImportReq", ".google.longrunning.Operation",
                     http=("post", "/v1/{name=c/*}:import"), body="*", lro=("ImportResult", "ImportMeta"))
        other = G.new_file("acme/depot/v1/shared/shared.proto", "acme.depot.v1.shared")
        G.add_message(other, "Shared", [G.F("x", 1, G.T.TYPE_STRING)])
        _, cres = G.generate([cat, other], "autogen-snippets=false")
        with G.materialised(cres) as croot:
            path_ = _os.path.join(croot, "acme/depot_v1/catalog/types/catalog.py")
            spec_ = importlib.util.spec_from_file_location("verif_c08_catalog", path_)
            mod_ = importlib.util.module_from_spec(spec_)
            _sys.modules[spec_.name] = mod_
            spec_.loader.exec_module(mod_)
            a_ = any_pb2.Any()
            from google.protobuf import descriptor_pool, message_factory
            pool_ = descriptor_pool.DescriptorPool()
            for fp in G.dep_files() + [cat]:
                pool_.Add(fp)
            a_.Pack(message_factory.GetMessageClass(pool_.FindMessageTypeByName("acme.depot.v1.catalog.ImportResult"))(name="done"))
            tgt = mod_.ImportResult.pb(mod_.ImportResult())
            if not a_.Unpack(tgt) or tgt.name != "done":
                failures.append({"case": "schema", "what": "the result type of an LRO declared in a sub-package does not accept the Any a server sends",
                                 "type_url": a_.type_url, "generated_full_name": tgt.DESCRIPTOR.full_name})
    except Exception as e:      # noqa
        failures.append({"case": "schema", "what": "sub-package LRO result type scenario failed", "error": repr(e)[:300]})
    # a service whose only Operation-returning rpc is NOT annotated (the raw Operation is returned): its transports still name operations_pb2
    n += 1
    try:
        import ast as _ast2
        from props.C01_native import undefined_names as _und
        rawf = G.new_file("acme/raw/v1/raw.proto", "acme.raw.v1")
        G.add_message(rawf, "Req", [G.F("name", 1, G.T.TYPE_STRING)])
        G.add_method(G.add_service(rawf, "Raw"), "Start", ".acme.raw.v1.Req", ".google.longrunning.Operation", http=("post", "/v1/{name=r/*}:start"), body="*")
        _, rres = G.generate([rawf], "autogen-snippets=false,transport=grpc+rest")
        for f_ in rres.file:
            if f_.name.endswith(".py") and "/services/" in f_.name:
                und = _und(_ast2.parse(f_.content))
                if und:
                    failures.append({"case": "schema", "what": "un-annotated Operation rpc only: names used but bound nowhere", "file": f_.name, "names": und[:5]})
    except Exception as e:      # noqa
        failures.append({"case": "schema", "what": "a service whose only Operation rpc is un-annotated cannot be generated", "error": repr(e)[:300]})
    # the API's own operation.proto (holding the result / metadata messages) next to api-core's `operation` module: the future is still built through
    # the wrapper module, i.e. no emitted service module binds one name to two imports or uses an unbound qualifier
    opf = G.new_file("acme/zoo/v1/operation.proto", "acme.zoo.v1")
    G.add_message(opf, "TrainResult", [G.F("x", 1, G.T.TYPE_STRING)])
    G.add_message(opf, "TrainMeta", [G.F("pct", 1, G.T.TYPE_INT32)])
    kf = G.new_file("acme/zoo/v1/keeper.proto", "acme.zoo.v1", deps=G.STD_DEPS + ["acme/zoo/v1/operation.proto"])
    G.add_message(kf, "TrainRequest", [G.F("name", 1, G.T.TYPE_STRING)])
    G.add_method(G.add_service(kf, "Keeper"), "Train", ".acme.zoo.v1.TrainRequest", ".google.longrunning.Operation", http=("post", "/v1/{name=a/*}:train"), body="*",
                 lro=("TrainResult", "TrainMeta"))
    n += 1
    try:
        import ast as _ast
        from props.C12_native import import_bindings_unique
        from props.C01_native import undefined_names
        _, zres = G.generate([opf, kf], "autogen-snippets=false,transport=grpc+rest")
        zf = []
        import_bindings_unique(zres, zf, "own operation.proto")
        for f_ in zres.file:
            if f_.name.endswith(".py") and "/services/" in f_.name:
                und = undefined_names(_ast.parse(f_.content))
                if und:
                    zf.append({"case": "own operation.proto: names used but bound nowhere", "file": f_.name, "names": und[:5]})
        failures += [dict(x, what=x.get("case")) for x in zf]
    except Exception as e:      # noqa
        failures.append({"case": "schema", "what": "an API with its own operation.proto and an LRO cannot be generated", "error": repr(e)[:300]})
    api, res = G.generate(files(collide=True), "autogen-snippets=false")
    svc = api.services[f"{PKG}.Lab"]
    for rpc, (r, mt, rcls, mcls) in CASES.items():
        n += 1
        lro = svc.methods[rpc].lro
        want_r = r if "." in r else f"{PKG}.{r}"
        want_m = mt if "." in mt else f"{PKG}.{mt}"
        if lro is None or lro.response_type.ident.proto != want_r or lro.metadata_type.ident.proto != want_m:
            failures.append({"case": "schema", "rpc": rpc, "what": "lro types are not the annotated ones", "got": None if lro is None else
                             [lro.response_type.ident.proto, lro.metadata_type.ident.proto], "want": [want_r, want_m]})
    if svc.methods["RawOperation"].lro is not None:
        failures.append({"case": "schema", "rpc": "RawOperation", "what": "un-annotated Operation method has lro"})
    real_sleep, real_asleep = time.sleep, asyncio.sleep
    time.sleep = lambda s: None

    async def _nosleep(s, *a, **k):
        await real_asleep(0)
    asyncio.sleep = _nosleep
    try:
        with G.materialised(res):
            from acme import lab_v1
            from acme.lab_v1.services.lab.transports import LabGrpcTransport, LabGrpcAsyncIOTransport
            state = {}

            def handler(kind, path, raw, md, deser, timeout):
                state.setdefault("paths", []).append(path)
                if path.startswith("/google.longrunning.Operations/"):
                    state["polls"] = state.get("polls", 0) + 1
                    k = state["script"].pop(0) if state["script"] else "done"
                    op = operations_pb2.Operation(name="operations/op1", done=(k != "not-done"))
                    op.metadata.Pack(_to_pb(state["mcls"], pct=state["polls"]))
                    if k == "done":
                        op.response.Pack(_to_pb(state["rcls"], **state["rkw"]))
                    elif k == "error":
                        op.error.CopyFrom(status_pb2.Status(code=5, message="gone"))
                    return deser(op.SerializeToString()) if deser else op
                op = operations_pb2.Operation(name="operations/op1", done=False)
                if "mcls" in state:
                    op.metadata.Pack(_to_pb(state["mcls"], pct=0))
                return deser(op.SerializeToString()) if deser else op
            histories = [["done"], ["not-done", "done"], ["not-done", "not-done", "not-done", "done"], ["error"], ["not-done", "not-done", "error"]]
            import os
            if os.environ.get("VERIF_TIER") == "thorough":
                histories += [["not-done"] * k + [end] for k in (5, 8, 13) for end in ("done", "error")]
            sync_client = lab_v1.LabClient(transport=LabGrpcTransport(channel=G.fake_channel(handler), credentials=AnonymousCredentials()))
            async_client = lab_v1.LabAsyncClient(transport=LabGrpcAsyncIOTransport(channel=G.fake_aio_channel(handler), credentials=AnonymousCredentials()))
            import re
            snake = lambda s: re.sub(r"(?<!^)(?=[A-Z])", "_", s).lower()
            targets = [(rpc, CASES[rpc], {}) for rpc in CASES] + [("Resume", CASES["StartSame"], {"name": "labs/1", "operation": "operations/zz"})]
            for rpc, (r, mt, rpath, mpath), flat in targets:
                rcls, mcls = _resolve(rpath), _resolve(mpath)
                for hist in histories:
                    for mode in ("sync", "async"):
                        n += 1
                        state.clear()
                        state.update(script=list(hist), rcls=rcls, mcls=mcls, rkw=({} if rcls is empty_pb2.Empty else {"x": "brewed"}))
                        label = {"case": "polling", "rpc": rpc, "history": hist, "mode": mode}
                        try:
                            if mode == "sync":
                                fut = getattr(sync_client, snake(rpc))(**flat) if flat else getattr(sync_client, snake(rpc))(request={"name": "labs/1"})
                                outcome = _drive_sync(fut)
                            else:
                                outcome = asyncio.run(_drive_async(async_client, snake(rpc), flat))
                        except Exception as e:      # noqa
                            failures.append(dict(label, what="call failed", error=repr(e)[:300]))
                            continue
                        kind, value, meta = outcome
                        polls = state.get("polls", 0)
                        if set(state["paths"]) - {f"/{PKG}.Lab/{rpc}", "/google.longrunning.Operations/GetOperation"}:
                            failures.append(dict(label, what="unexpected RPC paths on the channel", paths=sorted(set(state["paths"]))))
                        if polls != len(hist):
                            failures.append(dict(label, what="polls on the transport's channel != length of the scripted history", polls=polls))
                        if hist[-1] == "done":
                            if kind != "result" or not isinstance(value, rcls) or (rcls is not empty_pb2.Empty and value.x != "brewed"):
                                failures.append(dict(label, what="result is not an instance of the annotated response type with the packed content",
                                                     got=f"{kind}:{type(value).__module__}.{type(value).__name__}"))
                        else:
                            if kind != "error" or not isinstance(value, core_exceptions.GoogleAPICallError):
                                failures.append(dict(label, what="an operation error is not raised as GoogleAPICallError", got=f"{kind}:{value!r}"[:200]))
                        if not isinstance(meta, mcls) or meta.pct != len(hist):
                            failures.append(dict(label, what="metadata is not an instance of the annotated metadata type from the latest poll",
                                                 got=f"{type(meta).__module__}.{type(meta).__name__}", pct=getattr(meta, "pct", None)))
            # raw Operation
            for mode in ("sync", "async"):
                n += 1
                state.clear()
                state.update(script=[])
                if mode == "sync":
                    got = sync_client.raw_operation(request={"name": "labs/1"})
                else:
                    async def go():
                        return await async_client.raw_operation(request={"name": "labs/1"})
                    got = asyncio.run(go())
                if not isinstance(got, operations_pb2.Operation) or got.name != "operations/op1" or state.get("polls", 0):
                    failures.append({"case": "raw", "mode": mode, "what": "un-annotated Operation method does not return the raw Operation",
                                     "got": f"{type(got).__module__}.{type(got).__name__}"})
    finally:
        time.sleep, asyncio.sleep = real_sleep, real_asleep
    return {"cases": n, "failures": failures}


def _drive_sync(fut):
    try:
        v = fut.result(timeout=10 ** 6)
        return "result", v, fut.metadata
    except Exception as e:      # noqa
        return "error", e, fut.metadata


async def _drive_async(client, name, flat):
    fut = await (getattr(client, name)(**flat) if flat else getattr(client, name)(request={"name": "labs/1"}))
    try:
        v = await fut.result(timeout=10 ** 6)
        return "result", v, fut.metadata
    except Exception as e:      # noqa
        return "error", e, fut.metadata
