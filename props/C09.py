"""C09 - default retry and timeout of each method equal its gRPC service-config entry.

Stage 1 (pyvc on the real _ProtoBuilder._get_retry_and_timeout): the *first* methodConfig entry naming {service, method} decides; timeout =
seconds(entry.timeout) iff present; RetryInfo iff the entry has a retryPolicy, with its backoff numbers and exactly the exception
classes of retryableStatusCodes; any other method gets (None, None).
Stage 2 (provenance on every variant of _prep_wrapped_messages, sync and asyncio): default_timeout = method.timeout; default_retry
present iff method.retry, built from the entry's initial/maximum/multiplier, the predicate over exactly the retryable exceptions and
deadline = method.timeout; same table for Retry and AsyncRetry.
Finite table: every canonical status code round-trips through api-core's exception_class_for_grpc_status and core_exceptions.<Name>.
"""
import ast
import z3
from jinja2 import nodes
from vf.core import Run
from vf.pyvc import Contract
from vf.schema import SchemaModel
from vf.jsonmodel import JsonMixin, JSON, jstr
from vf.smt import Ref, fn
from vf.types import *          # noqa
from vf import j2sym as J
from vf.emit import parse_variant, frag_info

A = "gapic/schema/api.py"
TR = J.SERVICE_DIR + "transports/"


class M(JsonMixin, SchemaModel):
    def __init__(self):
        super().__init__()
        self.init_json()


def stage1(run: Run):
    m = M()
    m.add_class("ProtoBuilder", {"opts": "Options", "_to_float": "method"})
    m.add_class("Options", {"retry": "Opt[Json]"})
    m.add_class("RetryInfo", {"max_attempts": "Json", "initial_backoff": "Real", "max_backoff": "Real", "backoff_multiplier": "Json",
                              "retryable_exceptions": "Set[Opaque]",
                              "_fields": ["max_attempts", "initial_backoff", "max_backoff", "backoff_multiplier", "retryable_exceptions"]})
    import grpc
    from google.api_core import exceptions
    from vf.model import Native
    m.globals["grpc"] = pyv(Native(grpc))
    m.globals["exceptions"] = pyv(Native(exceptions))
    m.opaque_natives["google.api_core.exceptions.exception_class_for_grpc_status"] = "Opaque"
    seconds = fn("spec.seconds", Ref, z3.RealSort())
    m.specs["seconds"] = lambda ex, args, st: V(seconds(args[0].term), REAL)
    m.add_contract(Contract("ProtoBuilder._to_float", params={"self": "ProtoBuilder", "s": "Json"}, result="Real", kind="assumed",
                            ensures=["result == seconds(s)"],
                            note="string -> number parsing is outside the solvers; checked natively on a table of duration strings"))
    # from the statement
    m.add_spec("selector", ["addr", "mp"], "{'service': '.'.join(addr.package) + '.' + addr.name, 'method': mp.name}")
    m.add_spec("entry", ["cfg", "addr", "mp"],
               "next((c for c in cfg.get('methodConfig', []) if selector(addr, mp) in c.get('name')), None)")
    m.add_spec("exc_of", ["code"], "exceptions.exception_class_for_grpc_status(getattr(grpc.StatusCode, code))")
    c = Contract("_ProtoBuilder._get_retry_and_timeout", source=(A, "_ProtoBuilder._get_retry_and_timeout"),
                 params={"self": "ProtoBuilder", "service_address": "Address", "meth_pb": "MethodPb"}, result=None,
                 ensures=[
                     "implies(self.opts.retry is None or not truthy(self.opts.retry) or entry(self.opts.retry, service_address, meth_pb) is None "
                     "or not truthy(entry(self.opts.retry, service_address, meth_pb)), result[0] is None and result[1] is None)",
                     "implies(truthy(self.opts.retry) and truthy(entry(self.opts.retry, service_address, meth_pb)), "
                     "(result[1] is None) == (not truthy(entry(self.opts.retry, service_address, meth_pb).get('timeout'))))",
                     "implies(truthy(self.opts.retry) and truthy(entry(self.opts.retry, service_address, meth_pb)) and result[1] is not None, "
                     "result[1] == seconds(entry(self.opts.retry, service_address, meth_pb)['timeout']))",
                     "implies(truthy(self.opts.retry) and truthy(entry(self.opts.retry, service_address, meth_pb)), "
                     "(result[0] is None) == ('retryPolicy' not in entry(self.opts.retry, service_address, meth_pb)))",
                     "implies(result[0] is not None, "
                     "result[0].initial_backoff == seconds(entry(self.opts.retry, service_address, meth_pb)['retryPolicy'].get('initialBackoff', '0s')) and "
                     "result[0].max_backoff == seconds(entry(self.opts.retry, service_address, meth_pb)['retryPolicy'].get('maxBackoff', '0s')) and "
                     "result[0].backoff_multiplier == entry(self.opts.retry, service_address, meth_pb)['retryPolicy'].get('backoffMultiplier', 0.0))",
                     "implies(result[0] is not None, forall(lambda x: (x in result[0].retryable_exceptions) == "
                     "exists(lambda code: x is exc_of(code), entry(self.opts.retry, service_address, meth_pb)['retryPolicy'].get('retryableStatusCodes', [])), Opaque))",
                 ])
    m.specs["truthy"] = lambda ex, args, st: V(ex.truth(args[0]), BOOL)
    m.add_contract(c)
    run.verify(m, c)
    run.assume("_ProtoBuilder._to_float(s) is seconds(s) (assumed; native table below)", "json.load faithfully yields the service config")


def to_float_table(run: Run):
    """Bounded native stand-in for _to_float (string parsing): a table of protobuf duration strings."""
    from gapic.schema.api import _ProtoBuilder
    cases = {"30s": 30.0, "0s": 0.0, "1.5s": 1.5, "0.1s": 0.1, "600s": 600.0, "0.250s": 0.25, "1000000000n": 1.0, "5n": 5e-9}
    bad = []
    for s, want in cases.items():
        got = _ProtoBuilder._to_float(None, s)
        if abs(got - want) > 1e-12:
            bad.append((s, got, want))
    run.bounded.append({"what": "_ProtoBuilder._to_float on a table of duration strings", "bound": f"{len(cases)} strings", "cases": len(cases), "failures": bad})
    if bad:
        run.table("retry.to_float:table", False, detail=str(bad), group="retry.to_float:table")


def status_code_table(run: Run):
    import grpc
    from google.api_core import exceptions
    bad = []
    n = 0
    for code in grpc.StatusCode:
        if code == grpc.StatusCode.OK:
            continue
        n += 1
        cls = exceptions.exception_class_for_grpc_status(code)
        if getattr(exceptions, cls.__name__, None) is not cls or cls.grpc_status_code != code:
            bad.append(code.name)
    run.table("retry.codes:every-canonical-code-round-trips", not bad and n == 16, detail=f"{n} codes; bad={bad}", group="retry.codes:round-trip")


def table_region(run: Run, env, tname, what, anchor, retry_cls):
    tree = J.parse(env, tname)
    root = J.find_macro(tree, anchor) if anchor else tree
    loops = [f for f in root.find_all(nodes.For) if J.expr_path(getattr(f.iter, "node", None)) == "service.methods.values"
             and (J.has_data(f, "wrap_method(") or J.has_data(f, "_wrap_method("))]
    run.table(f"retry.table:{what}:loop-present", len(loops) == 1, group="retry.table:loop-present")
    if not loops:
        return
    vs = J.render_nodes(env, tree, [loops[0]], ["service", "api", "opts"], maxlen=2,
                        fixed={("len", "service.methods.values()"): 1})
    run.fragments.append(frag_info(tname, "_prep_wrapped_messages entry per method", vs))
    mp = "service.methods.values()[0]"
    n_checked = 0
    for vi, var in enumerate(vs):
        tag = f"retry.table:{what}:v{vi}"
        if var.error:
            run.table(f"{tag}:render-safe", False, detail=var.error, group="retry.table:render-safe")
            continue
        try:
            tree_py, _ = parse_variant("{\n" + var.text + "\n}")
        except SyntaxError as e:
            run.table(f"{tag}:parses", False, detail=str(e), group="retry.table:parses")
            continue
        d = tree_py.body[0].value
        if not (isinstance(d, ast.Dict) and len(d.values) == 1 and isinstance(d.values[0], ast.Call)):
            run.table(f"{tag}:one-entry", False, group="retry.table:shape")
            continue
        n_checked += 1
        call = d.values[0]
        kws = {k.arg: k.value for k in call.keywords}
        has_retry = bool(var.d(("bool", f"{mp}.retry")))
        H = lambda node: var.holes.get(ast.unparse(node)) if node is not None else None
        run.table(f"{tag}:default_timeout-is-the-method's-timeout", H(kws.get("default_timeout")) == f"{mp}.timeout", detail=str(H(kws.get("default_timeout"))),
                  group="retry.table:default-timeout")
        run.table(f"{tag}:default_retry-iff-retry-policy", ("default_retry" in kws) == has_retry, group="retry.table:retry-iff-policy")
        if not has_retry:
            continue
        r = kws["default_retry"]
        ok = isinstance(r, ast.Call) and ast.unparse(r.func) == f"retries.{retry_cls}"
        run.table(f"{tag}:retry-constructor", ok, detail=ast.unparse(r.func) if isinstance(r, ast.Call) else "", group="retry.table:constructor")
        if not ok:
            continue
        rk = {k.arg: k.value for k in r.keywords}
        for kw, attr in (("initial", "initial_backoff"), ("maximum", "max_backoff"), ("multiplier", "backoff_multiplier")):
            asked = var.d(("bool", f"{mp}.retry.{attr}"))
            # a keyword may be omitted only when its value is falsy (0): api-core then uses its default; the gRPC service-config schema
            # requires positive backoff numbers, so under wf_service_config the keyword is always present
            if asked:
                run.table(f"{tag}:{kw}-from-the-entry", H(rk.get(kw)) == f"{mp}.retry.{attr}", detail=str(H(rk.get(kw))), group=f"retry.table:{kw}")
            else:
                run.table(f"{tag}:{kw}-omitted-only-when-zero", kw not in rk, group=f"retry.table:{kw}")
        run.table(f"{tag}:deadline-is-the-timeout", H(rk.get("deadline")) == f"{mp}.timeout", detail=str(H(rk.get("deadline")) if "deadline" in rk else "missing"),
                  group="retry.table:deadline")
        pred = rk.get("predicate")
        n_exc = var.d(("len", f"{mp}.retry.retryable_exceptions|sort(attribute='__name__')"), 0)
        ok = isinstance(pred, ast.Call) and ast.unparse(pred.func) == "retries.if_exception_type" and len(pred.args) == n_exc
        if ok:
            for i, a in enumerate(pred.args):
                ok = ok and isinstance(a, ast.Attribute) and ast.unparse(a.value) == "core_exceptions" \
                    and var.holes.get(a.attr) == f"{mp}.retry.retryable_exceptions|sort(attribute='__name__')[{i}].__name__"
        run.table(f"{tag}:predicate-is-exactly-the-retryable-exceptions", ok, detail=ast.unparse(pred) if pred is not None else "missing",
                  group="retry.table:predicate")
        run.table(f"{tag}:no-other-retry-arguments", set(rk) <= {"initial", "maximum", "multiplier", "predicate", "deadline"} and not r.args,
                  group="retry.table:arguments")
        if len(run.samples) < 4:
            run.samples.append({"fragment": tag, "emitted": var.text[:900]})
    run.table(f"retry.table:{what}:some-variant-checked", n_checked > 0, group="retry.table:cover")


def bind_call(call, fdef):
    """Python's argument binding of `call` against `fdef` (positional, keyword, defaults): parameter name -> argument expression (ast) or
    ('default', ast).  None when the call cannot be bound."""
    a = fdef.args
    params = [x.arg for x in a.posonlyargs + a.args]
    if any(isinstance(x, ast.Starred) for x in call.args) or any(k.arg is None for k in call.keywords) or a.vararg or a.kwarg:
        return None
    if len(call.args) > len(params):
        return None
    bound = dict(zip(params, call.args))
    for k in call.keywords:
        if k.arg in bound or k.arg not in params + [x.arg for x in a.kwonlyargs]:
            return None
        bound[k.arg] = k.value
    defaults = dict(zip(params[len(params) - len(a.defaults):], a.defaults))
    defaults.update({x.arg: d for x, d in zip(a.kwonlyargs, a.kw_defaults) if d is not None})
    for p in params + [x.arg for x in a.kwonlyargs]:
        if p not in bound:
            if p not in defaults:
                return None
            bound[p] = ("default", defaults[p])
    return bound


def rest_deadline(run: Run, env):
    """REST transports: the timeout handed to the per-method callable (by api-core's wrapper: the entry's timeout, or the per-call one) is the
    timeout of the HTTP request - followed through Python's own argument binding of the emitted call against the emitted helper."""
    from props import C04
    for tname, what in ((TR + "rest.py.j2", "rest"), (TR + "rest_asyncio.py.j2", "rest-asyncio")):
        try:
            tree = J.parse(env, tname)
        except Exception as e:      # noqa
            run.table(f"retry.rest:{what}:template-present", False, detail=str(e)[:200], group="retry.rest:present")
            continue
        loop = C04._method_loop(tree, "__call__")
        run.table(f"retry.rest:{what}:per-method-class-loop-present", loop is not None, group="retry.rest:present")
        if loop is None:
            continue
        imports = list(tree.find_all((nodes.Import, nodes.FromImport)))
        vs = J.render_nodes(env, tree, imports + list(loop.body), ["method", "service", "opts", "api"], maxlen=1)
        run.fragments.append(frag_info(tname, f"_<Method> stub class ({what})", vs))
        n = 0
        for vi, var in enumerate(vs):
            tag = f"retry.rest:{what}:v{vi}"
            if var.error:
                run.table(f"{tag}:render-safe", False, detail=var.error, group="retry.rest:render-safe")
                continue
            try:
                tree_py, _ = parse_variant("class _Outer:\n" + var.text)
            except SyntaxError as e:
                run.table(f"{tag}:parses", False, detail=str(e), group="retry.rest:parses")
                continue
            cls = next((x for x in tree_py.body[0].body if isinstance(x, ast.ClassDef)), None)
            call = C04._fn(cls, "__call__") if cls is not None else None
            gr = C04._fn(cls, "_get_response") if cls is not None else None
            if call is None or gr is None:
                continue            # methods without a binding refuse the transport (C04)
            n += 1
            sends = [c for c in ast.walk(call) if isinstance(c, ast.Call) and isinstance(c.func, ast.Attribute) and c.func.attr == "_get_response"]
            ok = len(sends) == 1 and "timeout" in [x.arg for x in call.args.args + call.args.kwonlyargs]
            bound = bind_call(sends[0], gr) if ok else None
            # inside the helper: the HTTP call's timeout keyword reads a parameter ...
            http = [c for c in ast.walk(gr) if isinstance(c, ast.Call) and ast.unparse(c.func) == "getattr(session, method)"]
            kw = next((k.value for c in http for k in c.keywords if k.arg == "timeout"), None) if len(http) == 1 else None
            reassigned = {t.id for fn_ in (call, gr) for x in ast.walk(fn_) if isinstance(x, (ast.Assign, ast.AugAssign, ast.AnnAssign))
                          for t in ast.walk(x.targets[0] if isinstance(x, ast.Assign) else x.target) if isinstance(t, ast.Name)}
            # ... and that parameter is bound to the caller's `timeout`
            good = bound is not None and isinstance(kw, ast.Name) and isinstance(bound.get(kw.id), ast.Name) and bound[kw.id].id == "timeout" and \
                "timeout" not in reassigned and kw.id not in reassigned
            detail = "call: " + (ast.unparse(sends[0])[-160:] if sends else "-") + " | def: " + ast.unparse(gr.args) + " | http timeout=" + (ast.unparse(kw) if kw is not None else "-")
            run.table(f"{tag}:the-callable's-timeout-is-the-timeout-of-the-http-request", bool(good), detail=detail, group="retry.rest:deadline-reaches-the-wire")
        run.table(f"retry.rest:{what}:some-variant-checked", n > 0, group="retry.rest:cover")


def run(run: Run):
    stage1(run)
    to_float_table(run)
    status_code_table(run)
    env = J.make_env()
    table_region(run, env, TR + "base.py.j2", "sync", None, "Retry")
    table_region(run, env, J.SERVICE_DIR + "_shared_macros.j2", "async", "prep_wrapped_messages_async_method", "AsyncRetry")
    rest_deadline(run, env)
    run.assume("api-core: Retry(initial, maximum, multiplier, predicate, deadline) / wrap_method(default_retry, default_timeout) behave as documented; "
               "an explicit per-call retry/timeout overrides the default",
               "wf_service_config: initialBackoff, maxBackoff, backoffMultiplier > 0 (gRPC service-config schema) - otherwise the keyword is omitted and api-core's default applies")
    run.not_decided.append("actual sleeping / attempt counts (inside api-core)")
    run.native_standin("props.C09_native", "scenarios")



def falsify(run, group, info):
    from vf.genlab import run_isolated
    f = run_isolated("props.C09_native", "scenarios")
    run.bounded.append({"what": "falsifier: service-config corpus -> generated transport -> inspected Retry/timeout defaults", "cases": f["cases"]})
    return ({"kind": "retry", "failures": f["failures"][:6]}, True) if f["failures"] else (None, False)


def replay(path):
    import json
    from vf.genlab import run_isolated
    f = run_isolated("props.C09_native", "scenarios")
    print("retry scenarios ->", json.dumps(f["failures"][:4]) if f["failures"] else "conform")
    return 1 if f["failures"] else 0
