"""C12 replay: reserved words / keywords at every naming position of a generated library (compile, import, drive).  Bounded."""
import asyncio, urllib.parse


def files(rpc_names=("Import", "Yield", "Fetch"), file_name="acme/lab/v1/global.proto"):
    from vf import genlab as G
    T = G.T
    meta = G.new_file("acme/lab/v1/metadata.proto", "acme.lab.v1")
    G.add_message(meta, "Meta", [G.F("retry", 1, T.TYPE_STRING)])
    fd = G.new_file(file_name, "acme.lab.v1", deps=G.STD_DEPS + ["acme/lab/v1/metadata.proto"])
    G.add_message(fd, "Spec", [G.F("class", 1, T.TYPE_STRING), G.F("size", 2, T.TYPE_INT32), G.F("type", 3, T.TYPE_STRING)])
    G.add_message(fd, "Req", [G.F("name", 1, T.TYPE_STRING), G.F("type", 2, T.TYPE_STRING), G.F("format", 3, T.TYPE_MESSAGE, type_name=".acme.lab.v1.Spec"),
                              G.F("spec", 4, T.TYPE_MESSAGE, type_name=".acme.lab.v1.Spec"), G.F("max", 5, T.TYPE_INT32),
                              G.F("in", 6, T.TYPE_STRING), G.F("meta", 7, T.TYPE_MESSAGE, type_name=".acme.lab.v1.Meta")])
    G.add_message(fd, "Resp", [G.F("any", 1, T.TYPE_STRING)])
    svc = G.add_service(fd, "Lab")
    for i, rn in enumerate(rpc_names):
        G.add_method(svc, rn, ".acme.lab.v1.Req", ".acme.lab.v1.Resp", http=("post", "/v1/{type=kinds/*}/{spec.class=classes/*}:m%d" % i), body="format",
                     signatures=["name,type,spec.class,max"] if i == 0 else [],
                     routing=[("in", ""), ("type", "{type=kinds/*}")] if i == 1 else None)
    return [meta, fd]


def scenarios():
    from vf import genlab as G
    from google.auth.credentials import AnonymousCredentials
    failures, cases = [], 0
    api, res = G.generate(files(), "autogen-snippets=false,transport=grpc+rest")
    names = [f.name for f in res.file]
    for f in res.file:
        if f.name.endswith(".py"):
            cases += 1
            try:
                compile(f.content, f.name, "exec")
            except SyntaxError as e:
                failures.append({"case": "emitted module does not compile", "file": f.name, "error": str(e)[:150]})
    if failures:
        return {"cases": cases, "failures": failures}
    with G.materialised(res):
        cases += 1
        try:
            from acme import lab_v1
            from acme.lab_v1.services.lab.transports import LabGrpcTransport, LabGrpcAsyncIOTransport
        except Exception as e:       # noqa
            return {"cases": cases, "failures": [{"case": "package does not import", "error": repr(e)[:300]}]}
        seen = []

        def handler(kind, path, raw, md, deser, timeout):
            seen.append((path, lab_v1.Req.deserialize(raw), [v for k, v in md if k == "x-goog-request-params"]))
            return deser(lab_v1.Resp.serialize(lab_v1.Resp(any_="ok")))
        client = lab_v1.LabClient(transport=LabGrpcTransport(channel=G.fake_channel(handler), credentials=AnonymousCredentials()))
        aclient = lab_v1.LabAsyncClient(transport=LabGrpcAsyncIOTransport(channel=G.fake_aio_channel(handler), credentials=AnonymousCredentials()))
        for which, cl in (("sync", client), ("async", aclient)):
            # keyword-named RPCs: reachable as <name>_, wire path keeps the original
            for py, rpc in (("import_", "Import"), ("yield_", "Yield"), ("fetch", "Fetch")):
                cases += 1
                seen.clear()
                try:
                    r = getattr(cl, py)(request={"name": "n", "type_": "kinds/k", "spec": {"class_": "classes/c"}, "in_": "x"})
                    if which == "async":
                        asyncio.run(_aw(r))
                except Exception as e:       # noqa
                    failures.append({"case": f"{which} {py}()", "error": repr(e)[:200]})
                    continue
                if not seen or seen[0][0] != f"/acme.lab.v1.Lab/{rpc}":
                    failures.append({"case": f"{which} {py}()", "wire_path": seen[0][0] if seen else None})
                hdr = dict(urllib.parse.parse_qsl(seen[0][2][0])) if seen and seen[0][2] else {}
                want = {"in": "x", "type": "kinds/k"} if rpc == "Yield" else {"type": "kinds/k", "spec.class": "classes/c"}
                if hdr != want:
                    failures.append({"case": f"{which} {py}() routing header keys", "got": hdr, "want": want})
            # flattened parameters: reserved top-level and dotted leaf
            cases += 1
            seen.clear()
            try:
                r = cl.import_(name="n", type_="kinds/k", class_="classes/c", max_=3)
                if which == "async":
                    asyncio.run(_aw(r))
                got = seen[0][1]
                if (got.name, got.type_, got.spec.class_, got.max_) != ("n", "kinds/k", "classes/c", 3):
                    failures.append({"case": f"{which} flattened reserved parameters", "sent": str(got)})
            except Exception as e:       # noqa
                failures.append({"case": f"{which} flattened reserved parameters", "error": repr(e)[:200]})
        # wire names: proto/JSON field names stay the original
        cases += 1
        j = lab_v1.Req.to_json(lab_v1.Req(type_="t", max_=1, in_="i", spec=lab_v1.Spec(class_="c")))
        for key in ('"type"', '"max"', '"in"', '"class"'):
            if key not in j:
                failures.append({"case": "JSON field names", "json": j, "missing": key})
        # file names: keyword / control-parameter named proto files
        cases += 1
        want_files = {"acme/lab_v1/types/global_.py", "acme/lab_v1/types/metadata_.py"}
        if not want_files <= set(names):
            failures.append({"case": "type modules of global.proto / metadata.proto", "got": sorted(n for n in names if "/types/" in n)})
    return {"cases": cases, "failures": failures}


async def _aw(x):
    return await x
