"""C12 replay: reserved words / keywords at every naming position of a generated library (compile, import, drive).  Bounded."""
import asyncio, urllib.parse


def files(rpc_names=("Import", "Yield", "Fetch"), file_name="acme/lab/v1/global.proto"):
    from vf import genlab as G
    T = G.T
    meta = G.new_file("acme/lab/v1/metadata.proto", "acme.lab.v1")
    G.add_message(meta, "Meta", [G.F("retry", 1, T.TYPE_STRING)])
    fd = G.new_file(file_name, "acme.lab.v1", deps=G.STD_DEPS + ["acme/lab/v1/metadata.proto"])
    G.add_message(fd, "Spec", [G.F("class", 1, T.TYPE_STRING), G.F("size", 2, T.TYPE_INT32), G.F("type", 3, T.TYPE_STRING)])
    G.add_message(fd, "Req", [G.F("name", 1, T.TYPE_STRING), G.F("type", 2, T.TYPE_STRING), G.F("format", 3, T.TYPE_MESSAGE, type_name=".acme.lab.v1.Spec"),
                              G.F("spec", 4, T.TYPE_MESSAGE, type_name=".acme.lab.v1.Spec"), G.F("max", 5, T.TYPE_INT32, required=True),
                              G.F("in", 6, T.TYPE_STRING, required=True), G.F("meta", 7, T.TYPE_MESSAGE, type_name=".acme.lab.v1.Meta"),
                              G.F("from", 8, T.TYPE_MESSAGE, type_name=".acme.lab.v1.Spec")])
    G.add_message(fd, "Resp", [G.F("any", 1, T.TYPE_STRING)])
    svc = G.add_service(fd, "Lab")
    for i, rn in enumerate(rpc_names):
        G.add_method(svc, rn, ".acme.lab.v1.Req", ".acme.lab.v1.Resp", http=("post", "/v1/{type=kinds/*}/{spec.class=classes/*}:m%d" % i), body="format",
                     signatures=["name,type,spec.class,max"] if i == 0 else [],
                     routing=[("in", ""), ("type", "{type=kinds/*}")] if i == 1 else None)
    # a path variable below a message-typed field that is itself named by a keyword: every segment of the attribute path takes its underscore
    G.add_method(svc, "Below", ".acme.lab.v1.Req", ".acme.lab.v1.Resp", http=("get", "/v1/{from.type=sources/*}/items"))
    return [meta, fd]


def scenarios():
    from vf import genlab as G
    from google.auth.credentials import AnonymousCredentials
    failures, cases = [], 0
    api, res = G.generate(files(), "autogen-snippets=false,transport=grpc+rest")
    names = [f.name for f in res.file]
    for f in res.file:
        if f.name.endswith(".py"):
            cases += 1
            try:
                compile(f.content, f.name, "exec")
            except SyntaxError as e:
                failures.append({"case": "emitted module does not compile", "file": f.name, "error": str(e)[:150]})
    import_bindings_unique(res, failures, "reserved-word corpus")
    mc = G.run_isolated("props.C12_native", "module_collisions")
    cases += mc["cases"]
    failures += mc["failures"]
    if failures:
        return {"cases": cases, "failures": failures}
    with G.materialised(res):
        cases += 1
        try:
            from acme import lab_v1
            from acme.lab_v1.services.lab.transports import LabGrpcTransport, LabGrpcAsyncIOTransport
        except Exception as e:       # noqa
            return {"cases": cases, "failures": [{"case": "package does not import", "error": repr(e)[:300]}]}
        seen = []

        def handler(kind, path, raw, md, deser, timeout):
            seen.append((path, lab_v1.Req.deserialize(raw), [v for k, v in md if k == "x-goog-request-params"]))
            return deser(lab_v1.Resp.serialize(lab_v1.Resp(any_="ok")))
        client = lab_v1.LabClient(transport=LabGrpcTransport(channel=G.fake_channel(handler), credentials=AnonymousCredentials()))
        aclient = lab_v1.LabAsyncClient(transport=LabGrpcAsyncIOTransport(channel=G.fake_aio_channel(handler), credentials=AnonymousCredentials()))
        for which, cl in (("sync", client), ("async", aclient)):
            # keyword-named RPCs: reachable as <name>_, wire path keeps the original
            for py, rpc in (("import_", "Import"), ("yield_", "Yield"), ("fetch", "Fetch")):
                cases += 1
                seen.clear()
                try:
                    r = getattr(cl, py)(request={"name": "n", "type_": "kinds/k", "spec": {"class_": "classes/c"}, "in_": "x"})
                    if which == "async":
                        asyncio.run(_aw(r))
                except Exception as e:       # noqa
                    failures.append({"case": f"{which} {py}()", "error": repr(e)[:200]})
                    continue
                if not seen or seen[0][0] != f"/acme.lab.v1.Lab/{rpc}":
                    failures.append({"case": f"{which} {py}()", "wire_path": seen[0][0] if seen else None})
                hdr = dict(urllib.parse.parse_qsl(seen[0][2][0])) if seen and seen[0][2] else {}
                want = {"in": "x", "type": "kinds/k"} if rpc == "Yield" else {"type": "kinds/k", "spec.class": "classes/c"}
                if hdr != want:
                    failures.append({"case": f"{which} {py}() routing header keys", "got": hdr, "want": want})
            cases += 1
            seen.clear()
            try:
                r = cl.below(request={"from_": {"type_": "sources/s1"}, "in_": "x"})
                if which == "async":
                    asyncio.run(_aw(r))
                hdr = dict(urllib.parse.parse_qsl(seen[0][2][0])) if seen and seen[0][2] else {}
                if hdr != {"from.type": "sources/s1"}:
                    failures.append({"case": f"{which} below() routing header", "got": hdr, "want": {"from.type": "sources/s1"}})
            except Exception as e:       # noqa
                failures.append({"case": f"{which} below()", "error": repr(e)[:200]})
            # flattened parameters: reserved top-level and dotted leaf
            cases += 1
            seen.clear()
            try:
                r = cl.import_(name="n", type_="kinds/k", class_="classes/c", max_=3)
                if which == "async":
                    asyncio.run(_aw(r))
                got = seen[0][1]
                if (got.name, got.type_, got.spec.class_, got.max_) != ("n", "kinds/k", "classes/c", 3):
                    failures.append({"case": f"{which} flattened reserved parameters", "sent": str(got)})
            except Exception as e:       # noqa
                failures.append({"case": f"{which} flattened reserved parameters", "error": repr(e)[:200]})
        # REST: the HTTP path and the query parameters carry the original names - also for REQUIRED reserved-word fields, set or left at their default
        import importlib
        tr_mod = importlib.import_module("acme.lab_v1.services.lab.transports.rest")
        calls = []

        class Reply:
            status_code = 200
            content = b"{}"
            headers = {}
            request = None

        class Session:
            def _do(self, verb, url, params=None, data=None, **kw):
                calls.append((verb, url, [tuple(p) for p in (params or [])], data))
                return Reply()

            def close(self):
                pass
        for v in ("get", "post", "put", "patch", "delete"):
            setattr(Session, v, (lambda vv: lambda self, url, **kw: self._do(vv, url, **kw))(v))
        tr_mod.AuthorizedSession = lambda *a, **k: Session()
        rclient = lab_v1.LabClient(transport=tr_mod.LabRestTransport(credentials=AnonymousCredentials()))
        for req, want_q in (({"name": "n", "type_": "kinds/k", "spec": {"class_": "classes/c"}, "in_": "x", "max_": 5, "format_": {"class_": "c9", "type_": "t9", "size": 2}},
                             {"name": "n", "in": "x", "max": "5"}),
                            ({"type_": "kinds/k", "spec": {"class_": "classes/c"}}, {"in": "", "max": "0"})):
            cases += 1
            del calls[:]
            try:
                rclient.import_(request=req)
            except Exception as e:       # noqa
                failures.append({"case": f"rest import_({req})", "error": repr(e)[:200]})
                continue
            verb, url, params, data = calls[0]
            q = {k: str(v) for k, v in params if not k.startswith("$")}
            if not url.endswith("/v1/kinds/k/classes/c:m0") or q != want_q:
                failures.append({"case": f"rest import_({req}): path / query parameter names", "url": url, "query": q, "want_query": want_q})
            if "format_" in req:
                import json as _json
                body = _json.loads(data) if data else None
                if body != {"class": "c9", "type": "t9", "size": 2}:
                    failures.append({"case": "rest import_(): the JSON body carries the original (proto / lowerCamel) field names", "body": body,
                                     "want": {"class": "c9", "type": "t9", "size": 2}})
        # wire names: proto/JSON field names stay the original
        cases += 1
        j = lab_v1.Req.to_json(lab_v1.Req(type_="t", max_=1, in_="i", spec=lab_v1.Spec(class_="c")))
        for key in ('"type"', '"max"', '"in"', '"class"'):
            if key not in j:
                failures.append({"case": "JSON field names", "json": j, "missing": key})
        # file names: keyword / control-parameter named proto files
        cases += 1
        want_files = {"acme/lab_v1/types/global_.py", "acme/lab_v1/types/metadata_.py"}
        if not want_files <= set(names):
            failures.append({"case": "type modules of global.proto / metadata.proto", "got": sorted(n for n in names if "/types/" in n)})
    return {"cases": cases, "failures": failures}


def import_bindings_unique(res, failures, label):
    """No emitted module binds one local name to two different import targets (a later import would shadow the earlier one)."""
    import ast
    n = 0
    for f in res.file:
        if not f.name.endswith(".py"):
            continue
        n += 1
        try:
            tree = ast.parse(f.content)
        except SyntaxError as e:
            failures.append({"case": label + ": emitted module does not compile", "file": f.name, "error": str(e)[:150]})
            continue
        bound = {}
        for node in tree.body:
            if isinstance(node, ast.ImportFrom):
                for a in node.names:
                    tgt = (node.module, a.name)
                    loc = a.asname or a.name
                    if loc in bound and bound[loc] != tgt:
                        failures.append({"case": label + ": two imports bind the same name", "file": f.name, "name": loc,
                                         "imports": [".".join(x for x in bound[loc] if x), ".".join(x for x in tgt if x)]})
                    bound[loc] = tgt
    return n


def module_collisions():
    """Two proto-plus modules with the same base name (the API's own common.proto and a sibling API's common.proto consumed through proto-plus-deps),
    referenced from one file through DIFFERENT messages (request: one, response: the other) and through one message (both)."""
    from vf import genlab as G
    T = G.T
    failures, cases = [], 0
    for both_in_one in (False, True):
        shared = G.new_file("acme/shared/v1/common.proto", "acme.shared.v1")
        G.add_message(shared, "Label", [G.F("text", 1, T.TYPE_STRING)])
        common = G.new_file("acme/lab/v1/common.proto", "acme.lab.v1", deps=G.STD_DEPS + ["acme/shared/v1/common.proto"])
        # (the API's own common.proto uses a type of the other package's common.proto: that module is not "itself")
        # (only in the second variant - otherwise GetShelfRequest would reach both modules through Token and there would be no collision "across two messages")
        G.add_message(common, "Token", [G.F("value", 1, T.TYPE_STRING)] + ([G.F("label", 2, T.TYPE_MESSAGE, type_name=".acme.shared.v1.Label")] if both_in_one else []))
        lib = G.new_file("acme/lab/v1/library.proto", "acme.lab.v1", deps=G.STD_DEPS + ["acme/lab/v1/common.proto", "acme/shared/v1/common.proto"])
        G.add_message(lib, "GetShelfRequest", [G.F("name", 1, T.TYPE_STRING), G.F("token", 2, T.TYPE_MESSAGE, type_name=".acme.lab.v1.Token")] +
                      ([G.F("label", 3, T.TYPE_MESSAGE, type_name=".acme.shared.v1.Label")] if both_in_one else []))
        G.add_message(lib, "Shelf", [G.F("name", 1, T.TYPE_STRING), G.F("label", 2, T.TYPE_MESSAGE, type_name=".acme.shared.v1.Label")])
        svc = G.add_service(lib, "Library")
        G.add_method(svc, "GetShelf", ".acme.lab.v1.GetShelfRequest", ".acme.lab.v1.Shelf", http=("get", "/v1/{name=shelves/*}"))
        label = "base-name collision " + ("inside one message" if both_in_one else "across two messages")
        try:
            api, res = G.generate([shared, common, lib], "autogen-snippets=false,transport=grpc+rest,proto-plus-deps=acme.shared.v1",
                                  to_generate=["acme/lab/v1/common.proto", "acme/lab/v1/library.proto"])
        except Exception as e:       # noqa
            failures.append({"case": label + ": generation failed", "error": repr(e)[:200]})
            continue
        cases += import_bindings_unique(res, failures, label)
        import ast as _ast
        from props.C01_native import undefined_names as _und
        for f_ in res.file:
            if f_.name.endswith(".py") and ("/types/" in f_.name or "/services/" in f_.name):
                und = _und(_ast.parse(f_.content))
                if und:
                    failures.append({"case": label + ": names used but bound nowhere in the module", "file": f_.name, "names": und[:5]})
        # the two types are referenced through different qualifiers in the types module
        src = next(f.content for f in res.file if f.name == "acme/lab_v1/types/library.py")
        import re
        quals = {m.group(1) for m in re.finditer(r"message=([A-Za-z_0-9.]+)\.(Token|Label)\b", src)}
        if len(quals) != 2:
            failures.append({"case": label + ": Token and Label are not referenced through two distinct module qualifiers", "qualifiers": sorted(quals)})
    # the API's own operation.proto next to api-core's `operation` module: the long-running wrapper must be reached through its alias everywhere
    opf = G.new_file("acme/lab/v1/operation.proto", "acme.lab.v1")
    G.add_message(opf, "TrainResult", [G.F("x", 1, T.TYPE_STRING)])
    G.add_message(opf, "TrainMeta", [G.F("pct", 1, T.TYPE_INT32)])
    kf = G.new_file("acme/lab/v1/keeper.proto", "acme.lab.v1", deps=G.STD_DEPS + ["acme/lab/v1/operation.proto"])
    G.add_message(kf, "TrainRequest", [G.F("name", 1, T.TYPE_STRING), G.F("hint", 2, T.TYPE_MESSAGE, type_name=".acme.lab.v1.TrainResult")])
    ks = G.add_service(kf, "Keeper")
    G.add_method(ks, "Train", ".acme.lab.v1.TrainRequest", ".google.longrunning.Operation", http=("post", "/v1/{name=animals/*}:train"), body="*", lro=("TrainResult", "TrainMeta"))
    G.stub_pandoc_if_absent()
    try:
        api, res = G.generate([opf, kf], "autogen-snippets=false,transport=grpc+rest")
        cases += import_bindings_unique(res, failures, "own operation.proto + long-running rpc")
        from props.C01_native import undefined_names
        import ast
        for f in res.file:
            if f.name.endswith(".py") and "/services/" in f.name:
                und = undefined_names(ast.parse(f.content))
                if und:
                    failures.append({"case": "own operation.proto + long-running rpc: names used but bound nowhere in the module", "file": f.name, "names": und[:5]})
    except Exception as e:       # noqa
        failures.append({"case": "own operation.proto + long-running rpc: generation failed", "error": repr(e)[:200]})
    return {"cases": cases, "failures": failures}


async def _aw(x):
    return await x
