"""C15 replay: gapic_metadata.json and the fix-up table against the generated package.  Bounded."""
import json, re


def files():
    from vf import genlab as G
    T = G.T
    fd = G.new_file("acme/lab/v1/lab.proto", "acme.lab.v1")
    # declaration order differs from field-number order inside both the required and the optional group
    G.add_message(fd, "Req", [G.F("name", 3, T.TYPE_STRING), G.F("type", 1, T.TYPE_STRING), G.F("force", 5, T.TYPE_BOOL, required=True),
                              G.F("parent", 2, T.TYPE_STRING, required=True), G.F("note", 4, T.TYPE_STRING)])
    G.add_message(fd, "Resp", [G.F("x", 1, T.TYPE_STRING)])
    a = G.add_service(fd, "WidgetService")
    G.add_method(a, "GetWidget", ".acme.lab.v1.Req", ".acme.lab.v1.Resp", http=("get", "/v1/{name=w/*}"))
    G.add_method(a, "Import", ".acme.lab.v1.Req", ".acme.lab.v1.Resp", http=("post", "/v1/{name=w/*}:import"), body="*")
    # reserved (builtin) but not a keyword: the client method is `list`; lower-cased keyword of two words: `non_local`
    G.add_method(a, "List", ".acme.lab.v1.Req", ".acme.lab.v1.Resp", http=("get", "/v1/{parent=p/*}/widgets"))
    G.add_method(a, "NonLocal", ".acme.lab.v1.Req", ".acme.lab.v1.Resp", http=("get", "/v1/{name=w/*}:nonLocal"))
    # request-streaming rpcs: listed under every client kind (the client method exists whatever the transport can carry)
    G.add_method(a, "UploadWidgets", ".acme.lab.v1.Req", ".acme.lab.v1.Resp", client_streaming=True)
    G.add_method(a, "ChatWidgets", ".acme.lab.v1.Req", ".acme.lab.v1.Resp", client_streaming=True, server_streaming=True)
    G.add_method(a, "PurgeWidgets", ".acme.lab.v1.Req", ".acme.lab.v1.Resp", http=("post", "/v1/{parent=p/*}:purge"), body="*")
    b = G.add_service(fd, "AuditService")
    G.add_method(b, "Global", ".acme.lab.v1.Req", ".acme.lab.v1.Resp", http=("get", "/v1/{name=g/*}"))
    # a request type of another package with message-typed fields: the table lists all of its fields
    G.add_method(b, "SetPolicy", ".google.iam.v1.SetIamPolicyRequest", ".acme.lab.v1.Resp", http=("post", "/v1/{resource=g/*}:setPolicy"), body="*")
    fd.dependency.append("google/iam/v1/iam_policy.proto")
    G.add_service(fd, "IdleService")
    return [fd]


def check(transport, selective=None, namespace=None):
    from vf import genlab as G
    failures = []
    yaml = None
    if selective:
        yaml = {"type": "google.api.Service", "config_version": 3, "name": "lab.example.com", "publishing": {"library_settings": [
            {"version": "acme.lab.v1", "python_settings": {"common": {"selective_gapic_generation": {"methods": selective, "generate_omitted_as_internal": True}}}}]}}
    api, res = G.generate(files(), f"autogen-snippets=false,metadata,transport={transport}" + (f",python-gapic-namespace={namespace}" if namespace else ""), service_yaml=yaml,
                          extra_dep_modules=(__import__("google.iam.v1.iam_policy_pb2", fromlist=["x"]),))
    by = {f.name: f.content for f in res.file}
    if namespace:
        # a namespace of two segments: the library package is <namespace, dotted, lower-case>.<name>_<version>
        pkgdir = namespace.lower().replace(".", "/") + "/lab_v1"
        meta = json.loads(by[pkgdir + "/gapic_metadata.json"])
        want = namespace.lower() + ".lab_v1"
        return [] if (meta.get("protoPackage"), meta.get("libraryPackage")) == ("acme.lab.v1", want) else \
            [{"transport": transport, "namespace": namespace, "what": "library package", "got": meta.get("libraryPackage"), "want": want}]
    meta = json.loads(by["acme/lab_v1/gapic_metadata.json"])
    label = {"transport": transport, "selective": bool(selective)}
    want_kinds = (["grpc", "grpc-async"] if "grpc" in transport else []) + (["rest"] if "rest" in transport else [])
    if meta.get("protoPackage") != "acme.lab.v1" or meta.get("libraryPackage") != "acme.lab_v1":
        failures.append(dict(label, what="packages", got=[meta.get("protoPackage"), meta.get("libraryPackage")]))
    with G.materialised(res):
        import importlib
        pkg = importlib.import_module("acme.lab_v1")
        services = {"WidgetService": ["ChatWidgets", "GetWidget", "Import", "List", "NonLocal", "PurgeWidgets", "UploadWidgets"], "AuditService": ["Global", "SetPolicy"], "IdleService": []}
        if sorted(meta.get("services", {})) != sorted(services):
            failures.append(dict(label, what="services listed", got=sorted(meta.get("services", {}))))
        for s, rpcs in services.items():
            clients = meta.get("services", {}).get(s, {}).get("clients", {})
            if sorted(clients) != sorted(want_kinds):
                failures.append(dict(label, what=f"{s}: metadata lists client kinds {sorted(clients)} but the requested transports imply {sorted(want_kinds)}"))
            for kind, c in clients.items():
                cls = getattr(pkg, c.get("libraryClient", "?"), None)
                if cls is None:
                    failures.append(dict(label, what=f"{s}/{kind}: class {c.get('libraryClient')} is not exported by the package"))
                    continue
                if ("Async" in cls.__name__) != (kind == "grpc-async"):
                    failures.append(dict(label, what=f"{s}/{kind}: wrong client kind {cls.__name__}"))
                if sorted(c.get("rpcs", {})) != sorted(rpcs):
                    failures.append(dict(label, what=f"{s}/{kind}: rpcs {sorted(c.get('rpcs', {}))} != {sorted(rpcs)}"))
                for r, m in c.get("rpcs", {}).items():
                    if len(m["methods"]) != 1 or not hasattr(cls, m["methods"][0]):
                        failures.append(dict(label, what=f"{s}/{kind}/{r}: method {m['methods']} not found on {cls.__name__}"))
        # fix-up script table
        script = by["scripts/fixup_lab_v1_keywords.py"]
        mt = re.search(r"METHOD_TO_PARAMS: Dict\[str, Tuple\[str\]\] = (\{.*?\n    \})", script, re.S)
        table = eval(mt.group(1)) if mt else {}
        order = ("force", "parent", "name", "type_", "note")     # required first (declaration order), then the rest
        keys = ("get_widget", "import", "list", "non_local", "purge_widgets", "global", "upload_widgets", "chat_widgets")
        for key in keys:
            if table.get(key) != order:
                failures.append(dict(label, what=f"fix-up table entry {key!r}", got=table.get(key), want=order))
        if table.get("set_policy") != ("resource", "policy", "update_mask"):
            failures.append(dict(label, what="fix-up table entry 'set_policy' (request type of another package)", got=table.get("set_policy"), want=("resource", "policy", "update_mask")))
        keys = keys + ("set_policy",)
        if sorted(table) != sorted(keys):
            failures.append(dict(label, what="fix-up table keys", got=sorted(table)))
    return failures


def subpackage_fixup():
    """The fix-up table has an entry for every rpc of the API, also for the rpcs of a service declared in a sub-package."""
    from vf import genlab as G
    T = G.T
    root = G.new_file("acme/lab/v1/lab.proto", "acme.lab.v1")
    G.add_message(root, "Req", [G.F("name", 1, T.TYPE_STRING), G.F("force", 2, T.TYPE_BOOL)])
    G.add_message(root, "Resp", [G.F("x", 1, T.TYPE_STRING)])
    G.add_method(G.add_service(root, "Lab"), "GetThing", ".acme.lab.v1.Req", ".acme.lab.v1.Resp", http=("get", "/v1/{name=t/*}"))
    sub = G.new_file("acme/lab/v1/admin/admin.proto", "acme.lab.v1.admin", deps=G.STD_DEPS + ["acme/lab/v1/lab.proto"])
    adm = G.add_service(sub, "Admin")
    G.add_method(adm, "GetQuota", ".acme.lab.v1.Req", ".acme.lab.v1.Resp", http=("get", "/v1/{name=q/*}"))
    G.add_method(adm, "PurgeShelves", ".acme.lab.v1.Req", ".acme.lab.v1.Resp", http=("post", "/v1/{name=s/*}:purge"), body="*")
    failures = []
    try:
        api, res = G.generate([root, sub], "autogen-snippets=false,metadata")
    except Exception as e:      # noqa
        return [{"what": "generation failed for an API with a service in a sub-package", "error": repr(e)[:200]}]
    # ... and the metadata lists each rpc of such a service once per client kind, with one method name
    meta = json.loads(next(f.content for f in res.file if f.name.endswith("gapic_metadata.json")))
    for sname, sv in meta.get("services", {}).items():
        for kind, c in sv.get("clients", {}).items():
            for r, m in c.get("rpcs", {}).items():
                if len(m.get("methods", [])) != 1:
                    failures.append({"what": "an rpc is not listed exactly once for a client kind", "service": sname, "kind": kind, "rpc": r, "methods": m.get("methods")})
    if sorted(meta.get("services", {})) != ["Admin", "Lab"]:
        failures.append({"what": "services listed in the metadata of an API with a sub-package service", "got": sorted(meta.get("services", {}))})
    script = next((f.content for f in res.file if f.name.startswith("scripts/fixup_") and f.name.endswith("_keywords.py")), "")
    mt = re.search(r"METHOD_TO_PARAMS: Dict\[str, Tuple\[str\]\] = (\{.*?\n    \})", script, re.S)
    table = eval(mt.group(1)) if mt else {}
    if sorted(table) != ["get_quota", "get_thing", "purge_shelves"]:
        failures.append({"what": "fix-up table keys for an API with a service in a sub-package", "got": sorted(table), "want": ["get_quota", "get_thing", "purge_shelves"]})
    return failures


def run_one(i):
    cfgs = [("grpc", None), ("rest", None), ("grpc+rest", None), ("grpc+rest", ["acme.lab.v1.WidgetService.GetWidget"]), ("grpc", None, "Foo.Bar")]
    return check(*cfgs[i])


def scenarios():
    import subprocess, sys, os
    failures = []
    for i in range(5):
        code = "import json\nfrom props.C15_native import run_one\nprint('@@'+json.dumps(run_one(%d), default=str))" % i
        p = subprocess.run([sys.executable, "-c", code], capture_output=True, text=True, env=dict(os.environ))
        if "@@" not in p.stdout:
            failures.append({"config": i, "error": p.stderr[-600:]})
        else:
            failures += json.loads(p.stdout.rsplit("@@", 1)[1])
    from vf.genlab import run_isolated
    failures += run_isolated("props.C15_native", "subpackage_fixup")
    return {"cases": 6, "failures": failures}
