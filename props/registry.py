"""Which properties are claimed, at what level (single source for MANIFEST.json)."""
CLAIMS = {}
_WIP = "check not built yet (work in progress; see DESIGN.md section 12 build order)"
NOT_APPLICABLE = {f"C{i:02d}": _WIP for i in range(1, 21)}
NOT_APPLICABLE["C13"] = ("outcome of executing ~4000 lines of emitted pytest code against the emitted package; no pre/postcondition "
                         "on a function of the repository expresses 'pytest reports no failure' (DESIGN.md section 6)")
